(* C01 end to end: backup, then the whole of restore (archive side and destination side),
   leaves in an empty destination exactly the source tree, bytes included.

     src_treeb_sound
     walk_is_tree_shaped, walk_src_tree
     backup_then_full_restore_builds_the_source_tree
     backup_then_full_restore_builds_the_source_tree_with_reuse
     first_backup_then_full_restore_builds_the_source_tree *)
From Coq Require Import List NArith ZArith Bool Lia Arith Sorted Permutation.
From CV Require Import Base.Str Base.StrP Apath ApathP Entry Stitch Tree TreeP Codec Store StitchProg
  Backup Ops Delete Read SafeP Inv Valid Truth Conf ConfP E2E E2EP Dest DestP DestTreeP Full.
Import ListNotations.
Local Open Scope N_scope.

(* ------------------------------------------------------------------------- *)
(** * 1. Lists                                                                 *)
(* ------------------------------------------------------------------------- *)
Lemma filter_split {A} (f : A -> bool) l : forall s1 x s2,
  filter f l = s1 ++ x :: s2 ->
  exists t1 t2, l = t1 ++ x :: t2 /\ filter f t1 = s1 /\ filter f t2 = s2.
Proof.
  induction l as [|y l IH]; intros s1 x s2 H; cbn [filter] in H.
  - destruct s1; discriminate.
  - destruct (f y) eqn:Fy.
    + destruct s1 as [|z s1]; cbn in H; inversion H; subst.
      * exists [], l. cbn. auto.
      * destruct (IH _ _ _ H2) as (t1 & t2 & -> & E1 & E2).
        exists (z :: t1), t2. cbn [filter app]. rewrite Fy, E1. auto.
    + destruct (IH _ _ _ H) as (t1 & t2 & -> & E1 & E2).
      exists (y :: t1), t2. cbn [filter app]. rewrite Fy. auto.
Qed.

Lemma map_split {A B} (g : A -> B) l : forall m1 y m2,
  map g l = m1 ++ y :: m2 ->
  exists l1 x l2, l = l1 ++ x :: l2 /\ map g l1 = m1 /\ g x = y /\ map g l2 = m2.
Proof.
  induction l as [|a l IH]; intros m1 y m2 H; cbn [map] in H.
  - destruct m1; discriminate.
  - destruct m1 as [|b m1]; cbn in H; inversion H; subst.
    + exists [], a, l. auto.
    + destruct (IH _ _ _ H2) as (l1 & x & l2 & -> & E1 & E2 & E3).
      exists (a :: l1), x, l2. cbn. rewrite E1. auto.
Qed.

Lemma find_map {A B} (h : A -> B) (g : B -> bool) l :
  find g (map h l) = option_map h (find (fun x => g (h x)) l).
Proof. induction l as [|a l IH]; cbn; [reflexivity|]. destruct (g (h a)); [reflexivity|exact IH]. Qed.

Lemma find_Forall2 {A B} (R : A -> B -> Prop) (f : A -> bool) (g : B -> bool) l m :
  Forall2 R l m -> (forall x y, R x y -> f x = g y) ->
  match find f l, find g m with
  | Some x, Some y => R x y
  | None, None => True
  | _, _ => False
  end.
Proof.
  intros H E. induction H as [|x y l m Hxy _ IH]; cbn; [exact I|].
  rewrite <- (E x y Hxy). destruct (f x); [exact Hxy|exact IH].
Qed.

Lemma Forall2_map_eq {A B C} (R : A -> B -> Prop) (f : A -> C) (g : B -> C) l m :
  Forall2 R l m -> (forall x y, R x y -> f x = g y) -> map f l = map g m.
Proof. intros H E. induction H as [|x y l m Hxy _ IH]; cbn; [reflexivity|]. rewrite (E x y Hxy), IH. reflexivity. Qed.

Lemma Forall2_in_r {A B} (R : A -> B -> Prop) l m y :
  Forall2 R l m -> In y m -> exists x, In x l /\ R x y.
Proof.
  intros H. induction H as [|x0 y0 l m Hxy _ IH]; intros Hy; [contradiction|].
  destruct Hy as [<-|Hy]; [exists x0; split; [left; reflexivity|exact Hxy]|].
  destruct (IH Hy) as [x [Hx Rx]]. exists x. split; [right; exact Hx|exact Rx].
Qed.

(* ------------------------------------------------------------------------- *)
(** * 2. Tree-shaped listings                                                  *)
(* ------------------------------------------------------------------------- *)
Definition entry_shape (es : list entry) : shape := map (fun e => (e_apath e, e_kind e)) es.

Lemma shape_pf_entries es : shape_parents_first (entry_shape es) -> parents_first es.
Proof.
  intros H l1 e l2 q E P. subst es. unfold entry_shape in H. rewrite map_app in H. cbn [map] in H.
  destruct (H _ _ _ _ q eq_refl P) as [d [Hd Cd]].
  apply in_map_iff in Hd. destruct Hd as [x [Ex Hx]]. inversion Ex; subst.
  exists x. auto.
Qed.

Lemma shape_pf_filter (f : str * kind -> bool) sh :
  (forall a, f (a, KDir) = true) -> shape_parents_first sh -> shape_parents_first (filter f sh).
Proof.
  intros Fd H l1 a k l2 q E P.
  destruct (filter_split f sh _ _ _ E) as (t1 & t2 & -> & E1 & _).
  destruct (H _ _ _ _ q eq_refl P) as [d [Hd Cd]]. exists d. split; [|exact Cd].
  rewrite <- E1. apply filter_In. split; [exact Hd|apply Fd].
Qed.

Lemma shape_parentsb_sound sh : forall dirs l0,
  (forall q, In q dirs -> exists d, In (d, KDir) l0 /\ comps d = q) ->
  (forall q r, In q dirs -> ppre r q -> In r dirs) ->
  shape_parentsb dirs sh = true ->
  forall l1 a k l2 q, sh = l1 ++ (a, k) :: l2 -> ppre q (comps a) ->
    exists d, In (d, KDir) (l0 ++ l1) /\ comps d = q.
Proof.
  induction sh as [|[a0 k0] sh IH]; intros dirs l0 Hd Hc H l1 a k l2 q E P.
  - destruct l1; discriminate.
  - cbn [shape_parentsb] in H. apply andb_true_iff in H. destruct H as [Hpar Hrest].
    assert (Anc : forall r, ppre r (comps a0) -> In r dirs).
    { intros r Pr. apply ppre_parent in Pr. destruct Pr as [_ [Hne Pr]].
      destruct (parent (comps a0)) as [|c par] eqn:Ep; [congruence|]. rewrite <- Ep in *.
      apply mem_rpath_in in Hpar. destruct Pr as [->|Pr]; [exact Hpar|]. exact (Hc _ _ Hpar Pr). }
    destruct l1 as [|x l1].
    + cbn in E. inversion E; subst. rewrite app_nil_r. apply Hd. apply Anc. exact P.
    + cbn in E. inversion E; subst.
      assert (G : exists d, In (d, KDir) ((l0 ++ [(a0, k0)]) ++ l1) /\ comps d = q).
      { eapply (IH _ (l0 ++ [(a0, k0)])); [| |exact Hrest|reflexivity|exact P].
        - intros r Hr. destruct (kind_eqb k0 KDir) eqn:K.
          + destruct Hr as [<-|Hr].
            * exists a0. apply kind_eqb_true in K. subst k0.
              split; [apply in_app_iff; right; left; reflexivity|reflexivity].
            * destruct (Hd r Hr) as [d [Hin Hd']]. exists d. split; [apply in_app_iff; left; exact Hin|exact Hd'].
          + destruct (Hd r Hr) as [d [Hin Hd']]. exists d. split; [apply in_app_iff; left; exact Hin|exact Hd'].
        - intros r r' Hr Pr. destruct (kind_eqb k0 KDir).
          + destruct Hr as [<-|Hr]; [right; apply Anc; exact Pr|right; exact (Hc _ _ Hr Pr)].
          + exact (Hc _ _ Hr Pr). }
      rewrite <- app_assoc in G. exact G.
Qed.

Theorem src_treeb_sound src : src_treeb src = true -> SrcTree src.
Proof.
  unfold src_treeb. rewrite !andb_true_iff. intros [[T R] P].
  rewrite forallb_forall in T, R. split; [|split].
  - intros it Hit K Tn. specialize (T it Hit). rewrite K, Tn in T. discriminate.
  - intros it Hit C. specialize (R it Hit). rewrite C in R. cbn in R. apply kind_eqb_true. exact R.
  - intros l1 a k l2 q E Pq.
    exact (shape_parentsb_sound (src_shape src) [] [] ltac:(intros ? []) ltac:(intros ? ? []) P l1 a k l2 q E Pq).
Qed.

(* ------------------------------------------------------------------------- *)
(** * 3. The destination side, fed by the archive side                         *)
(* ------------------------------------------------------------------------- *)
Lemma content_from_spec rfs e d :
  NoDup (map (fun rf => e_apath (rf_entry rf)) rfs) -> In (RFile e (Some d)) rfs ->
  content_from rfs e = d.
Proof.
  intros N Hin. unfold content_from.
  destruct (find_finds (fun rf => str_eqb (e_apath (rf_entry rf)) (e_apath e)) rfs _ Hin (str_eqb_refl _))
    as [rf F].
  rewrite F. apply find_some in F. destruct F as [Hrf E]. apply str_eqb_eq in E.
  rewrite (NoDup_map_eq (fun rf => e_apath (rf_entry rf)) rfs rf (RFile e (Some d)) N Hrf Hin E). reflexivity.
Qed.

Section Core.
  (* what is known of the bytes restored for a file item *)
  Variable D : sitem -> bytes -> Prop.

  Definition restored_as (it : sitem) (rf : rfile) : Prop :=
    exists e d, rf = RFile e (Some d)
      /\ e_apath e = spath it /\ e_kind e = s_kind (si_e it) /\ e_target e = s_target (si_e it)
      /\ (s_kind (si_e it) = KFile -> D it d).

  Definition node_as (it : sitem) (n : node) : Prop :=
    match s_kind (si_e it) with
    | KDir => n = NDir
    | KFile => exists d, n = NFile d /\ D it d
    | KSymlink => exists t, s_target (si_e it) = Some t /\ n = NLink t
    | KUnknown => False
    end.

  Lemma core ks rfs :
    Forall2 restored_as ks rfs ->
    (forall it, In it ks -> is_valid (spath it) = true) ->
    NoDup (map spath ks) ->
    (forall it, In it ks -> s_kind (si_e it) <> KUnknown) ->
    (forall it, In it ks -> s_kind (si_e it) = KSymlink -> s_target (si_e it) <> None) ->
    (forall it, In it ks -> comps (spath it) = [] -> s_kind (si_e it) = KDir) ->
    shape_parents_first (src_shape ks) ->
    exists s, restore_into (content_from rfs) false [] (map rf_entry rfs) = Some s
      /\ d_esc s = 0 /\ d_errs s = 0 /\ d_done s = map spath ks
      /\ forall p, p <> [] ->
           match src_at ks p with
           | Some it => exists n, node_at (d_fs s) p = Some n /\ node_as it n
           | None => node_at (d_fs s) p = None
           end.
  Proof.
    intros F2 V N KU TG RT PF.
    set (es := map rf_entry rfs).
    assert (EA : map e_apath es = map spath ks).
    { unfold es. rewrite map_map. symmetry. apply (Forall2_map_eq _ _ _ _ _ F2).
      intros it rf (e & d & -> & Ea & _). symmetry. exact Ea. }
    assert (ES : entry_shape es = src_shape ks).
    { unfold es, entry_shape, src_shape. rewrite map_map. symmetry. apply (Forall2_map_eq _ _ _ _ _ F2).
      intros it rf (e & d & -> & Ea & Ek & _). cbn. unfold spath in Ea. rewrite Ea, Ek. reflexivity. }
    assert (EI : forall e, In e es -> exists it, In it ks /\ e_apath e = spath it
                   /\ e_kind e = s_kind (si_e it) /\ e_target e = s_target (si_e it)).
    { intros e He. unfold es in He. apply in_map_iff in He. destruct He as [rf [<- Hrf]].
      destruct (Forall2_in_r _ _ _ _ F2 Hrf) as [it [Hit (e & d & -> & Ea & Ek & Et & _)]].
      exists it. cbn. auto. }
    assert (TL : tree_listing es).
    { split; [|split; [|split; [|split; [|split]]]].
      - intros e He. destruct (EI e He) as (it & Hit & -> & _). apply V. exact Hit.
      - rewrite EA. exact N.
      - intros e He. destruct (EI e He) as (it & Hit & _ & -> & _). apply KU. exact Hit.
      - intros e He. destruct (EI e He) as (it & Hit & _ & -> & -> ). apply TG. exact Hit.
      - intros e He. destruct (EI e He) as (it & Hit & -> & -> & _). apply RT. exact Hit.
      - apply shape_pf_entries. rewrite ES. exact PF. }
    destruct (restore_into (content_from rfs) false [] es) as [s|] eqn:ER;
      [|unfold restore_into in ER; discriminate].
    exists s. split; [reflexivity|].
    destruct (fresh_restore_builds_the_tree (content_from rfs) es s TL ER) as [H1 [H2 [H3 H4]]].
    split; [exact H1|]. split; [exact H2|]. split; [rewrite H3; exact EA|].
    intros p Hp. rewrite (H4 p Hp). unfold es. rewrite find_map. unfold src_at.
    pose proof (find_Forall2 restored_as
                  (fun it => rpath_eqb (comps (s_apath (si_e it))) p)
                  (fun rf => rpath_eqb (comps (e_apath (rf_entry rf))) p) ks rfs F2) as FF.
    cbv beta in FF.
    destruct (find (fun it => rpath_eqb (comps (s_apath (si_e it))) p) ks) as [it|] eqn:Fk;
    destruct (find (fun rf => rpath_eqb (comps (e_apath (rf_entry rf))) p) rfs) as [rf|] eqn:Fr;
      try (exfalso; apply FF; intros x y (e & d & -> & Ea & _); cbn; unfold spath in Ea; rewrite Ea; reflexivity);
      [|reflexivity].
    assert (R : restored_as it rf).
    { apply FF. intros x y (e & d & -> & Ea & _). cbn. unfold spath in Ea. rewrite Ea. reflexivity. }
    destruct R as (e & d & -> & Ea & Ek & Et & Hd).
    apply find_some in Fk. destruct Fk as [Hit _]. apply find_some in Fr. destruct Fr as [Hrf _].
    cbn [option_map rf_entry]. eexists. split; [reflexivity|].
    unfold node_of, node_as. rewrite Ek, Et.
    destruct (s_kind (si_e it)) eqn:K.
    - exists d. split; [|apply Hd; reflexivity]. f_equal. apply content_from_spec; [|exact Hrf].
      replace (map (fun rf => e_apath (rf_entry rf)) rfs) with (map e_apath es); [rewrite EA; exact N|].
      unfold es. apply map_map.
    - reflexivity.
    - destruct (s_target (si_e it)) as [t|] eqn:T; [exists t; auto|]. exfalso. exact (TG it Hit K T).
    - exact (KU it Hit K).
  Qed.
End Core.

(* ------------------------------------------------------------------------- *)
(** * 4. The source side                                                       *)
(* ------------------------------------------------------------------------- *)
Lemma meta_of_fields c it e :
  meta_of c it e ->
  e_apath e = spath it /\ e_kind e = s_kind (si_e it) /\ e_target e = s_target (si_e it).
Proof.
  unfold meta_of, with_addrs, meta_from, spath. intros H.
  destruct (enc_time_floor (s_mtime (si_e it))) as [sec nanos].
  rewrite H. cbn. auto.
Qed.

Lemma src_shape_known src :
  src_shape (known_items src) = filter (fun b => known_kind (snd b)) (src_shape src).
Proof.
  unfold known_items, src_shape. induction src as [|it src IH]; cbn; [reflexivity|].
  destruct (known_kind (s_kind (si_e it))); cbn; rewrite IH; reflexivity.
Qed.

(* what the hypotheses on the source give for the items a backup records *)
Lemma known_items_facts src :
  SrcSorted src -> SrcValid src -> SrcWF src -> SrcTree src ->
  (forall it, In it (known_items src) -> is_valid (spath it) = true) /\
  NoDup (map spath (known_items src)) /\
  (forall it, In it (known_items src) -> s_kind (si_e it) <> KUnknown) /\
  (forall it, In it (known_items src) -> s_kind (si_e it) = KSymlink -> s_target (si_e it) <> None) /\
  (forall it, In it (known_items src) -> comps (spath it) = [] -> s_kind (si_e it) = KDir) /\
  shape_parents_first (src_shape (known_items src)).
Proof.
  intros Hs Hv Hw [TG [RT PF]].
  assert (Sub : forall it, In it (known_items src) -> In it src).
  { intros it H. apply filter_In in H. tauto. }
  split; [|split; [|split; [|split; [|split]]]].
  - intros it H. unfold SrcValid in Hv. rewrite Forall_forall in Hv. apply Hv, Sub, H.
  - apply NoDup_map_filter. exact (proj2 (SrcSorted_SrcOK src Hs Hw)).
  - intros it H K. apply filter_In in H. destruct H as [_ H]. rewrite K in H. discriminate.
  - intros it H. apply TG, Sub, H.
  - intros it H. apply RT, Sub, H.
  - rewrite src_shape_known. apply shape_pf_filter; [reflexivity|exact PF].
Qed.

(* ------------------------------------------------------------------------- *)
(** * 5. The theorems                                                          *)
(* ------------------------------------------------------------------------- *)

(* the destination holds exactly the recorded source items: *)
Definition holds_exactly (src : list sitem) (s : dstate) : Prop :=
  forall p, p <> [] ->
    node_at (d_fs s) p =
    match src_at (known_items src) p with
    | Some it => Some (src_node it)
    | None => None
    end.

Theorem backup_then_full_restore_builds_the_source_tree : forall pre c src a0,
  Ready pre a0 -> SrcSorted src -> SrcValid src -> SrcWF src -> cfg_ok c -> SrcTree src ->
  (forall it be, In it src -> s_kind (si_e it) = KFile -> ~ basis_match a0 it be) ->
  exists tr a1 r,
    run pre (backup_prog pre c src) a0 [] = (tr, a1, Done r)
    /\ b_ok r = true /\ b_errors r = 0 /\ b_band r = Some (new_band a0)
    /\ exists rr s,
         full_restore pre (Specified (new_band a0)) false a1 [] = FRestored rr s
         /\ r_merr rr = 0
         /\ d_esc s = 0 /\ d_errs s = 0
         /\ d_done s = map spath (known_items src)
         /\ forall p, p <> [] ->
              node_at (d_fs s) p =
              match src_at (known_items src) p with
              | Some it => Some (src_node it)
              | None => None
              end.
Proof.
  intros pre c src a0 HR Hs Hv Hw Hc HT Hno.
  destruct (backup_then_restore_exact_fresh pre c src a0 HR Hs Hv Hw Hc Hno)
    as (tr & a1 & r & E & Rok & Rerr & Rband & tr' & rr & E' & R1 & R2 & R3).
  exists tr, a1, r. repeat (split; [assumption|]).
  destruct (known_items_facts src Hs Hv Hw HT) as (V & N & KU & TG & RT & PF).
  assert (F2 : Forall2 (restored_as (fun it d => d = si_data it)) (known_items src) (r_files rr)).
  { eapply Forall2_impl_In; [exact R3|]. intros it rf _ (e & -> & Hm).
    destruct (meta_of_fields c it e Hm) as (Ea & Ek & Et).
    exists e, (match s_kind (si_e it) with KFile => si_data it | _ => [] end).
    repeat (split; [assumption || reflexivity|]). intros K. rewrite K. reflexivity. }
  destruct (core _ _ _ F2 V N KU TG RT PF) as (s & ER & S1 & S2 & S3 & S4).
  exists rr, s. split; [|split; [exact R2|split; [exact S1|split; [exact S2|split; [exact S3|]]]]].
  - unfold full_restore. rewrite E', R1, ER. reflexivity.
  - intros p Hp. specialize (S4 p Hp).
    destruct (src_at (known_items src) p) as [it|]; [|exact S4].
    destruct S4 as (n & -> & Hn). f_equal. unfold node_as, src_node in *.
    destruct (s_kind (si_e it)).
    + destruct Hn as (d & -> & ->). reflexivity.
    + exact Hn.
    + destruct Hn as (t & -> & ->). reflexivity.
    + contradiction.
Qed.

(* with reuse: a file whose kind, mtime and size equal the previous version's entry holds
   what that entry restored to before; everything else as above *)
Definition source_or_basis (a0 : arch) (it : sitem) (d : bytes) : Prop :=
  d = si_data it \/ exists be, basis_match a0 it be /\ Truth.content_of a0 be = Some d.

Theorem backup_then_full_restore_builds_the_source_tree_with_reuse : forall pre c src a0,
  Ready pre a0 -> SrcSorted src -> SrcValid src -> SrcWF src -> cfg_ok c -> SrcTree src ->
  exists tr a1 r,
    run pre (backup_prog pre c src) a0 [] = (tr, a1, Done r)
    /\ b_ok r = true /\ b_errors r = 0 /\ b_band r = Some (new_band a0)
    /\ exists rr s,
         full_restore pre (Specified (new_band a0)) false a1 [] = FRestored rr s
         /\ r_merr rr = 0
         /\ d_esc s = 0 /\ d_errs s = 0
         /\ d_done s = map spath (known_items src)
         /\ forall p, p <> [] ->
              match src_at (known_items src) p with
              | Some it =>
                  match s_kind (si_e it) with
                  | KFile => exists d, node_at (d_fs s) p = Some (NFile d) /\ source_or_basis a0 it d
                  | _ => node_at (d_fs s) p = Some (src_node it)
                  end
              | None => node_at (d_fs s) p = None
              end.
Proof.
  intros pre c src a0 HR Hs Hv Hw Hc HT.
  destruct (backup_then_restore_exact pre c src a0 HR Hs Hv Hw Hc)
    as (tr & a1 & r & E & Rok & Rerr & Rband & tr' & rr & E' & R1 & R2 & R3).
  exists tr, a1, r. repeat (split; [assumption|]).
  destruct (known_items_facts src Hs Hv Hw HT) as (V & N & KU & TG & RT & PF).
  assert (F2 : Forall2 (restored_as (source_or_basis a0)) (known_items src) (r_files rr)).
  { eapply Forall2_impl_In; [exact R3|]. intros it rf _ (e & d & -> & Hm & Hd).
    destruct (meta_of_fields c it e Hm) as (Ea & Ek & Et).
    exists e, d. repeat (split; [assumption || reflexivity|]). intros K. rewrite K in Hd.
    destruct Hd as [->|(be & B1 & _ & B3)]; [left; reflexivity|right; exists be; auto]. }
  destruct (core _ _ _ F2 V N KU TG RT PF) as (s & ER & S1 & S2 & S3 & S4).
  exists rr, s. split; [|split; [exact R2|split; [exact S1|split; [exact S2|split; [exact S3|]]]]].
  - unfold full_restore. rewrite E', R1, ER. reflexivity.
  - intros p Hp. specialize (S4 p Hp).
    destruct (src_at (known_items src) p) as [it|]; [|exact S4].
    destruct S4 as (n & En & Hn). unfold node_as, src_node in *.
    destruct (s_kind (si_e it)).
    + destruct Hn as (d & -> & Hd). exists d. auto.
    + rewrite En, Hn. reflexivity.
    + destruct Hn as (t & -> & ->). exact En.
    + contradiction.
Qed.

(* the first backup into an archive without bands: nothing to reuse *)
Corollary first_backup_then_full_restore_builds_the_source_tree : forall pre c src a0,
  Ready pre a0 -> SrcSorted src -> SrcValid src -> SrcWF src -> cfg_ok c -> SrcTree src ->
  (forall b, has_dir a0 (DBand b) = false) ->
  exists tr a1 r,
    run pre (backup_prog pre c src) a0 [] = (tr, a1, Done r)
    /\ b_ok r = true /\ b_errors r = 0 /\ b_band r = Some (new_band a0)
    /\ exists rr s,
         full_restore pre (Specified (new_band a0)) false a1 [] = FRestored rr s
         /\ r_merr rr = 0 /\ d_esc s = 0 /\ d_errs s = 0
         /\ d_done s = map spath (known_items src) /\ holds_exactly src s.
Proof.
  intros pre c src a0 HR Hs Hv Hw Hc HT Hnb.
  apply backup_then_full_restore_builds_the_source_tree; auto.
  intros it be _ _ ((b' & h' & es' & _ & G & _) & _).
  pose proof HR as ((_ & _ & _ & [HF HD]) & _).
  pose proof (HF _ _ G) as H1. cbn [parent_f] in H1.
  pose proof (HD _ _ (proj1 (has_dir_In _ _) H1) eq_refl) as H2.
  pose proof (HD _ _ (proj1 (has_dir_In _ _) H2) eq_refl) as H3.
  rewrite Hnb in H3. discriminate.
Qed.

(* ------------------------------------------------------------------------- *)
(** * 6. A walk of a tree yields a tree-shaped listing                         *)
(* ------------------------------------------------------------------------- *)
Lemma app_split {A} (l1 : list A) x l2 : forall L1 L2,
  l1 ++ x :: l2 = L1 ++ L2 ->
  (exists m, L1 = l1 ++ x :: m /\ l2 = m ++ L2) \/ (exists m, l1 = L1 ++ m /\ L2 = m ++ x :: l2).
Proof.
  induction l1 as [|a l1 IH]; intros L1 L2 E.
  - destruct L1 as [|b L1]; cbn in E.
    + right. exists []. split; [reflexivity|]. cbn. symmetry. exact E.
    + inversion E; subst. left. exists L1. auto.
  - destruct L1 as [|b L1]; cbn in E.
    + right. exists (a :: l1). split; [reflexivity|]. symmetry. exact E.
    + inversion E; subst. destruct (IH _ _ H1) as [[m [-> ->]]|[m [-> ->]]].
      * left. exists m. auto.
      * right. exists m. auto.
Qed.

Lemma flat_map_split {A B} (f : A -> list B) l : forall m x l2,
  flat_map f l = m ++ x :: l2 ->
  exists B1 c B2 m1 m2, l = B1 ++ c :: B2 /\ f c = m1 ++ x :: m2 /\ m = flat_map f B1 ++ m1.
Proof.
  induction l as [|a l IH]; intros m x l2 E; cbn [flat_map] in E.
  - destruct m; discriminate.
  - symmetry in E. destruct (app_split _ _ _ _ _ E) as [[m' [Ea _]]|[m' [-> E2]]].
    + exists [], a, l, m, m'. cbn. auto.
    + destruct (IH _ _ _ E2) as (B1 & c & B2 & m1 & m2 & -> & Ec & ->).
      exists (a :: B1), c, B2, m1, m2. cbn [flat_map app]. rewrite app_assoc. auto.
Qed.

Lemma prefix_of_snoc {A} (q l : list A) c rest n : q ++ c :: rest = l ++ [n] -> exists r, l = q ++ r.
Proof.
  intros E. destruct (@exists_last _ (c :: rest) ltac:(discriminate)) as [m [z Em]].
  rewrite Em, app_assoc in E. apply app_inj_tail in E. destruct E as [E _]. exists m. symmetry. exact E.
Qed.

Lemma prefix_of_snoc_cases {A} (q l : list A) n r : l ++ [n] = q ++ r -> r = [] \/ exists r', l = q ++ r'.
Proof.
  intros E. destruct r as [|c rest]; [left; reflexivity|right].
  symmetry in E. exact (prefix_of_snoc q l c rest n E).
Qed.

Section WalkShape.
  Context {M : Type}.

  (* below p: every item's directories beyond p occur before it, as directories *)
  Definition Below (p : str) (L : list (item M)) : Prop :=
    forall l1 x l2 q, L = l1 ++ x :: l2 -> ppre q (comps (path x)) ->
      ~ (exists r, comps p = q ++ r) ->
      exists d, In d l1 /\ ikind d = KDir /\ comps (path d) = q.

  Lemma contents_below excl (t : tree M) : forall p,
    WFtree t -> is_valid p = true -> Below p (contents excl p t).
  Proof.
    induction t as [k m|m chs IH] using tree_ind'; intros p Hwf Hp l1 x l2 q E P Nq.
    - rewrite contents_leaf in E. destruct l1; discriminate.
    - rewrite contents_dir in E. apply WF_dir_inv in Hwf. destruct Hwf as [Hok [Hnd Hsub]].
      symmetry in E. destruct (app_split _ _ _ _ _ E) as [[m' [E1 _]]|[m' [-> E2]]].
      + (* x is a child of p: nothing between *)
        exfalso. apply Nq.
        assert (Hx : In x (map (child_item p) (by_name (kept excl p chs)))).
        { rewrite E1. apply in_app_iff. right. left. reflexivity. }
        apply in_map_iff in Hx. destruct Hx as [c [<- Hc]]. apply in_by_name_kept in Hc.
        destruct Hc as [Hc _]. pose proof (child_ok chs c Hok Hc) as Hn.
        unfold child_item, mk_item, path in P. cbn [fst] in P.
        rewrite (comps_append p (fst c) Hp Hn) in P. destruct P as [_ [c0 [rest Er]]].
        symmetry in Er. exact (prefix_of_snoc q (comps p) c0 rest (fst c) Er).
      + (* x lies below the child directory c *)
        destruct (flat_map_split _ _ _ _ _ E2) as (B1 & c & B2 & m1 & m2 & EB & Ec & ->).
        assert (HcB : In c (by_apath p (subdirs (kept excl p chs)))).
        { rewrite EB. apply in_app_iff. right. left. reflexivity. }
        apply in_by_apath_subdirs in HcB. destruct HcB as [Hc [Hex Hdir]].
        pose proof (child_ok chs c Hok Hc) as Hn.
        pose proof (valid_append p (fst c) Hp Hn) as Hv.
        rewrite Forall_forall in IH, Hsub.
        destruct (comp_prefix q (comps (append p (fst c)))) eqn:Q.
        * (* q is the child directory itself *)
          apply comp_prefix_spec in Q. destruct Q as [r Er]. rewrite (comps_append p (fst c) Hp Hn) in Er.
          destruct (prefix_of_snoc_cases q (comps p) (fst c) r Er) as [->|Hpre]; [|exfalso; exact (Nq Hpre)].
          rewrite app_nil_r in Er.
          exists (child_item p c). split; [|split].
          -- apply in_app_iff. left. apply in_map. apply in_by_name_kept. auto.
          -- unfold child_item, mk_item, ikind. cbn. destruct (snd c); [discriminate|reflexivity].
          -- unfold child_item, mk_item, path. cbn [fst]. rewrite (comps_append p (fst c) Hp Hn). exact Er.
        * destruct (IH c Hc (append p (fst c)) (Hsub c Hc) Hv m1 x m2 q Ec P) as [d [Hd Pd]].
          { intros [r Er]. assert (comp_prefix q (comps (append p (fst c))) = true); [|congruence].
            apply comp_prefix_spec. exists r. exact Er. }
          exists d. split; [|exact Pd]. apply in_app_iff. right. apply in_app_iff. right. exact Hd.
  Qed.

  Lemma contents_not_root excl (t : tree M) p x :
    WFtree t -> is_valid p = true -> In x (contents excl p t) -> comps (path x) <> [].
  Proof.
    intros Hwf Hp Hx.
    destruct (@contents_paths M (fun q => is_valid q = true) excl) with (t := t) (p := p) (x := x)
      as [q [n [E [Hq Hn]]]]; auto.
    - intros q n Hq Hn. apply valid_append; assumption.
    - rewrite E, (comps_append q n Hq Hn). apply snoc_ne.
  Qed.

  Theorem walk_is_tree_shaped : forall excl (t : tree M),
    WFtree t -> shape_parents_first (walk_shape (walk_rec excl t)).
  Proof.
    intros excl t Hwf l1 a k l2 q E P. unfold walk_shape in E.
    destruct (map_split _ _ _ _ _ E) as (L1 & x & L2 & EL & <- & Ex & _). inversion Ex; subst a k.
    unfold walk_rec in EL. destruct L1 as [|r L1]; cbn [app] in EL; inversion EL; subst.
    - exfalso. unfold mk_item, path in P. cbn [fst] in P. rewrite comps_root in P.
      exact (ppre_nonempty _ _ P eq_refl).
    - destruct (contents_below excl t [SLASH] Hwf eq_refl L1 x L2 q H1 P) as [d [Hd [Kd Cd]]].
      { intros [r Er]. rewrite comps_root in Er. destruct P as [Hq _]. destruct q; [congruence|discriminate]. }
      exists (path d). split; [|exact Cd]. right. apply in_map_iff. exists d. rewrite Kd. auto.
  Qed.

  (* a source listing with the paths and kinds of a walk of a tree whose root is a
     directory is tree-shaped *)
  Theorem walk_src_tree : forall excl (t : tree M) l src,
    WFtree t -> Tree.is_dir t = true -> walk_q excl t = Some l ->
    src_shape src = walk_shape l ->
    (forall it, In it src -> s_kind (si_e it) = KSymlink -> s_target (si_e it) <> None) ->
    SrcTree src.
  Proof.
    intros excl t l src Hwf Hd Hq Esh TG. rewrite walk_q_eq_rec in Hq. inversion Hq; subst l.
    split; [exact TG|]. split; [|rewrite Esh; apply walk_is_tree_shaped; exact Hwf].
    intros it Hit C.
    assert (Hs : In (s_apath (si_e it), s_kind (si_e it)) (src_shape src)).
    { unfold src_shape. apply in_map_iff. exists it. auto. }
    rewrite Esh in Hs. unfold walk_shape in Hs. apply in_map_iff in Hs. destruct Hs as [x [Ex Hx]].
    inversion Ex as [[Ep Ek]]. destruct Hx as [<-|Hx].
    - unfold mk_item, ikind. cbn. destruct t; [discriminate|reflexivity].
    - exfalso. apply (contents_not_root excl t [SLASH] x Hwf eq_refl Hx). rewrite Ep. exact C.
  Qed.
End WalkShape.

(* ------------------------------------------------------------------------- *)
(** * 7. Instances, and the hypothesis [SrcTree] is needed                     *)
(* ------------------------------------------------------------------------- *)
Module FullExamples.
  Import SafeExamples E2EExamples.

  (* the source of E2EP's example: / (dir), /a /b (files), /c -> a, /d (neither file,
     directory nor symlink: not recorded), /e (file), /f (dir), /f/x (file of two blocks);
     the archive [ex_a1] is the one just created (no band), [ex_a3] holds two versions *)
  Example ex_hyps :
    ready_b ex_pre ex_a1 = true /\ srcsorted_b (e5_src other_b) = true
    /\ srcvalid_b (e5_src other_b) = true /\ srcwf_b (e5_src other_b) = true
    /\ src_treeb (e5_src other_b) = true.
  Proof. vm_compute. repeat split; reflexivity. Qed.

  Example ex_src_tree : SrcTree (e5_src other_b).
  Proof. apply src_treeb_sound. vm_compute. reflexivity. Qed.

  (* computed: the destination after backup into the new archive and restore of band 0 *)
  Example ex_computed :
    match full_restore ex_pre (Specified 0) false (final (backup_prog ex_pre e5_cfg (e5_src other_b)) ex_a1 []) [] with
    | FRestored rr s =>
        r_merr rr = 0 /\ d_esc s = 0 /\ d_errs s = 0
        /\ d_done s = [[47]; [47; 97]; [47; 98]; [47; 99]; [47; 101]; [47; 102]; [47; 102; 47; 120]]
        /\ d_fs s = [ ([[102]; [120]], NFile [6; 5; 4; 3; 2; 1]);
                      ([[102]], NDir);
                      ([[101]], NFile [3]);
                      ([[99]], NLink [97]);
                      ([[98]], NFile [9; 9; 9; 9; 9; 9]);
                      ([[97]], NFile [1; 2]) ]
    | _ => False
    end
    /\ full_check ex_pre e5_cfg (e5_src other_b) ex_a1 = true
    (* on top of two versions, /b (same mtime and size as in band 1) comes back as it was *)
    /\ full_check ex_pre e5_cfg (e5_src other_b) ex_a3 = false
    /\ full_check ex_pre e5_cfg (e5_src same_b) ex_a3 = true
    /\ match full_restore ex_pre (Specified 2) false (final (backup_prog ex_pre e5_cfg (e5_src other_b)) ex_a3 []) [] with
       | FRestored rr s => node_at (d_fs s) [[98]] = Some (NFile same_b)
       | _ => False
       end.
  Proof. vm_compute. repeat split; reflexivity. Qed.

  (* the same as an instance of the theorem *)
  Example ex_thm :
    exists tr a1 r,
      run ex_pre (backup_prog ex_pre e5_cfg (e5_src other_b)) ex_a1 [] = (tr, a1, Done r)
      /\ b_ok r = true /\ b_errors r = 0 /\ b_band r = Some (new_band ex_a1)
      /\ exists rr s,
           full_restore ex_pre (Specified (new_band ex_a1)) false a1 [] = FRestored rr s
           /\ r_merr rr = 0 /\ d_esc s = 0 /\ d_errs s = 0
           /\ d_done s = map spath (known_items (e5_src other_b)) /\ holds_exactly (e5_src other_b) s.
  Proof.
    destruct (e5_src_ok other_b eq_refl) as (H1 & H2 & H3).
    apply (first_backup_then_full_restore_builds_the_source_tree ex_pre e5_cfg (e5_src other_b) ex_a1
             ex_ready_a1 H1 H2 H3 e5_cfg_ok ex_src_tree).
    intros b. vm_compute. reflexivity.
  Qed.

  (* a listing that is not tree-shaped: the file /a/b without its directory /a *)
  Definition holey_src : list sitem :=
    [ {| si_e := mk_s [47] KDir 0 1000000000; si_data := [] |};
      {| si_e := mk_s [47; 97; 47; 98] KFile 1 1000000000; si_data := [5] |} ].
End FullExamples.

(* without [SrcTree] the destination holds a directory the source listing does not have *)
Theorem without_src_tree_refuted :
  exists pre c src a0,
    Ready pre a0 /\ SrcSorted src /\ SrcValid src /\ SrcWF src /\ cfg_ok c
    /\ (forall b, has_dir a0 (DBand b) = false)
    /\ forall tr a1 r rr s,
         run pre (backup_prog pre c src) a0 [] = (tr, a1, Done r) ->
         full_restore pre (Specified (new_band a0)) false a1 [] = FRestored rr s ->
         ~ holds_exactly src s.
Proof.
  exists SafeExamples.ex_pre, E2EExamples.e5_cfg, FullExamples.holey_src, SafeExamples.ex_a1.
  split; [exact E2EExamples.ex_ready_a1|].
  split; [apply srcsorted_b_sound; vm_compute; reflexivity|].
  split; [apply srcvalid_b_sound; vm_compute; reflexivity|].
  split; [apply srcwf_b_sound; vm_compute; reflexivity|].
  split; [exact E2EExamples.e5_cfg_ok|].
  split; [intros b; vm_compute; reflexivity|].
  intros tr a1 r rr s E1 E2 H.
  assert (Ea : a1 = snd (fst (run SafeExamples.ex_pre
                 (backup_prog SafeExamples.ex_pre E2EExamples.e5_cfg FullExamples.holey_src)
                 SafeExamples.ex_a1 []))) by (rewrite E1; reflexivity).
  subst a1.
  assert (Es : Some (d_fs s) = match full_restore SafeExamples.ex_pre (Specified (new_band SafeExamples.ex_a1)) false
                 (snd (fst (run SafeExamples.ex_pre
                   (backup_prog SafeExamples.ex_pre E2EExamples.e5_cfg FullExamples.holey_src)
                   SafeExamples.ex_a1 []))) [] with FRestored _ s' => Some (d_fs s') | _ => None end)
    by (rewrite E2; reflexivity).
  specialize (H [[97]] ltac:(discriminate)). remember (d_fs s) as g eqn:Eg.
  vm_compute in Es. inversion Es as [Ef]. rewrite Ef in H. vm_compute in H. discriminate.
Qed.

Print Assumptions src_treeb_sound.
Print Assumptions walk_is_tree_shaped.
Print Assumptions walk_src_tree.
Print Assumptions backup_then_full_restore_builds_the_source_tree.
Print Assumptions backup_then_full_restore_builds_the_source_tree_with_reuse.
Print Assumptions first_backup_then_full_restore_builds_the_source_tree.
Print Assumptions without_src_tree_refuted.
Print Assumptions FullExamples.ex_computed.
Print Assumptions FullExamples.ex_thm.
