(* The backup operation as a program over storage: every transport operation of
   `backup()` (src/backup.rs), `Band::create/close`, `IndexWriter`, `FileCombiner`,
   `BlockDir::open/store_or_deduplicate` and the lazily stitched basis, in the order the
   Rust code issues them.  Model file: definitions only. *)
From CV Require Import Base.Str Apath Entry Store Stitch StitchProg Codec Tree.
Local Open Scope N_scope.

Record cfg := {
  c_meph : N;          (* max_entries_per_hunk *)
  c_mbs : N;           (* max_block_size *)
  c_sfc : N;           (* small_file_cap *)
  c_owner : bool       (* record owners *)
}.

(* one source entry as the walk yields it, with the bytes a read of the file returns *)
Record sitem := { si_e : sentry; si_data : bytes }.

(* IndexEntry::metadata_from (after "fix: pre-epoch mtimes") *)
Definition meta_from (owner : bool) (s : sentry) : entry :=
  let '(sec, nanos) := enc_time_floor (s_mtime s) in
  {| e_apath := s_apath s; e_kind := s_kind s; e_mtime := sec; e_nanos := nanos;
     e_mode := s_mode s;
     e_user := if owner then s_user s else None;
     e_group := if owner then s_group s else None;
     e_addrs := []; e_target := s_target s |}.

Definition with_addrs (e : entry) (l : list addr) : entry :=
  {| e_apath := e_apath e; e_kind := e_kind e; e_mtime := e_mtime e; e_nanos := e_nanos e;
     e_mode := e_mode e; e_user := e_user e; e_group := e_group e; e_addrs := l; e_target := e_target e |}.

Definition mem_bytes (c : bytes) (l : list bytes) : bool := existsb (str_eqb c) l.

(* backup's mutable state *)
Record wst := {
  w_band : N;
  w_entries : list entry;             (* IndexWriter.entries *)
  w_seq : N;                          (* IndexWriter.sequence *)
  w_hunks : N;                        (* IndexWriter.hunks_written *)
  w_buf : bytes;                      (* FileCombiner.buf *)
  w_queue : list (N * N * entry);     (* FileCombiner.queue: start, len, entry *)
  w_fin : list entry;                 (* FileCombiner.finished *)
  w_exists : list bytes;              (* BlockDir.exists *)
  w_errors : N;                       (* stats.errors *)
  w_merr : N;                         (* errors sent to the monitor *)
  w_written : N;                      (* stats.written_blocks *)
  w_deleted : N                       (* basis entries absent from the source *)
}.

Definition upd_blocks (w : wst) (ex : list bytes) (wr : N) : wst :=
  {| w_band := w_band w; w_entries := w_entries w; w_seq := w_seq w; w_hunks := w_hunks w;
     w_buf := w_buf w; w_queue := w_queue w; w_fin := w_fin w; w_exists := ex;
     w_errors := w_errors w; w_merr := w_merr w; w_written := wr; w_deleted := w_deleted w |}.
Definition upd_comb (w : wst) (buf : bytes) (q : list (N * N * entry)) (fin : list entry) : wst :=
  {| w_band := w_band w; w_entries := w_entries w; w_seq := w_seq w; w_hunks := w_hunks w;
     w_buf := buf; w_queue := q; w_fin := fin; w_exists := w_exists w;
     w_errors := w_errors w; w_merr := w_merr w; w_written := w_written w; w_deleted := w_deleted w |}.
Definition upd_index (w : wst) (es : list entry) (seq hunks : N) : wst :=
  {| w_band := w_band w; w_entries := es; w_seq := seq; w_hunks := hunks;
     w_buf := w_buf w; w_queue := w_queue w; w_fin := w_fin w; w_exists := w_exists w;
     w_errors := w_errors w; w_merr := w_merr w; w_written := w_written w; w_deleted := w_deleted w |}.
Definition upd_counts (w : wst) (errors merr deleted : N) : wst :=
  {| w_band := w_band w; w_entries := w_entries w; w_seq := w_seq w; w_hunks := w_hunks w;
     w_buf := w_buf w; w_queue := w_queue w; w_fin := w_fin w; w_exists := w_exists w;
     w_errors := errors; w_merr := merr; w_written := w_written w; w_deleted := deleted |}.

Definition push_entry (w : wst) (e : entry) : wst := upd_index w (w_entries w ++ [e]) (w_seq w) (w_hunks w).

Definition is_ok (r : reply) : bool := match r with ROk => true | _ => false end.

Section Backup.
  Variable pre : bytes -> N.
  Notation prog := (Store.prog).

  (* BlockDir::store_or_deduplicate *)
  Definition store_block (w : wst) (c : bytes) : prog (bool * wst) :=
    if mem_bytes c (w_exists w) then Ret (true, w)
    else Do (OpMkdir (DBlockSub (pre c))) (fun r =>
           if is_ok r then
             Do (OpWrite (PBlock c) (PlBlock c) CreateNew) (fun r2 =>
               if is_ok r2 then Ret (true, upd_blocks w (c :: w_exists w) (w_written w + 1))
               else Ret (false, w))
           else Ret (false, w)).

  (* FileCombiner::flush.  The buffer AND the queue are taken before the write (code after
     "fix: FileCombiner::flush ..."), so a failed write drops the queued files together
     with their bytes. *)
  Definition comb_flush (w : wst) : prog (bool * wst) :=
    match w_queue w with
    | [] => Ret (true, w)
    | q =>
        let blk := w_buf w in
        bind (store_block (upd_comb w [] [] (w_fin w)) blk) (fun rw =>
          let '(ok, w') := rw in
          if ok then Ret (true, upd_comb w' [] [] (w_fin w' ++ map (queued_entry blk) q))
          else Ret (false, w'))
    end.

  (* FileCombiner::push_file for a non-empty read *)
  Definition comb_push (c : cfg) (w : wst) (e : entry) (data : bytes) : prog (bool * wst) :=
    match data with
    | [] => Ret (true, upd_comb w (w_buf w) (w_queue w) (w_fin w ++ [e]))
    | _ =>
        let start := N.of_nat (length (w_buf w)) in
        let w1 := upd_comb w (w_buf w ++ data) (w_queue w ++ [(start, N.of_nat (length data), e)]) (w_fin w) in
        if c_mbs c <=? N.of_nat (length (w_buf w1)) then comb_flush w1 else Ret (true, w1)
    end.

  (* IndexWriter::finish_hunk *)
  Definition finish_hunk (w : wst) : prog (bool * wst) :=
    match w_entries w with
    | [] => Ret (true, w)
    | es =>
        let sorted := sort_entries es in
        let write :=
          Do (OpWrite (PHunk (w_band w) (w_seq w)) (PlHunk sorted) CreateNew) (fun r =>
            if is_ok r then Ret (true, upd_index w [] (w_seq w + 1) (w_hunks w + 1)) else Ret (false, w)) in
        if N.eqb (w_seq w mod HUNKS_PER_SUBDIR) 0 then
          Do (OpMkdir (DHunkSub (w_band w) (w_seq w / HUNKS_PER_SUBDIR))) (fun r =>
            if is_ok r then write else Ret (false, w))
        else write
    end.

  (* BackupWriter::flush_group: drain the combiner, then finish the hunk *)
  Definition flush_group (w : wst) : prog (bool * wst) :=
    bind (comb_flush w) (fun rw =>
      let '(ok, w1) := rw in
      if ok then
        finish_hunk (upd_comb (upd_index w1 (w_entries w1 ++ w_fin w1) (w_seq w1) (w_hunks w1))
                              (w_buf w1) (w_queue w1) [])
      else Ret (false, w1)).

  (* store_file_content: one block per chunk; the first failure aborts the file *)
  Fixpoint store_chunks (w : wst) (cs : list bytes) (acc : list addr) : prog (option (list addr) * wst) :=
    match cs with
    | [] => Ret (Some acc, w)
    | c :: cs' =>
        bind (store_block w c) (fun rw =>
          let '(ok, w') := rw in
          if ok then store_chunks w' cs' (acc ++ [chunk_addr c]) else Ret (None, w'))
    end.

  Definition block_size_nat (c : cfg) (data : bytes) : nat :=
    N.to_nat (N.min (c_mbs c) (N.of_nat (length data) + 1)).

  (* content_heuristically_unchanged + all basis blocks present *)
  Definition unchanged (w : wst) (s : sentry) (b : entry) : bool :=
    kind_eqb (e_kind b) (s_kind s) && Z.eqb (e_ts b) (s_mtime s) && N.eqb (e_size b) (s_size s).
  Definition blocks_present (w : wst) (b : entry) : bool :=
    forallb (fun a => mem_bytes (a_hash a) (w_exists w)) (e_addrs b).

  (* BackupWriter::copy_entry; false = Err (reported to the monitor by the caller) *)
  Definition copy_entry (c : cfg) (w : wst) (basis : option entry) (it : sitem) : prog (bool * wst) :=
    let s := si_e it in
    let e := meta_from (c_owner c) s in
    match s_kind s with
    | KDir | KSymlink => Ret (true, push_entry w e)
    | KUnknown => Ret (true, w)
    | KFile =>
        let reuse :=
          match basis with
          | Some b => if unchanged w s b && blocks_present w b then Some (e_addrs b) else None
          | None => None
          end in
        match reuse with
        | Some addrs => Ret (true, push_entry w (with_addrs e addrs))
        | None =>
            if N.eqb (s_size s) 0 then Ret (true, push_entry w e)
            else if s_size s <=? c_sfc c then comb_push c w e (si_data it)
            else bind (store_chunks w (chunks (block_size_nat c (si_data it)) (si_data it)) []) (fun rw =>
                   let '(o, w') := rw in
                   match o with
                   | Some addrs => Ret (true, push_entry w' (with_addrs e addrs))
                   | None => Ret (false, w')
                   end)
        end
    end.

  Definition keep_all (e : entry) : bool := true.

  Record bres := { b_ok : bool; b_errors : N; b_merr : N; b_written : N; b_deleted : N; b_band : option N }.
  Definition fail (w : wst) : bres :=
    {| b_ok := false; b_errors := w_errors w; b_merr := w_merr w; b_written := w_written w;
       b_deleted := w_deleted w; b_band := Some (w_band w) |}.
  Definition fail0 : bres :=
    {| b_ok := false; b_errors := 0; b_merr := 0; b_written := 0; b_deleted := 0; b_band := None |}.

  (* the merge loop of backup(): for each source entry, advance the basis to the first
     entry not before it (basis-only entries are deletions), copy, maybe flush *)
  Fixpoint merge_loop (c : cfg) (src : list sitem) (peek : option entry) (st : sstate) (last : option str)
           (w : wst) : prog bres :=
    match src with
    | [] =>
        (* drain the basis: everything left is a deletion *)
        let drain :=
          bind (snext keep_all (fun _ => true) st last (w_merr w)) (fun r =>
            let '(skipped, _, _, _, merr) := r in
            let w1 := upd_counts w (w_errors w) merr
                        (w_deleted w + N.of_nat (length skipped) + match peek with Some _ => 1 | None => 0 end) in
            (* BackupWriter::finish *)
            bind (flush_group w1) (fun rw =>
              let '(ok, w2) := rw in
              if ok then
                Do (OpWrite (PTail (w_band w2)) (PlTail (Some (w_hunks w2))) CreateNew) (fun r =>
                  if is_ok r then
                    Ret {| b_ok := true; b_errors := w_errors w2; b_merr := w_merr w2; b_written := w_written w2;
                           b_deleted := w_deleted w2; b_band := Some (w_band w2) |}
                  else Ret (fail w2))
              else Ret (fail w2))) in
        drain
    | it :: src' =>
        let p := s_apath (si_e it) in
        let before (e : entry) := match apath_cmp (e_apath e) p with Lt => true | _ => false end in
        (* load / advance next_a *)
        let k (skipped : list entry) (na : option entry) (st' : sstate) (last' : option str) (merr : N) :=
          let w0 := upd_counts w (w_errors w) merr (w_deleted w + N.of_nat (length skipped)) in
          let '(basis, na') :=
            match na with
            | Some e => match apath_cmp (e_apath e) p with Eq => (Some e, None) | _ => (None, na) end
            | None => (None, None)
            end in
          bind (copy_entry c w0 basis it) (fun rw =>
            let '(ok, w1) := rw in
            let w2 := if ok then w1 else upd_counts w1 (w_errors w1 + 1) (w_merr w1 + 1) (w_deleted w1) in
            if ok && (c_meph c <=? N.of_nat (length (w_entries w2)) + N.of_nat (length (w_queue w2))) then
              bind (flush_group w2) (fun rw2 =>
                let '(ok2, w3) := rw2 in
                if ok2 then merge_loop c src' na' st' last' w3 else Ret (fail w3))
            else merge_loop c src' na' st' last' w2) in
        match peek with
        | Some e =>
            if before e then
              bind (snext keep_all before st last (w_merr w)) (fun r =>
                let '(skipped, na, st', last', merr) := r in k (e :: skipped) na st' last' merr)
            else k [] peek st last (w_merr w)
        | None =>
            bind (snext keep_all before st last (w_merr w)) (fun r =>
              let '(skipped, na, st', last', merr) := r in k skipped na st' last' merr)
        end
    end.

  Definition band_ids (ds : list dpath) : list N :=
    flat_map (fun d => match d with DBand b => [b] | _ => [] end) ds.
  Definition max_id (l : list N) : option N :=
    match l with [] => None | x :: l' => Some (fold_left N.max l' x) end.

  Definition block_subdirs (ds : list dpath) : list N :=
    isort_by N.compare (fun x => x) (flat_map (fun d => match d with DBlockSub s => [s] | _ => [] end) ds).

  (* blockdir::list_blocks: every sub-directory of d/ is listed by its own task (all are
     issued before any result is looked at; the harness releases them in name order), then
     the first failure, if any, makes the whole listing fail *)
  Fixpoint list_blocks (subs : list N) (acc : list bytes) (failed : bool) (k : option (list bytes) -> prog bres)
    : prog bres :=
    match subs with
    | [] => k (if failed then None else Some acc)
    | s :: subs' =>
        Do (OpList (DBlockSub s)) (fun r =>
          match r with
          | RList _ fs =>
              list_blocks subs'
                (acc ++ flat_map (fun p => match p with (PBlock c, true) => [c] | _ => [] end) fs) failed k
          | _ => list_blocks subs' acc true k
          end)
    end.

  Definition open_archive (k : prog bres) : prog bres :=
    Do (OpRead PHeader) (fun r => match r with RData (Good PlJson) => k | _ => Ret fail0 end).

  Definition backup_prog (c : cfg) (src : list sitem) : prog bres :=
    open_archive (
    (* GarbageCollectionLock::is_locked *)
    Do (OpMeta PLock) (fun r =>
      match r with
      | RErr ENotFound =>
          (* archive.last_band_id(): the basis *)
          Do (OpList DRoot) (fun r1 =>
            match r1 with
            | RList ds1 _ =>
                let basis := max_id (band_ids ds1) in
                (* Band::create *)
                Do (OpList DRoot) (fun r2 =>
                  match r2 with
                  | RList ds2 _ =>
                      let id := match max_id (band_ids ds2) with Some m => m + 1 | None => 0 end in
                      Do (OpMkdir (DBand id)) (fun r3 => if is_ok r3 then
                      Do (OpMkdir (DIndex id)) (fun r4 => if is_ok r4 then
                      Do (OpWrite (PHead id) (PlHead HvOk) CreateNew) (fun r5 => if is_ok r5 then
                      (* the lock again, now that the new band is visible ("fix: a backup could
                         deduplicate against blocks a concurrent gc then deleted") *)
                      Do (OpList DRoot) (fun r5b => match r5b with RList _ fs5 =>
                      if existsb (fun p => fpath_eqb (fst p) PLock) fs5 then Ret fail0 else
                      (* archive.block_dir() *)
                      Do (OpList DBlocks) (fun r6 =>
                        match r6 with
                        | RList ds3 _ =>
                            list_blocks (block_subdirs ds3) [] false (fun o =>
                              match o with
                              | Some ex =>
                                  let w := {| w_band := id; w_entries := []; w_seq := 0; w_hunks := 0;
                                              w_buf := []; w_queue := []; w_fin := []; w_exists := ex;
                                              w_errors := 0; w_merr := 0; w_written := 0; w_deleted := 0 |} in
                                  merge_loop c src None
                                    (match basis with Some b => SBefore (N.to_nat b) | None => SDone end) None w
                              | None => Ret fail0
                              end)
                        | _ => Ret fail0
                        end)
                      | _ => Ret fail0 end)
                      else Ret fail0) else Ret fail0) else Ret fail0)
                  | _ => Ret fail0
                  end)
            | _ => Ret fail0
            end)
      | _ => Ret fail0                 (* lock held, or the lock could not be examined *)
      end)).
End Backup.
