(* C01, the composition: "backup then restore reproduces the source tree exactly".
   Definitions only (lemmas and theorems: E2EP.v).

   1. the fault-free weakest precondition [nf] over [Store.prog] (no fault on any
      operation; a panic is a failure);
   2. what a backup needs of the state it starts from ([Startable], [Ready]) with the
      boolean checker [ready_b];
   3. the invariant of the writer state that makes every storage operation of a
      fault-free backup succeed ([WI]);
   4. what restore must return for one source item ([item_restored]) and its checker. *)
From Coq Require Import List NArith ZArith Bool.
From CV Require Import Base.Str Apath Entry Stitch Store StitchProg Codec Backup Read Inv Conf Truth Valid.
Import ListNotations.
Local Open Scope N_scope.

(* ------------------------------------------------------------------------- *)
(** * 1. Fault-free weakest precondition                                       *)
(* ------------------------------------------------------------------------- *)
Section NF.
  Variable pre : bytes -> N.

  (* run without faults from [a]: the program ends with a result [r] in a state [a']
     with [Q r a'] (it does not panic) *)
  Fixpoint nf {R} (Q : R -> arch -> Prop) (p : prog R) (a : arch) : Prop :=
    match p with
    | Ret r => Q r a
    | Panic => False
    | Do o k => nf Q (k (snd (exec_ok pre a o))) (fst (exec_ok pre a o))
    end.
End NF.

(* ------------------------------------------------------------------------- *)
(** * 2. The start state                                                       *)
(* ------------------------------------------------------------------------- *)

(* What a fault-free backup needs to SUCCEED: the archive header is there, there is no
   GC_LOCK file (not even a zero-length one), the block directory d/ exists, and every file
   and directory lies in an existing directory (so the band id about to be used is unused). *)
Definition Startable (pre : bytes -> N) (a : arch) : Prop :=
  get a PHeader = Some (Good PlJson)
  /\ get a PLock = None
  /\ has_dir a DBlocks = true
  /\ WFparents pre a.

(* What backup-then-restore needs in addition: no directory is listed twice, and the
   invariants every operation maintains: referential integrity ([AInv]: index entries point
   at good blocks, block files hold their own content, no path is repeated) and format
   conformance ([Conf]). *)
Definition Ready (pre : bytes -> N) (a : arch) : Prop :=
  Startable pre a /\ NoDup (dirs a) /\ AInv a /\ Conf a.

Definition startable_b (pre : bytes -> N) (a : arch) : bool :=
  match get a PHeader with Some (Good PlJson) => true | _ => false end
  && match get a PLock with None => true | Some _ => false end
  && has_dir a DBlocks
  && wfparents_b pre a.

Definition ready_b (pre : bytes -> N) (a : arch) : bool :=
  startable_b pre a && nodup_dirs (dirs a) && ainv_b a && conf_b a.

(* ------------------------------------------------------------------------- *)
(** * 3. The writer state of a backup no operation of which can fail           *)
(* ------------------------------------------------------------------------- *)
Definition WI (a : arch) (w : wst) : Prop :=
  has_dir a DBlocks = true
  /\ has_dir a (DBand (w_band w)) = true
  /\ has_dir a (DIndex (w_band w)) = true
  /\ (w_seq w mod HUNKS_PER_SUBDIR <> 0 ->
      has_dir a (DHunkSub (w_band w) (w_seq w / HUNKS_PER_SUBDIR)) = true)
  /\ (forall h, w_seq w <= h -> get a (PHunk (w_band w) h) = None)
  /\ get a (PTail (w_band w)) = None
  /\ (forall c x, get a (PBlock c) = Some x -> nonempty x = true -> mem_bytes c (w_exists w) = true)
  /\ w_errors w = 0
  /\ get a (PHead (w_band w)) = Some (Good (PlHead HvOk))
  /\ get a PLock = None.

(* ------------------------------------------------------------------------- *)
(** * 4. What restore returns for one source item                              *)
(* ------------------------------------------------------------------------- *)

(* the source items a backup records *)
Definition known_items (src : list sitem) : list sitem :=
  filter (fun it => known_kind (s_kind (si_e it))) src.

(* [be] is an entry the archive [a0] held, in a band earlier than the one the backup creates,
   for the path of [it], with the kind, mtime and size of [it]
   (content_heuristically_unchanged) *)
Definition basis_match (a0 : arch) (it : sitem) (be : entry) : Prop :=
  InBasis a0 (new_band a0) be
  /\ e_apath be = s_apath (si_e it)
  /\ (forall w, unchanged w (si_e it) be = true).

(* [rf] is the restored form of source item [it]: the entry carries the item's path, kind,
   mtime, mode, owner and link target ([meta_of]); it was restored ([Some d]); a directory
   or symlink has no content; a file's content is the bytes read from the source, or -- when
   the backup reused the addresses of the basis entry -- what that entry restored to in [a0] *)
Definition item_restored (c : cfg) (a0 : arch) (it : sitem) (rf : rfile) : Prop :=
  exists e d,
    rf = RFile e (Some d)
    /\ meta_of c it e
    /\ match s_kind (si_e it) with
       | KFile =>
           d = si_data it
           \/ exists be, basis_match a0 it be /\ e_addrs e = e_addrs be /\ content_of a0 be = Some d
       | _ => d = []
       end.

(* the strict form: every file restores to the bytes read from the source *)
Definition item_restored_exact (c : cfg) (it : sitem) (rf : rfile) : Prop :=
  exists e, rf = RFile e (Some (match s_kind (si_e it) with KFile => si_data it | _ => [] end))
            /\ meta_of c it e.

(* ---- checkers for the examples ---- *)
Definition rfile_exact_b (c : cfg) (it : sitem) (rf : rfile) : bool :=
  match rf with
  | RFile e (Some d) =>
      entry_eqb e (with_addrs (meta_from (c_owner c) (si_e it)) (e_addrs e))
      && str_eqb d (match s_kind (si_e it) with KFile => si_data it | _ => [] end)
  | RFile _ None => false
  end.

Fixpoint forall2b {A B} (f : A -> B -> bool) (l : list A) (m : list B) : bool :=
  match l, m with
  | [], [] => true
  | x :: l', y :: m' => f x y && forall2b f l' m'
  | _, _ => false
  end.

(* backup [src] into [a0], then restore the new band: the check of the whole statement *)
Definition e2e_check (pre : bytes -> N) (c : cfg) (src : list sitem) (a0 : arch) : bool :=
  match run pre (backup_prog pre c src) a0 [] with
  | (_, a1, Done r) =>
      b_ok r && N.eqb (b_errors r) 0
      && match b_band r with Some b => N.eqb b (new_band a0) | None => false end
      && match run pre (restore_prog (Specified (new_band a0)) keep_all) a1 [] with
         | (_, _, Done rr) =>
             r_ok rr && N.eqb (r_merr rr) 0
             && forall2b (rfile_exact_b c) (known_items src) (r_files rr)
         | _ => false
         end
  | _ => false
  end.
