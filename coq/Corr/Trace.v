(* Comparison of storage-operation traces and archive states, and a rule-driven runner
   (faults chosen by "the n-th occurrence of this operation"), used by the generated
   correspondence case files. Definitions only. *)
From CV Require Import Base.Str Apath Entry Store Codec.
Local Open Scope N_scope.

Definition errkind_eqb (a b : errkind) : bool :=
  match a, b with
  | ENotFound, ENotFound | EAlreadyExists, EAlreadyExists
  | EPermissionDenied, EPermissionDenied | EOther, EOther => true
  | _, _ => false
  end.

Definition headver_eqb (a b : headver) : bool :=
  match a, b with
  | HvOk, HvOk | HvNone, HvNone | HvUnsupported, HvUnsupported
  | HvUnparsable, HvUnparsable | HvBadFlags, HvBadFlags => true
  | _, _ => false
  end.

Definition optN_eqb (a b : option N) : bool :=
  match a, b with Some x, Some y => N.eqb x y | None, None => true | _, _ => false end.

Definition payload_eqb (a b : payload) : bool :=
  match a, b with
  | PlJson, PlJson => true
  | PlHead v, PlHead w => headver_eqb v w
  | PlTail x, PlTail y => optN_eqb x y
  | PlHunk x, PlHunk y => list_eqb entry_eqb x y
  | PlBlock x, PlBlock y => str_eqb x y
  | _, _ => false
  end.

Definition fcontent_eqb (a b : fcontent) : bool :=
  match a, b with
  | Good p, Good q => payload_eqb p q
  | Empty, Empty | Garbage, Garbage => true
  | _, _ => false
  end.

Definition wmode_eqb (a b : wmode) : bool :=
  match a, b with CreateNew, CreateNew | Overwrite, Overwrite => true | _, _ => false end.

Definition op_eqb (a b : op) : bool :=
  match a, b with
  | OpRead f, OpRead g | OpMeta f, OpMeta g | OpRemoveFile f, OpRemoveFile g => fpath_eqb f g
  | OpWrite f p m, OpWrite g q n => fpath_eqb f g && payload_eqb p q && wmode_eqb m n
  | OpList d, OpList e | OpMkdir d, OpMkdir e | OpRemoveDirAll d, OpRemoveDirAll e => dpath_eqb d e
  | _, _ => false
  end.

(* same operation and target, whatever the payload: used to count occurrences *)
Definition op_same (a b : op) : bool :=
  match a, b with
  | OpWrite f _ _, OpWrite g _ _ => fpath_eqb f g
  | _, _ => op_eqb a b
  end.

Definition subset {A} (eqb : A -> A -> bool) (l m : list A) : bool :=
  forallb (fun x => existsb (eqb x) m) l.
Definition set_eqb {A} (eqb : A -> A -> bool) (l m : list A) : bool :=
  subset eqb l m && subset eqb m l && Nat.eqb (length l) (length m).

Definition fb_eqb (x y : fpath * bool) : bool := fpath_eqb (fst x) (fst y) && Bool.eqb (snd x) (snd y).

Definition reply_eqb (a b : reply) : bool :=
  match a, b with
  | ROk, ROk => true
  | RErr j, RErr k => errkind_eqb j k
  | RData c, RData d => fcontent_eqb c d
  | RList ds fs, RList es gs => set_eqb dpath_eqb ds es && set_eqb fb_eqb fs gs
  | RMeta x, RMeta y => Bool.eqb x y
  | _, _ => false
  end.

Definition step_eqb (x y : op * reply) : bool := op_eqb (fst x) (fst y) && reply_eqb (snd x) (snd y).

(* index of the first differing element, or the common length if one is a strict prefix;
   None = equal *)
Fixpoint trace_diff (a b : list (op * reply)) (i : N) : option N :=
  match a, b with
  | [], [] => None
  | x :: a', y :: b' => if step_eqb x y then trace_diff a' b' (i + 1) else Some i
  | _, _ => Some i
  end.

Definition file_eqb (x y : fpath * fcontent) : bool := fpath_eqb (fst x) (fst y) && fcontent_eqb (snd x) (snd y).
Definition arch_eqb (a b : arch) : bool :=
  set_eqb dpath_eqb (dirs a) (dirs b) && set_eqb file_eqb (files a) (files b).

(* ---- rule-driven faults: (operation, n, fault) = "the n-th (from 0) occurrence of this
   operation (same verb and target) suffers this fault" ---- *)
Definition rule := (op * N * fault)%type.

Definition count_same (o : op) (seen : list op) : N :=
  N.of_nat (length (filter (op_same o) seen)).

Fixpoint find_rule (o : op) (n : N) (rules : list rule) : fault :=
  match rules with
  | [] => NoFault
  | (o', n', f) :: rs => if op_same o o' && N.eqb n n' then f else find_rule o n rs
  end.

Section Rules.
  Variable pre : bytes -> N.

  Fixpoint run_rules {R} (p : prog R) (a : arch) (rules : list rule) (seen : list op)
    : list (op * reply) * arch * outcome R * list fault :=
    match p with
    | Ret r => ([], a, Done r, [])
    | Panic => ([], a, Panicked, [])
    | Do o k =>
        let f := find_rule o (count_same o seen) rules in
        match f with
        | Crash => ([], a, Crashed, [Crash])
        | CrashEmpty => ([], exec_empty pre a o, Crashed, [CrashEmpty])
        | _ =>
            let (a', rep) := exec pre a o f in
            let '(tr, af, out, phi) := run_rules (k rep) a' rules (o :: seen) in
            ((o, rep) :: tr, af, out, f :: phi)
        end
    end.
End Rules.

Definition is_mut_step (x : op * reply) : bool := is_mutation (fst x).

(* the sub-directory table supplied by the harness: content -> sub-directory number *)
Fixpoint pre_of (tab : list (bytes * N)) (c : bytes) : N :=
  match tab with
  | [] => 4096
  | (d, s) :: tab' => if str_eqb c d then s else pre_of tab' c
  end.

(* ---- accessors and per-step checks for the generated case files ---- *)
Definition r_trace {R} (s : list (op * reply) * arch * outcome R * list fault) := fst (fst (fst s)).
Definition r_arch {R} (s : list (op * reply) * arch * outcome R * list fault) := snd (fst (fst s)).
Definition r_out {R} (s : list (op * reply) * arch * outcome R * list fault) := snd (fst s).
Definition r_phi {R} (s : list (op * reply) * arch * outcome R * list fault) := snd s.

Definition out_code {R} (summ : R -> list N) (o : outcome R) : list N :=
  match o with Done r => 0 :: summ r | Crashed => [1] | Panicked => [2] end.

(* operations one actor issues concurrently (block sub-directory listings, block reads of
   validate): when one of them is made to fail, how many of its siblings still run is a
   scheduling accident, so they are left out of the comparison in that case *)
Definition is_group_step (x : op * reply) : bool :=
  match fst x with OpList (DBlockSub _) => true | _ => false end.

(* mode 0: whole trace; 1: mutating operations only (killed runs); 2: all but concurrent groups.
   0 = agree; 1 = outcomes differ; 1000+i = traces differ at index i *)
Definition check_run {R} (summ : R -> list N) (s : list (op * reply) * arch * outcome R * list fault)
           (impl_tr : list (op * reply)) (mode : N) (impl_out : list N) : N :=
  let sel (t : list (op * reply)) :=
    if N.eqb mode 1 then filter is_mut_step t
    else if N.eqb mode 2 then filter (fun x => negb (is_group_step x)) t
    else t in
  if N.eqb mode 3 then
    (* the same operations with the same replies, in any order (restore reads the index lazily,
       interleaved with block reads; the model reads the listing first) *)
    if set_eqb step_eqb (r_trace s) impl_tr
    then (if list_eqb N.eqb (out_code summ (r_out s)) impl_out then 0 else 1)
    else 999
  else
  match trace_diff (sel (r_trace s)) (sel impl_tr) 0 with
  | Some i => 1000 + i
  | None => if list_eqb N.eqb (out_code summ (r_out s)) impl_out then 0 else 1
  end.

From CV Require Import Backup Delete Read.
Definition bsum (r : bres) : list N := if b_ok r then [1; b_errors r; b_merr r] else [0; 0; b_merr r].
Definition dsum (r : dres) : list N := if d_ok r then [1; d_unref r; d_bands r; d_blocks r; d_errs r] else [0].
Definition isum (r : bool) : list N := [bool_code r].
Definition lsum (r : lres) : list N := [bool_code (l_ok r); l_merr r].
Definition vsum (r : vres) : list N := [bool_code (v_ok r); v_errors r].
Definition rsum (r : rres) : list N := [bool_code (r_ok r); r_merr r].

(* a run under an explicit fault list, in the shape run_rules returns *)
Definition run_phi (pre : bytes -> N) {R} (p : prog R) (a : arch) (phi : list fault)
  : list (op * reply) * arch * outcome R * list fault :=
  (run pre p a phi, phi).
Definition crash_at (k : N) (empty : bool) : list fault :=
  repeat NoFault (N.to_nat k) ++ [if empty then CrashEmpty else Crash].

(* direct Transport calls and state surgery, for the transport-contract cases *)
Inductive tstep := TOp (o : op) | TTruncate (f : fpath).
Fixpoint run_tsteps (pre : bytes -> N) (a : arch) (l : list tstep) : list reply * arch :=
  match l with
  | [] => ([], a)
  | TOp o :: l' =>
      let (a', r) := exec pre a o NoFault in
      let (rs, af) := run_tsteps pre a' l' in (r :: rs, af)
  | TTruncate f :: l' =>
      run_tsteps pre (match get a f with
                      | Some _ => {| dirs := dirs a; files := set_file f Empty (files a) |}
                      | None => a
                      end) l'
  end.
Fixpoint replies_diff (a b : list reply) (i : N) : option N :=
  match a, b with
  | [], [] => None
  | x :: a', y :: b' => if reply_eqb x y then replies_diff a' b' (i + 1) else Some i
  | _, _ => Some i
  end.
Definition fail_at (k : N) (kind : errkind) : list fault := repeat NoFault (N.to_nat k) ++ [Fail kind].
