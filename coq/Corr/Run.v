(* Helpers used by the generated correspondence case files (evaluated with vm_compute). *)
From CV Require Import Base.Str Apath.
Local Open Scope N_scope.

Fixpoint first_diff (a b : list N) (i : N) : option (N * N * N) :=   (* index, model, impl *)
  match a, b with
  | [], [] => None
  | x :: a', y :: b' => if N.eqb x y then first_diff a' b' (i + 1) else Some (i, x, y)
  | [], y :: _ => Some (i, 999, y)
  | x :: _, [] => Some (i, x, 999)
  end.

Definition mk_path (tab : list str) (ixs : list N) : str :=
  SLASH :: join SLASH (map (fun i => nth (N.to_nat i) tab []) ixs).

Definition pair_code (a b : str) : N :=
  cmp_code (apath_cmp a b) * 2 + bool_code (is_prefix_of a b).

Definition matrix (rows paths : list str) : list N :=
  flat_map (fun a => map (pair_code a) paths) rows.

(* order only (C11): the prefix bit is left out *)
Definition matrix_cmp (rows paths : list str) : list N :=
  flat_map (fun a => map (fun b => cmp_code (apath_cmp a b) * 2) paths) rows.

Definition valid_codes (paths : list str) : list N := map (fun p => bool_code (is_valid p)) paths.

Fixpoint slice_from {A} (n : nat) (l : list A) : list A :=
  match n, l with O, _ => l | S n', _ :: l' => slice_from n' l' | _, [] => [] end.

(* pack 16 three-bit codes per number (mirrors lib/cv/props/c11.py: pack) *)
Fixpoint packacc (l : list N) (acc cnt : N) : list N :=
  match l with
  | [] => if N.eqb cnt 0 then [] else [acc]
  | x :: l' =>
      let acc' := acc * 8 + x in
      if N.eqb cnt 15 then acc' :: packacc l' 0 0 else packacc l' acc' (cnt + 1)
  end.

(* inverse of packing: 16 three-bit digits of a word, most significant first *)
Fixpoint unpack_word (w : N) (k : nat) : list N :=
  match k with
  | O => []
  | S k' => N.land (N.shiftr w (3 * N.of_nat k')) 7 :: unpack_word w k'
  end.
Definition unpack (l : list N) (total : nat) : list N :=
  firstn total (flat_map (fun w => unpack_word w 16) l).
