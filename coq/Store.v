(* Typed archive state and the Transport contract (exec).  Model file: definitions only.

   Paths are typed so that invariants are first-order.  A block is named by its content
   (hash := identity); [pre c] is the number of the sub-directory (first three hex digits of
   the real BLAKE2b name) the block with content [c] lives in — supplied per case by the
   harness, quantified over in the theorems. *)
From CV Require Export Entry.
Local Open Scope N_scope.

Inductive errkind := ENotFound | EAlreadyExists | EPermissionDenied | EOther.

Inductive fpath :=
| PHeader                      (* CONSERVE *)
| PLock                        (* GC_LOCK *)
| PHead (b : N)                (* bNNNN/BANDHEAD *)
| PTail (b : N)                (* bNNNN/BANDTAIL *)
| PHunk (b h : N)              (* bNNNN/i/SSSSS/HHHHHHHHH *)
| PBlock (c : bytes).          (* d/xxx/<hash of c> *)

Inductive dpath :=
| DRoot | DBlocks
| DBand (b : N) | DIndex (b : N) | DHunkSub (b s : N)
| DBlockSub (s : N).

(* what a BANDHEAD says about its format version / flags (Band::open) *)
Inductive headver := HvOk | HvNone | HvUnsupported | HvUnparsable | HvBadFlags.

Inductive payload :=
| PlJson                        (* CONSERVE header, GC_LOCK: content irrelevant *)
| PlHead (v : headver)
| PlTail (count : option N)
| PlHunk (es : list entry)
| PlBlock (c : bytes).          (* uncompressed content *)

Inductive fcontent := Good (p : payload) | Empty | Garbage.

Definition fpath_eqb (x y : fpath) : bool :=
  match x, y with
  | PHeader, PHeader | PLock, PLock => true
  | PHead a, PHead b | PTail a, PTail b => N.eqb a b
  | PHunk a h, PHunk b k => N.eqb a b && N.eqb h k
  | PBlock c, PBlock d => str_eqb c d
  | _, _ => false
  end.

Definition dpath_eqb (x y : dpath) : bool :=
  match x, y with
  | DRoot, DRoot | DBlocks, DBlocks => true
  | DBand a, DBand b | DIndex a, DIndex b | DBlockSub a, DBlockSub b => N.eqb a b
  | DHunkSub a s, DHunkSub b t => N.eqb a b && N.eqb s t
  | _, _ => false
  end.

Definition HUNKS_PER_SUBDIR : N := 10000.

Section Store.
  Variable pre : bytes -> N.

  Definition parent_f (f : fpath) : dpath :=
    match f with
    | PHeader | PLock => DRoot
    | PHead b | PTail b => DBand b
    | PHunk b h => DHunkSub b (h / HUNKS_PER_SUBDIR)
    | PBlock c => DBlockSub (pre c)
    end.

  Definition parent_d (d : dpath) : option dpath :=
    match d with
    | DRoot => None
    | DBlocks | DBand _ => Some DRoot
    | DIndex b => Some (DBand b)
    | DHunkSub b _ => Some (DIndex b)
    | DBlockSub _ => Some DBlocks
    end.

  Record arch := { dirs : list dpath; files : list (fpath * fcontent) }.

  Definition has_dir (a : arch) (d : dpath) : bool := existsb (dpath_eqb d) (dirs a).

  Fixpoint lookup (f : fpath) (l : list (fpath * fcontent)) : option fcontent :=
    match l with
    | [] => None
    | (g, c) :: l' => if fpath_eqb f g then Some c else lookup f l'
    end.
  Definition get (a : arch) (f : fpath) : option fcontent := lookup f (files a).

  Fixpoint set_file (f : fpath) (c : fcontent) (l : list (fpath * fcontent)) : list (fpath * fcontent) :=
    match l with
    | [] => [(f, c)]
    | (g, d) :: l' => if fpath_eqb f g then (g, c) :: l' else (g, d) :: set_file f c l'
    end.

  Definition remove_file (f : fpath) (l : list (fpath * fcontent)) : list (fpath * fcontent) :=
    filter (fun p => negb (fpath_eqb f (fst p))) l.

  (* d is x or an ancestor of x *)
  Definition dir_under (d x : dpath) : bool :=
    dpath_eqb d x
    || match parent_d x with
       | Some p => dpath_eqb d p
                   || match parent_d p with
                      | Some q => dpath_eqb d q
                                  || match parent_d q with Some r => dpath_eqb d r | None => false end
                      | None => false
                      end
       | None => false
       end.
  Definition file_under (d : dpath) (f : fpath) : bool := dir_under d (parent_f f).

  Definition nonempty (c : fcontent) : bool := match c with Empty => false | _ => true end.

  Inductive wmode := CreateNew | Overwrite.

  Inductive op :=
  | OpRead (f : fpath)
  | OpWrite (f : fpath) (p : payload) (m : wmode)
  | OpList (d : dpath)
  | OpMkdir (d : dpath)
  | OpMeta (f : fpath)
  | OpRemoveFile (f : fpath)
  | OpRemoveDirAll (d : dpath).

  Inductive reply :=
  | ROk
  | RErr (k : errkind)
  | RData (c : fcontent)
  | RList (ds : list dpath) (fs : list (fpath * bool))     (* sub-directories; files with "length > 0" *)
  | RMeta (nonempty : bool).

  Inductive fault := NoFault | Fail (k : errkind) | Crash | CrashEmpty.

  Definition children_dirs (a : arch) (d : dpath) : list dpath :=
    filter (fun x => match parent_d x with Some p => dpath_eqb p d | None => false end) (dirs a).
  Definition children_files (a : arch) (d : dpath) : list (fpath * bool) :=
    map (fun p => (fst p, nonempty (snd p))) (filter (fun p => dpath_eqb (parent_f (fst p)) d) (files a)).

  (* The Transport contract on a sequentially consistent store.  [Fail k] leaves the
     state unchanged and replies [RErr k].  Crash faults are handled by [run]. *)
  Definition exec_ok (a : arch) (o : op) : arch * reply :=
    match o with
    | OpRead f =>
        match get a f with Some c => (a, RData c) | None => (a, RErr ENotFound) end
    | OpWrite f p m =>
        if has_dir a (parent_f f) then
          match get a f, m with
          | Some Empty, _ | None, _ | Some _, Overwrite =>
              ({| dirs := dirs a; files := set_file f (Good p) (files a) |}, ROk)
          | Some _, CreateNew => (a, RErr EAlreadyExists)
          end
        else (a, RErr ENotFound)
    | OpList d =>
        if has_dir a d then (a, RList (children_dirs a d) (children_files a d)) else (a, RErr ENotFound)
    | OpMkdir d =>
        if has_dir a d then (a, ROk)
        else match parent_d d with
             | Some p => if has_dir a p then ({| dirs := dirs a ++ [d]; files := files a |}, ROk)
                         else (a, RErr ENotFound)
             | None => ({| dirs := dirs a ++ [d]; files := files a |}, ROk)   (* the archive root itself *)
             end
    | OpMeta f =>
        match get a f with Some c => (a, RMeta (nonempty c)) | None => (a, RErr ENotFound) end
    | OpRemoveFile f =>
        match get a f with
        | Some _ => ({| dirs := dirs a; files := remove_file f (files a) |}, ROk)
        | None => (a, RErr ENotFound)
        end
    | OpRemoveDirAll d =>
        if has_dir a d then
          ({| dirs := filter (fun x => negb (dir_under d x)) (dirs a);
              files := filter (fun p => negb (file_under d (fst p))) (files a) |}, ROk)
        else (a, RErr ENotFound)
    end.

  Definition exec (a : arch) (o : op) (f : fault) : arch * reply :=
    match f with
    | Fail k => (a, RErr k)
    | _ => exec_ok a o
    end.

  (* the state a killed local write can leave: the file created, no content yet *)
  Definition exec_empty (a : arch) (o : op) : arch :=
    match o with
    | OpWrite f _ _ =>
        if has_dir a (parent_f f) then
          match get a f with
          | None => {| dirs := dirs a; files := set_file f Empty (files a) |}
          | Some _ => a
          end
        else a
    | _ => a
    end.

  Definition is_write (o : op) : bool := match o with OpWrite _ _ _ => true | _ => false end.
  Definition is_mutation (o : op) : bool :=
    match o with OpWrite _ _ _ | OpMkdir _ | OpRemoveFile _ | OpRemoveDirAll _ => true | _ => false end.

  (* ---- programs over storage ---- *)
  Inductive prog (R : Type) :=
  | Ret (r : R)
  | Do (o : op) (k : reply -> prog R)
  | Panic.                                   (* the process panics: nothing more happens *)
  Arguments Ret {R}. Arguments Do {R}. Arguments Panic {R}.

  Fixpoint bind {A B} (p : prog A) (f : A -> prog B) : prog B :=
    match p with
    | Ret r => f r
    | Do o k => Do o (fun r => bind (k r) f)
    | Panic => Panic
    end.

  Inductive outcome (R : Type) := Done (r : R) | Crashed | Panicked.
  Arguments Done {R}. Arguments Crashed {R}. Arguments Panicked {R}.

  Definition hdf (phi : list fault) : fault := match phi with [] => NoFault | f :: _ => f end.

  (* run under a fault list (one fault per operation, NoFault when exhausted):
     the trace of executed operations with replies, the final state, the outcome *)
  Fixpoint run {R} (p : prog R) (a : arch) (phi : list fault) : list (op * reply) * arch * outcome R :=
    match p with
    | Ret r => ([], a, Done r)
    | Panic => ([], a, Panicked)
    | Do o k =>
        match hdf phi with
        | Crash => ([], a, Crashed)
        | CrashEmpty => ([], exec_empty a o, Crashed)
        | f =>
            let (a', rep) := exec a o f in
            let '(tr, af, out) := run (k rep) a' (tl phi) in
            ((o, rep) :: tr, af, out)
        end
    end.

  (* every state the archive passes through (after each operation, and the state a
     crash leaves) *)
  Fixpoint run_states {R} (p : prog R) (a : arch) (phi : list fault) : list arch :=
    match p with
    | Ret _ | Panic => []
    | Do o k =>
        match hdf phi with
        | Crash => []
        | CrashEmpty => [exec_empty a o]
        | f => let (a', rep) := exec a o f in a' :: run_states (k rep) a' (tl phi)
        end
    end.

  Definition arch0 : arch := {| dirs := []; files := [] |}.
End Store.

Arguments Ret {R}. Arguments Do {R}. Arguments Panic {R}.
Arguments Done {R}. Arguments Crashed {R}. Arguments Panicked {R}.
