(* C01 / C04, content half: what a recorded file entry restores to, and the predicates the
   theorems of TruthP.v are stated with.  Definitions only (lemmas: TruthP.v). *)
From Coq Require Import List NArith ZArith Bool Permutation.
From CV Require Import Base.Str Apath Entry Store Stitch StitchProg Codec Backup Inv.
Import ListNotations.
Local Open Scope N_scope.

(* the content of the block file named [h], if it is there and is a good block *)
Definition blk_of (a : arch) (h : bytes) : option bytes :=
  match get a (PBlock h) with Some (Good (PlBlock c)) => Some c | _ => None end.

(* the bytes entry [e] restores to in state [a]: the concatenation of its addresses;
   [None] if a block is missing, unreadable or too short *)
Definition content_of (a : arch) (e : entry) : option bytes := read_addrs (blk_of a) (e_addrs e).

(* the source walk: a file's recorded size is the length of what a read returns, and no
   path is yielded twice *)
Definition SrcOK (src : list sitem) : Prop :=
  (forall it, In it src -> s_kind (si_e it) = KFile ->
              N.of_nat (length (si_data it)) = s_size (si_e it))
  /\ NoDup (map (fun it => s_apath (si_e it)) src).

Definition cfg_ok (c : cfg) : Prop := 1 <= c_mbs c.

(* [e] occurs in some good index hunk of band [b] *)
Definition Recorded (a : arch) (b : N) (e : entry) : Prop :=
  exists h es, get a (PHunk b h) = Some (Good (PlHunk es)) /\ In e es.

(* the id of the band a backup started in state [a0] creates (Band::create: one above the
   largest band directory there is, else 0) *)
Definition new_band (a0 : arch) : N :=
  match max_id (band_ids (children_dirs a0 DRoot)) with Some m => m + 1 | None => 0 end.

(* [be] was read from an index hunk that state [a0] holds in a band EARLIER than [bnew] *)
Definition InBasis (a0 : arch) (bnew : N) (be : entry) : Prop :=
  exists b' h' es', b' < bnew /\ get a0 (PHunk b' h') = Some (Good (PlHunk es')) /\ In be es'.

(* the entry carries the metadata of source item [it] (whatever its addresses) *)
Definition meta_of (c : cfg) (it : sitem) (e : entry) : Prop :=
  e = with_addrs (meta_from (c_owner c) (si_e it)) (e_addrs e).

(* freshly stored: the addresses reassemble exactly the bytes read from the source file *)
Definition FreshFrom (a : arch) (it : sitem) (e : entry) : Prop :=
  content_of a e = Some (si_data it).

(* reused: the addresses are those of the basis entry of the same path, which has the
   kind, mtime and size of the source file (content_heuristically_unchanged) *)
Definition ReusedFrom (a0 : arch) (bnew : N) (it : sitem) (e : entry) : Prop :=
  exists be, InBasis a0 bnew be
             /\ e_apath be = s_apath (si_e it)
             /\ (forall w, unchanged w (si_e it) be = true)
             /\ e_addrs e = e_addrs be.

(* what the writer may hold or record for a source item *)
Definition EntOK (c : cfg) (src : list sitem) (a0 : arch) (bnew : N) (a : arch) (e : entry) : Prop :=
  exists it, In it src /\ meta_of c it e
             /\ (e_kind e = KFile -> FreshFrom a it e \/ ReusedFrom a0 bnew it e).

(* THE property of a recorded file entry *)
Definition Truthful (c : cfg) (src : list sitem) (a0 : arch) (bnew : N) (a : arch) (e : entry) : Prop :=
  exists it, In it src
             /\ s_apath (si_e it) = e_apath e
             /\ s_kind (si_e it) = KFile
             /\ meta_of c it e
             /\ content_of a e <> None
             /\ (FreshFrom a it e \/ ReusedFrom a0 bnew it e).

(* every good index hunk of [a] is either one [a0] already had, unchanged, or lies in band
   [bnew] and holds only truthful file entries *)
Definition HunksTruthful (c : cfg) (src : list sitem) (a0 : arch) (bnew : N) (a : arch) : Prop :=
  forall b h es, get a (PHunk b h) = Some (Good (PlHunk es)) ->
    get a0 (PHunk b h) = Some (Good (PlHunk es))
    \/ (b = bnew /\ forall e, In e es -> e_kind e = KFile -> Truthful c src a0 bnew a e).

(* every file lies in a directory that exists, and so does every directory (the shape of
   any state reached from the empty store through the transport) *)
Definition DirsWF (pre : bytes -> N) (a : arch) : Prop :=
  (forall f x, get a f = Some x -> has_dir a (parent_f pre f) = true)
  /\ (forall d p, has_dir a d = true -> parent_d d = Some p -> has_dir a p = true).

Definition known_kind (k : kind) : bool := match k with KUnknown => false | _ => true end.

(* a program that never reaches [Panic], whatever the storage replies *)
Inductive no_panic {R : Type} : prog R -> Prop :=
| np_ret : forall r, no_panic (Ret r)
| np_do : forall o k, (forall rep, no_panic (k rep)) -> no_panic (Do o k).

(* ---- boolean checkers for the examples ---- *)
Definition bytes_opt_eqb (x y : option bytes) : bool :=
  match x, y with Some u, Some v => str_eqb u v | None, None => true | _, _ => false end.

(* all good hunks of band [b], as (hunk number, entries) *)
Definition band_hunks (a : arch) (b : N) : list (N * list entry) :=
  flat_map (fun p => match p with
                     | (PHunk b' h, Good (PlHunk es)) => if N.eqb b' b then [(h, es)] else []
                     | _ => []
                     end) (files a).
Definition band_entries (a : arch) (b : N) : list entry := flat_map snd (band_hunks a b).

(* the source item with the path of [e] *)
Definition item_of (src : list sitem) (e : entry) : option sitem :=
  find (fun it => str_eqb (s_apath (si_e it)) (e_apath e)) src.

(* a recorded file entry reads back to the bytes of the source item of the same path *)
Definition reads_own_bytes (src : list sitem) (a : arch) (e : entry) : bool :=
  match e_kind e with
  | KFile => match item_of src e with
             | Some it => bytes_opt_eqb (content_of a e) (Some (si_data it))
             | None => false
             end
  | _ => true
  end.

(* ---- completeness of a successful backup ---- *)

(* the entries of hunk [h] of band [b] (nothing if it is not a good hunk) *)
Definition hunk_es (a : arch) (b h : N) : list entry :=
  match get a (PHunk b h) with Some (Good (PlHunk es)) => es | _ => [] end.

(* all entries of hunks 0 .. n-1 of band [b], in order *)
Definition rec_upto (a : arch) (b : N) (n : nat) : list entry :=
  flat_map (fun i => hunk_es a b (N.of_nat i)) (seq 0 n).

(* the paths of the source items a backup records (files, directories, symlinks) *)
Definition kpaths (src : list sitem) : list str :=
  map (fun it => s_apath (si_e it)) (filter (fun it => known_kind (s_kind (si_e it))) src).

(* band [b] of [a] is closed by a tail that counts exactly its hunks, which are numbered
   0 .. n-1, and the paths recorded in them are exactly (as a multiset) those of the source *)
Definition Complete (src : list sitem) (a : arch) (b : N) : Prop :=
  exists n : N,
    get a (PTail b) = Some (Good (PlTail (Some n)))
    /\ (forall h, (exists es, get a (PHunk b h) = Some (Good (PlHunk es))) <-> h < n)
    /\ Permutation (map e_apath (rec_upto a b (N.to_nat n))) (kpaths src).

(* ---- more checkers ---- *)
Fixpoint nodup_strs (l : list str) : bool :=
  match l with
  | [] => true
  | x :: l' => negb (existsb (str_eqb x) l') && nodup_strs l'
  end.

Definition srcok_b (src : list sitem) : bool :=
  forallb (fun it => match s_kind (si_e it) with
                     | KFile => N.eqb (N.of_nat (length (si_data it))) (s_size (si_e it))
                     | _ => true
                     end) src
  && nodup_strs (map (fun it => s_apath (si_e it)) src).

Definition dirswf_b (pre : bytes -> N) (a : arch) : bool :=
  forallb (fun p => has_dir a (parent_f pre (fst p))) (files a)
  && forallb (fun d => match parent_d d with Some p => has_dir a p | None => true end) (dirs a).
