(* C17 — The archive is a pure function of the source and the operation history.
   In the model every operation is a FUNCTION of (archive state, arguments): [run] is a
   Gallina function, so two replays of one history are equal by reflexivity; what is left
   to prove is that the inputs the implementation does NOT control -- the iteration order
   of its HashSets of block hashes -- do not influence the result.  Task scheduling inside
   tokio is observed (four runtime flavours), not modelled. *)
From Coq Require Import List NArith.
From CV Require Import Base.Str Apath Entry Store StitchProg Ops Delete Read Valid ValidP.
Local Open Scope N_scope.

(* delete / gc: the order in which the present-blocks set is iterated changes neither the
   final archive nor the outcome. *)
Theorem C17_delete_iteration_order_irrelevant :
  forall (pre : bytes -> N) (ids : list N) (dry brk : bool) (hint1 hint2 : list bytes) (a : arch),
    NoDup hint1 -> NoDup hint2 ->
    snd (fst (run pre (delete_prog ids dry brk hint1) a [])) = snd (fst (run pre (delete_prog ids dry brk hint2) a []))
    /\ snd (run pre (delete_prog ids dry brk hint1) a []) = snd (run pre (delete_prog ids dry brk hint2) a []).
Proof. exact delete_hint_irrelevant. Qed.
Print Assumptions C17_delete_iteration_order_irrelevant.

Theorem C17_validate_iteration_order_irrelevant :
  forall (pre : bytes -> N) (a : arch) (skip : bool) (hint1 hint2 : list bytes),
    NoDup hint1 -> NoDup hint2 ->
    snd (run pre (validate_prog skip hint1) a []) = snd (run pre (validate_prog skip hint2) a []).
Proof. exact validate_hint_irrelevant. Qed.
Print Assumptions C17_validate_iteration_order_irrelevant.

(* The NoDup hypothesis is needed of the MODEL's order_by (a set has no duplicates). *)
Theorem C17_duplicate_hint_refuted :
  exists pre ids a hint1 hint2,
    snd (run pre (delete_prog ids false false hint1) a []) <> snd (run pre (delete_prog ids false false hint2) a []).
Proof. exact ValidExamples.delete_hint_dup_refuted. Qed.
Print Assumptions C17_duplicate_hint_refuted.
