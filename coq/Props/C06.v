(* C06 — A garbage collection and a backup running together never lose data. *)
From CV Require Import Base.Str Apath Entry Store StitchProg Backup Delete Inv Race RaceP.

(* run2 interleaves the two programs operation by operation under an arbitrary schedule
   sigma (an actor that has returned is skipped; when sigma is exhausted both run to
   completion).  For EVERY schedule — no bound on preemptions — once both have finished,
   every version marked complete refers only to blocks that are present with their own
   content; well-formedness is kept, so the statement can be iterated. *)
Theorem C06_gc_and_backup_never_lose_data :
  forall (pre : bytes -> N) (c : cfg) (src : list sitem) (ids : list N) (hint : list bytes)
         (a0 : arch) (sigma : list bool),
    WF pre a0 -> Safe a0 -> BlocksWF a0 ->
    let '(_, a, _, _) := run2 pre (backup_prog pre c src) (delete_prog ids false false hint) a0 sigma in
    Safe a /\ WF pre a /\ BlocksWF a.
Proof. exact gc_backup_safe. Qed.
Print Assumptions C06_gc_and_backup_never_lose_data.

(* Every kept old complete version is still complete, with every hunk and every
   referenced block, whatever the interleaving. *)
Theorem C06_kept_old_versions_survive :
  forall (pre : bytes -> N) (c : cfg) (src : list sitem) (ids : list N) (hint : list bytes)
         (a0 : arch) (sigma : list bool) (b : N),
    WF pre a0 -> Safe a0 -> BlocksWF a0 -> band_complete a0 b -> ~ In b ids ->
    let a := st2 (run2 pre (backup_prog pre c src) (delete_prog ids false false hint) a0 sigma) in
    band_complete a b /\ band_refs_ok a b /\
    (forall (n : N) (es : list entry),
        get a0 (PHunk b n) = Some (Good (PlHunk es)) -> get a (PHunk b n) = Some (Good (PlHunk es))).
Proof. exact old_bands_safe. Qed.
Print Assumptions C06_kept_old_versions_survive.

(* Regression witness: the protocol of the pinned commit (lock checked only before the band is
   created) is unsafe — a concrete archive, source and schedule end with a complete
   version naming a block the collector removed. *)
Theorem C06_single_lock_check_refuted :
  exists (pre : bytes -> N) (c : cfg) (src : list sitem) (ids : list N) (hint : list bytes)
         (a0 : arch) (sigma : list bool),
    WF pre a0 /\ Safe a0 /\ BlocksWF a0 /\ get a0 PLock = None /\
    (let a := st2 (run2 pre (backup_prog_old pre c src) (delete_prog ids false false hint) a0 sigma) in
     exists (b h : N) (es : list entry) (e : entry) (ad : addr),
       band_complete a b /\ get a (PHunk b h) = Some (Good (PlHunk es)) /\
       In e es /\ In ad (e_addrs e) /\ get a (PBlock (a_hash ad)) = None).
Proof. exact race_refuted_without_second_check. Qed.
Print Assumptions C06_single_lock_check_refuted.
