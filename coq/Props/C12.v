(* C12 — Selecting a subtree returns exactly that subtree. *)
From CV Require Import Base.Str Apath ApathP Entry Store Stitch StitchInst StitchProg Read FrameP.

(* The ancestor test used to select a subtree is ancestry by whole path
   components, for all valid paths (non-ASCII included). *)
Theorem C12_is_prefix_of_is_component_ancestry : forall a b,
  is_valid a = true -> is_valid b = true ->
  is_prefix_of a b = comp_prefix (comps a) (comps b).
Proof. exact is_prefix_of_spec. Qed.
Print Assumptions C12_is_prefix_of_is_component_ancestry.

(* Regression witness: the code before "fix: is_prefix_of" (character index fed
   with a byte length) was wrong in both directions. *)
Theorem C12_char_index_version_refuted :
  (is_valid s_slash_an_tilde = true /\ is_valid s_slash_an_tilde_f = true /\
   is_prefix_of_gen true s_slash_an_tilde s_slash_an_tilde_f = false /\
   comp_prefix (comps s_slash_an_tilde) (comps s_slash_an_tilde_f) = true)
  /\
  (is_valid s_n_tilde = true /\ is_valid s_n_tilde_x_y = true /\
   is_prefix_of_gen true s_n_tilde s_n_tilde_x_y = true /\
   comp_prefix (comps s_n_tilde) (comps s_n_tilde_x_y) = false).
Proof. exact is_prefix_of_by_chars_refuted. Qed.
Print Assumptions C12_char_index_version_refuted.

(* Listing a subtree of a version is the listing program run with the ancestor test as its
   yield-time filter; for any version that opens it returns the filter of the full stitched
   listing, in order — and for a complete version exactly the matching entries of its index. *)
Theorem C12_subtree_listing_is_the_filtered_listing :
  forall (pre : bytes -> N) (keep : entry -> bool) (a : arch) (b : N),
    get a PHeader = Some (Good PlJson) -> WFidx a -> head_opens a b = true ->
    exists (tr : list (op * reply)) (merr : N),
      run pre (list_prog (Specified b) keep) a [] =
      (tr, a, Store.Done {| l_ok := true; l_entries := pstitch_keep keep (view a) (N.to_nat b); l_merr := merr |}).
Proof. exact list_refines. Qed.
Print Assumptions C12_subtree_listing_is_the_filtered_listing.

(* ---- at the level of the programs, for ANY state of the archive (complete, interrupted or
        damaged versions) and any band selection policy ---- *)
From Coq Require Import List NArith.
From CV Require Import Backup Conf Valid Select SelectP.
From CV Require Dest DestP DestTreeP DestSubP.
Local Open Scope N_scope.

(* Listing with a selection returns the selected part of the full listing, with the same
   error count. *)
Theorem C12_selected_listing_is_the_filter_of_the_listing :
  forall (pre : bytes -> N) (a : arch) (p : policy) (keep : entry -> bool) tr0 a' r0,
    run pre (list_prog p Backup.keep_all) a [] = (tr0, a', Store.Done r0) ->
    exists tr,
      run pre (list_prog p keep) a []
      = (tr, a, Store.Done {| l_ok := l_ok r0; l_entries := filter keep (l_entries r0); l_merr := l_merr r0 |}).
Proof. exact Select_list_select_is_filter. Qed.
Print Assumptions C12_selected_listing_is_the_filter_of_the_listing.

(* With a subtree S selected: exactly the entries at or below S by whole path components. *)
Theorem C12_subtree_listing_exact :
  forall (pre : bytes -> N) (a : arch) (S : str), is_valid S = true ->
  forall (p : policy) tr0 a' r0 tr a'' r e,
    HunksValid a ->
    run pre (list_prog p Backup.keep_all) a [] = (tr0, a', Store.Done r0) ->
    run pre (list_prog p (subtree_keep S)) a [] = (tr, a'', Store.Done r) ->
    (In e (l_entries r) <-> In e (l_entries r0) /\ comp_prefix (comps S) (comps (e_apath e)) = true).
Proof. exact Select_list_subtree_In. Qed.
Print Assumptions C12_subtree_listing_exact.

(* Restoring only S: the same files with the same bytes as the part of a full restore at or
   below S, and no error that the full restore does not have. *)
Theorem C12_subtree_restore_is_part_of_the_full_restore :
  forall (pre : bytes -> N) (a : arch) (S : str), is_valid S = true ->
  forall (p : policy) tr0 a' r0,
    HunksValid a ->
    run pre (restore_prog p Backup.keep_all) a [] = (tr0, a', Store.Done r0) ->
    exists tr r,
      run pre (restore_prog p (subtree_keep S)) a [] = (tr, a, Store.Done r)
      /\ r_ok r = r_ok r0
      /\ r_files r = filter (rf_keep (at_or_below S)) (r_files r0)
      /\ r_merr r + nfailed (filter (fun rf => negb (rf_keep (at_or_below S) rf)) (r_files r0)) = r_merr r0
      /\ r_merr r <= r_merr r0.
Proof. exact Select_restore_subtree_exact_valid. Qed.
Print Assumptions C12_subtree_restore_is_part_of_the_full_restore.

(* Valid paths in every decodable hunk: what conformance gives, and damage keeps. *)
Theorem C12_valid_hunks_sources :
  (forall a, Conf a -> HunksValid a)
  /\ (forall a f a', HunksValid a -> damaged a f a' -> HunksValid a')
  /\ (forall a, valid_hunks_b a = true -> HunksValid a).
Proof. exact Select_HunksValid_sources. Qed.
Print Assumptions C12_valid_hunks_sources.

(* ------------------------------------------------------------------------- *)
(* The destination side of a selection (Dest.v).  Restoring only the subtree at [root] of
   the listing of a real tree ([tree_listing]) into an empty destination reports no error,
   resolves no path through a symlink, and leaves there: at every path at or below [root]
   EXACTLY what a full restore puts there (the listed node with its kind, bytes or target),
   a plain directory at every path leading to [root], and nothing anywhere else. *)
Theorem C12_subtree_restore_builds_exactly_the_subtree :
  forall (content_of : entry -> Entry.bytes) (es : list entry) (root : Dest.rpath) (s : Dest.dstate),
    DestTreeP.tree_listing es ->
    (root = [] \/ exists d, In d es /\ comps (e_apath d) = root /\ e_kind d = KDir) ->
    Dest.restore_into content_of false [] (DestSubP.subtree_of root es) = Some s ->
    Dest.d_esc s = 0 /\ Dest.d_errs s = 0
    /\ Dest.d_done s = map e_apath (DestSubP.subtree_of root es)
    /\ (forall p, p <> [] -> Dest.node_at (Dest.d_fs s) p = DestSubP.sub_spec content_of es root p).
Proof. exact DestSubP.subtree_restore_builds_the_subtree. Qed.
Print Assumptions C12_subtree_restore_builds_exactly_the_subtree.

(* Selecting a single file or symlink: the entry itself, its parent directories made on the
   way, nothing else. *)
Theorem C12_single_entry_restore :
  forall (content_of : entry -> Entry.bytes) (e : entry) (s : Dest.dstate),
    is_valid (e_apath e) = true -> comps (e_apath e) <> [] ->
    (e_kind e = KFile \/ (e_kind e = KSymlink /\ e_target e <> None)) ->
    Dest.restore_into content_of false [] [e] = Some s ->
    Dest.d_esc s = 0 /\ Dest.d_errs s = 0 /\ Dest.d_done s = [e_apath e]
    /\ (forall q, q <> [] ->
          Dest.node_at (Dest.d_fs s) q =
          if Dest.rpath_eqb (comps (e_apath e)) q then Some (DestTreeP.node_of content_of e)
          else if DestSubP.under q (comps (e_apath e)) then Some Dest.NDir else None).
Proof. exact DestSubP.single_entry_restore. Qed.
Print Assumptions C12_single_entry_restore.
