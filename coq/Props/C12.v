(* C12 — Selecting a subtree returns exactly that subtree. *)
From CV Require Import Base.Str Apath ApathP.

(* The ancestor test used to select a subtree is ancestry by whole path
   components, for all valid paths (non-ASCII included). *)
Theorem C12_is_prefix_of_is_component_ancestry : forall a b,
  is_valid a = true -> is_valid b = true ->
  is_prefix_of a b = comp_prefix (comps a) (comps b).
Proof. exact is_prefix_of_spec. Qed.
Print Assumptions C12_is_prefix_of_is_component_ancestry.

(* Regression witness: the code before "fix: is_prefix_of" (character index fed
   with a byte length) was wrong in both directions. *)
Theorem C12_char_index_version_refuted :
  (is_valid s_slash_an_tilde = true /\ is_valid s_slash_an_tilde_f = true /\
   is_prefix_of_gen true s_slash_an_tilde s_slash_an_tilde_f = false /\
   comp_prefix (comps s_slash_an_tilde) (comps s_slash_an_tilde_f) = true)
  /\
  (is_valid s_n_tilde = true /\ is_valid s_n_tilde_x_y = true /\
   is_prefix_of_gen true s_n_tilde s_n_tilde_x_y = true /\
   comp_prefix (comps s_n_tilde) (comps s_n_tilde_x_y) = false).
Proof. exact is_prefix_of_by_chars_refuted. Qed.
Print Assumptions C12_char_index_version_refuted.
