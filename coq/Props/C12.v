(* C12 — Selecting a subtree returns exactly that subtree. *)
From CV Require Import Base.Str Apath ApathP Entry Store Stitch StitchInst StitchProg Read FrameP.

(* The ancestor test used to select a subtree is ancestry by whole path
   components, for all valid paths (non-ASCII included). *)
Theorem C12_is_prefix_of_is_component_ancestry : forall a b,
  is_valid a = true -> is_valid b = true ->
  is_prefix_of a b = comp_prefix (comps a) (comps b).
Proof. exact is_prefix_of_spec. Qed.
Print Assumptions C12_is_prefix_of_is_component_ancestry.

(* Regression witness: the code before "fix: is_prefix_of" (character index fed
   with a byte length) was wrong in both directions. *)
Theorem C12_char_index_version_refuted :
  (is_valid s_slash_an_tilde = true /\ is_valid s_slash_an_tilde_f = true /\
   is_prefix_of_gen true s_slash_an_tilde s_slash_an_tilde_f = false /\
   comp_prefix (comps s_slash_an_tilde) (comps s_slash_an_tilde_f) = true)
  /\
  (is_valid s_n_tilde = true /\ is_valid s_n_tilde_x_y = true /\
   is_prefix_of_gen true s_n_tilde s_n_tilde_x_y = true /\
   comp_prefix (comps s_n_tilde) (comps s_n_tilde_x_y) = false).
Proof. exact is_prefix_of_by_chars_refuted. Qed.
Print Assumptions C12_char_index_version_refuted.

(* Listing a subtree of a version is the listing program run with the ancestor test as its
   yield-time filter; for any version that opens it returns the filter of the full stitched
   listing, in order — and for a complete version exactly the matching entries of its index. *)
Theorem C12_subtree_listing_is_the_filtered_listing :
  forall (pre : bytes -> N) (keep : entry -> bool) (a : arch) (b : N),
    get a PHeader = Some (Good PlJson) -> WFidx a -> head_opens a b = true ->
    exists (tr : list (op * reply)) (merr : N),
      run pre (list_prog (Specified b) keep) a [] =
      (tr, a, Store.Done {| l_ok := true; l_entries := pstitch_keep keep (view a) (N.to_nat b); l_merr := merr |}).
Proof. exact list_refines. Qed.
Print Assumptions C12_subtree_listing_is_the_filtered_listing.
