(* C14 — Work already stored is never stored again. *)
From CV Require Import Base.Str Apath Entry Store StitchProg Backup SafeP Inv RefIntP FrameP.

(* For every fault list: whenever a backup writes a block, that block was not present
   (with its content) in the state in which the write is issued. *)
Theorem C14_never_rewrites_a_present_block :
  forall (pre : bytes -> N) (c : cfg) (src : list sitem) (a0 : arch) (phi : list fault)
         (i : nat) (c' : bytes) (p : payload) (m : wmode) (rep : reply),
    BlocksInDirs pre a0 ->
    nth_error (fst (fst (run pre (backup_prog pre c src) a0 phi))) i = Some (OpWrite (PBlock c') p m, rep) ->
    exists ab : arch, state_before pre (backup_prog pre c src) a0 phi i = Some ab /\ ~ block_ok ab c'.
Proof. exact backup_never_rewrites_present. Qed.
Print Assumptions C14_never_rewrites_a_present_block.

(* Within one run no path (block or otherwise) is successfully written twice. *)
Theorem C14_each_block_written_at_most_once_per_run :
  forall (pre : bytes -> N) (c : cfg) (src : list sitem) (a : arch) (phi : list fault)
         (i j : nat) (f : fpath) (p1 : payload) (m1 : wmode) (p2 : payload) (m2 : wmode),
    (i < j)%nat ->
    nth_error (fst (fst (run pre (backup_prog pre c src) a phi))) i = Some (OpWrite f p1 m1, ROk) ->
    nth_error (fst (fst (run pre (backup_prog pre c src) a phi))) j = Some (OpWrite f p2 m2, ROk) -> False.
Proof. exact backup_written_at_most_once. Qed.
Print Assumptions C14_each_block_written_at_most_once_per_run.

(* Backing up a tree that has not changed since the newest complete version — with ANY option
   values — writes no data block at all, and every file entry it records has the previous
   version's addresses. *)
Theorem C14_unchanged_tree_writes_no_blocks :
  forall (pre : bytes -> N) (c : cfg) (a0 : arch) (b : N),
    WFidx a0 -> complete a0 b -> AInv a0 -> BlocksInDirs pre a0 ->
    has_dir a0 (DBand b) = true /\ (forall b' : N, has_dir a0 (DBand b') = true -> (b' <= b)%N) ->
    asorted (map e_apath (band_entries a0 b)) ->
    forall src : list sitem,
      asorted (map (fun it : sitem => s_apath (si_e it)) src) ->
      (forall it : sitem, In it src -> Match (band_entries a0 b) it) ->
      Forall (fun x : op * reply => okop a0 b (fst x)) (fst (fst (run pre (backup_prog pre c src) a0 []))).
Proof. exact unchanged_tree_no_block_writes. Qed.
Print Assumptions C14_unchanged_tree_writes_no_blocks.

(* ---- reuse DOES happen: identical addresses, resumed entries ---- *)
From Coq Require Import List NArith.
From CV Require Import Conf Truth E2E Reuse ReuseP.
Local Open Scope N_scope.

(* General form: from any state the operations maintain, a fault-free backup records, for
   EVERY source file that has an entry in the basis (the stitched listing of the newest band,
   complete or not) with the same path, kind, mtime and size whose blocks are all present,
   the source item's metadata with exactly that entry's addresses. *)
Theorem C14_backup_reuses_every_matching_basis_entry :
  forall (pre : bytes -> N) (c : cfg) (src : list sitem) (a0 : arch),
    Ready pre a0 -> SrcSorted src ->
    exists tr a1 r,
      run pre (backup_prog pre c src) a0 [] = (tr, a1, Store.Done r)
      /\ b_ok r = true /\ b_errors r = 0 /\ b_band r = Some (new_band a0)
      /\ ReusesAll pre c src a0 a1.
Proof. exact backup_reuses_basis. Qed.
Print Assumptions C14_backup_reuses_every_matching_basis_entry.

(* (a) An unchanged tree: the newest version is complete and records every file of the source
   with its kind, mtime and size; a fault-free backup under ANY configuration succeeds, records
   for every file exactly the addresses that version has (and nothing else for the path), and
   writes no block. *)
Theorem C14_unchanged_tree_records_identical_addresses :
  forall (pre : bytes -> N) (c : cfg) (src : list sitem) (a0 : arch) (b : N),
    Ready pre a0 -> SrcSorted src -> newest a0 = Some b -> complete a0 b -> UnchangedSince a0 b src ->
    exists tr a1 r,
      run pre (backup_prog pre c src) a0 [] = (tr, a1, Store.Done r)
      /\ b_ok r = true /\ b_errors r = 0 /\ b_band r = Some (new_band a0)
      /\ (forall it, In it src -> s_kind (si_e it) = KFile ->
            exists be, Recorded a0 b be /\ e_apath be = s_apath (si_e it)
                       /\ Recorded a1 (new_band a0) (reused_entry c it be)
                       /\ forall e', Recorded a1 (new_band a0) e' -> e_apath e' = s_apath (si_e it) ->
                                     e' = reused_entry c it be)
      /\ Forall (fun x => ~ is_block_write (fst x)) tr.
Proof. exact unchanged_tree_same_addresses. Qed.
Print Assumptions C14_unchanged_tree_records_identical_addresses.

(* (b) Resume: a backup stopped by ANY fault list (failures, a kill at any point, a torn
   write) whose band got its head; a fault-free backup of the same source then succeeds and
   records again, unchanged, EVERY file entry the interrupted band holds in a good hunk. *)
Theorem C14_resumed_backup_reuses_the_interrupted_entries :
  forall (pre : bytes -> N) (c : cfg) (src : list sitem) (a0 : arch) (phi : list fault),
    Ready pre a0 -> SrcSorted src -> SrcValid src -> SrcWF src -> cfg_ok c ->
    let a1 := snd (fst (run pre (backup_prog pre c src) a0 phi)) in
    head_opens a1 (new_band a0) = true ->
    Ready pre a1
    /\ newest a1 = Some (new_band a0)
    /\ exists tr a2 r,
         run pre (backup_prog pre c src) a1 [] = (tr, a2, Store.Done r)
         /\ b_ok r = true /\ b_errors r = 0 /\ b_band r = Some (new_band a1)
         /\ forall e, Recorded a1 (new_band a0) e -> e_kind e = KFile -> Recorded a2 (new_band a1) e.
Proof. exact resumed_backup_reuses_interrupted_entries. Qed.
Print Assumptions C14_resumed_backup_reuses_the_interrupted_entries.

(* Without "its blocks are present" the general clause is false (a lost block makes the file
   be stored again, as it should). *)
Theorem C14_reuse_needs_present_blocks_refuted :
  let pre := SafeExamples.ex_pre in
  let c := E2EP.E2EExamples.e5_cfg in
  let src := E2EP.E2EExamples.e5_src E2EP.E2EExamples.other_b in
  let a0 := ReuseRefuted.a_bad in
  let it := ReuseRefuted.it_b in
  let be := ReuseRefuted.be_b in
  Startable pre a0 /\ SrcSorted src /\ In it src /\ s_kind (si_e it) = KFile
  /\ In be (basis_of pre a0) /\ e_apath be = s_apath (si_e it) /\ same_meta (si_e it) be = true
  /\ blocks_listed_b a0 be = false
  /\ exists r, snd (run pre (backup_prog pre c src) a0 []) = Store.Done r
       /\ b_ok r = true /\ b_errors r = 0 /\ b_band r = Some (new_band a0)
       /\ ~ Recorded (snd (fst (run pre (backup_prog pre c src) a0 []))) (new_band a0) (reused_entry c it be).
Proof. exact ReuseRefuted.reuse_without_present_blocks_refuted. Qed.
Print Assumptions C14_reuse_needs_present_blocks_refuted.
