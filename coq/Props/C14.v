(* C14 — Work already stored is never stored again. *)
From CV Require Import Base.Str Apath Entry Store StitchProg Backup SafeP Inv RefIntP FrameP.

(* For every fault list: whenever a backup writes a block, that block was not present
   (with its content) in the state in which the write is issued. *)
Theorem C14_never_rewrites_a_present_block :
  forall (pre : bytes -> N) (c : cfg) (src : list sitem) (a0 : arch) (phi : list fault)
         (i : nat) (c' : bytes) (p : payload) (m : wmode) (rep : reply),
    BlocksInDirs pre a0 ->
    nth_error (fst (fst (run pre (backup_prog pre c src) a0 phi))) i = Some (OpWrite (PBlock c') p m, rep) ->
    exists ab : arch, state_before pre (backup_prog pre c src) a0 phi i = Some ab /\ ~ block_ok ab c'.
Proof. exact backup_never_rewrites_present. Qed.
Print Assumptions C14_never_rewrites_a_present_block.

(* Within one run no path (block or otherwise) is successfully written twice. *)
Theorem C14_each_block_written_at_most_once_per_run :
  forall (pre : bytes -> N) (c : cfg) (src : list sitem) (a : arch) (phi : list fault)
         (i j : nat) (f : fpath) (p1 : payload) (m1 : wmode) (p2 : payload) (m2 : wmode),
    (i < j)%nat ->
    nth_error (fst (fst (run pre (backup_prog pre c src) a phi))) i = Some (OpWrite f p1 m1, ROk) ->
    nth_error (fst (fst (run pre (backup_prog pre c src) a phi))) j = Some (OpWrite f p2 m2, ROk) -> False.
Proof. exact backup_written_at_most_once. Qed.
Print Assumptions C14_each_block_written_at_most_once_per_run.

(* Backing up a tree that has not changed since the newest complete version — with ANY option
   values — writes no data block at all, and every file entry it records has the previous
   version's addresses. *)
Theorem C14_unchanged_tree_writes_no_blocks :
  forall (pre : bytes -> N) (c : cfg) (a0 : arch) (b : N),
    WFidx a0 -> complete a0 b -> AInv a0 -> BlocksInDirs pre a0 ->
    has_dir a0 (DBand b) = true /\ (forall b' : N, has_dir a0 (DBand b') = true -> (b' <= b)%N) ->
    asorted (map e_apath (band_entries a0 b)) ->
    forall src : list sitem,
      asorted (map (fun it : sitem => s_apath (si_e it)) src) ->
      (forall it : sitem, In it src -> Match (band_entries a0 b) it) ->
      Forall (fun x : op * reply => okop a0 b (fst x)) (fst (fst (run pre (backup_prog pre c src) a0 []))).
Proof. exact unchanged_tree_no_block_writes. Qed.
Print Assumptions C14_unchanged_tree_writes_no_blocks.
