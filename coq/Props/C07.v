(* C07 — Archive files are write-once: backup never alters or removes existing files. *)
From CV Require Import Base.Str Apath Entry Store StitchProg Backup Ops Delete Read SafeP.

(* Whatever happens — any sequence of storage failures, a kill at any operation, a kill
   that leaves an empty file — every file that existed (non-empty) before a backup still
   exists with identical content at EVERY intermediate state and at the end; directories
   only appear. *)
Theorem C07_backup_never_alters_existing_files :
  forall (pre : bytes -> N) (c : cfg) (src : list sitem) (a0 : arch) (phi : list fault),
    Forall (Old a0) (run_states pre (backup_prog pre c src) a0 phi) /\
    Old a0 (snd (fst (run pre (backup_prog pre c src) a0 phi))).
Proof. exact backup_write_once. Qed.
Print Assumptions C07_backup_never_alters_existing_files.

(* A backup emits only reads, mkdir and CreateNew writes: no removal, no overwrite. *)
Theorem C07_backup_only_adds : forall (pre : bytes -> N) (c : cfg) (src : list sitem),
  emits_only add_only (backup_prog pre c src).
Proof. exact backup_emits_add_only. Qed.
Print Assumptions C07_backup_only_adds.

(* No path is successfully written twice within a run ... *)
Theorem C07_no_path_written_twice :
  forall (pre : bytes -> N) (c : cfg) (src : list sitem) (a : arch) (phi : list fault)
         (i j : nat) (f : fpath) (p1 : payload) (m1 : wmode) (p2 : payload) (m2 : wmode),
    (i < j)%nat ->
    nth_error (fst (fst (run pre (backup_prog pre c src) a phi))) i = Some (OpWrite f p1 m1, ROk) ->
    nth_error (fst (fst (run pre (backup_prog pre c src) a phi))) j = Some (OpWrite f p2 m2, ROk) -> False.
Proof. exact backup_written_at_most_once. Qed.
Print Assumptions C07_no_path_written_twice.

(* ... and a successful write only ever creates a file or completes a zero-length leftover. *)
Theorem C07_writes_create_or_complete_leftover :
  forall (pre : bytes -> N) (c : cfg) (src : list sitem) (a : arch) (phi : list fault)
         (i : nat) (f : fpath) (pl : payload) (m : wmode),
    nth_error (fst (fst (run pre (backup_prog pre c src) a phi))) i = Some (OpWrite f pl m, ROk) ->
    exists ab : arch,
      state_before pre (backup_prog pre c src) a phi i = Some ab /\
      (get ab f = None \/ get ab f = Some Empty).
Proof. exact backup_no_path_written_twice. Qed.
Print Assumptions C07_writes_create_or_complete_leftover.

(* The new version's id is above every existing one (as listed just before). *)
Theorem C07_new_band_id_fresh :
  forall (pre : bytes -> N) (c : cfg) (src : list sitem) (a : arch) (phi : list fault)
         (i : nat) (id : N) (rep : reply),
    nth_error (fst (fst (run pre (backup_prog pre c src) a phi))) i = Some (OpMkdir (DBand id), rep) ->
    exists (j : nat) (ds : list dpath) (fs : list (fpath * bool)),
      (j < i)%nat /\
      nth_error (fst (fst (run pre (backup_prog pre c src) a phi))) j = Some (OpList DRoot, RList ds fs) /\
      (forall b : N, In (DBand b) ds -> (b < id)%N).
Proof. exact backup_band_fresh. Qed.
Print Assumptions C07_new_band_id_fresh.

(* Every band file a backup writes lies in the band it created itself in this run. *)
Theorem C07_backup_writes_only_its_own_band :
  forall (pre : bytes -> N) (c : cfg) (src : list sitem) (a : arch) (phi : list fault)
         (i : nat) (o : op) (rep : reply) (b : N),
    nth_error (fst (fst (run pre (backup_prog pre c src) a phi))) i = Some (o, rep) ->
    band_of_op o = Some b ->
    exists j : nat, (j < i)%nat /\
      nth_error (fst (fst (run pre (backup_prog pre c src) a phi))) j = Some (OpMkdir (DBand b), ROk).
Proof. exact backup_writes_in_new_band. Qed.
Print Assumptions C07_backup_writes_only_its_own_band.

(* Only an explicit delete removes, and then only the requested versions' directories,
   block files, and its own lock. *)
Theorem C07_delete_removes_only : forall (ids : list N) (dry brk : bool) (hint : list bytes),
  emits_only (delete_op ids) (delete_prog ids dry brk hint).
Proof. exact delete_emits. Qed.
Print Assumptions C07_delete_removes_only.

(* ---- two backups racing on one archive, for EVERY interleaving of their storage
        operations (run2: an arbitrary schedule sigma).  The atomicity of one storage
        operation, which run2 takes for granted, is what the exclusive-creation stress in
        the C07 check observes on the implementation. ---- *)
From Coq Require Import List NArith.
From CV Require Import Race RaceP Race2 Race2P.
Local Open Scope N_scope.

(* Nothing that existed is altered or removed, at any point of the race. *)
Theorem C07_race_existing_files_kept :
  forall (pre : bytes -> N) (c1 : cfg) (src1 : list sitem) (c2 : cfg) (src2 : list sitem) (a0 : arch) (sigma : list bool),
    let x := run2 pre (backup_prog pre c1 src1) (backup_prog pre c2 src2) a0 sigma in
    Forall (Old a0) (trace_states pre a0 (tr2 x))
    /\ last (trace_states pre a0 (tr2 x)) a0 = st2 x
    /\ (forall f c, get a0 f = Some c -> nonempty c = true -> get (st2 x) f = Some c)
    /\ (forall d, has_dir a0 d = true -> has_dir (st2 x) d = true)
    /\ (forall f, get a0 f = Some Empty ->
          get (st2 x) f = Some Empty
          \/ exists who pl, In (who, (OpWrite f pl CreateNew, ROk)) (tr2 x) /\ get (st2 x) f = Some (Good pl)).
Proof. exact race_existing_files_kept. Qed.
Print Assumptions C07_race_existing_files_kept.

(* No path receives two successful writes, by one actor or by both. *)
Theorem C07_race_no_path_written_twice :
  forall (pre : bytes -> N) (c1 : cfg) (src1 : list sitem) (c2 : cfg) (src2 : list sitem) (a0 : arch) (sigma : list bool)
         (i j : nat) (x y : bool) (f : fpath) (p1 : payload) (m1 : wmode) (p2 : payload) (m2 : wmode),
    let tr := tr2 (run2 pre (backup_prog pre c1 src1) (backup_prog pre c2 src2) a0 sigma) in
    (i < j)%nat ->
    nth_error tr i = Some (x, (OpWrite f p1 m1, ROk)) ->
    nth_error tr j = Some (y, (OpWrite f p2 m2, ROk)) -> False.
Proof. exact race_no_path_written_twice. Qed.
Print Assumptions C07_race_no_path_written_twice.

(* No version receives files from both backups. *)
Theorem C07_race_versions_not_shared :
  forall (pre : bytes -> N) (c1 : cfg) (src1 : list sitem) (c2 : cfg) (src2 : list sitem) (a0 : arch) (sigma : list bool)
         (b : N) (i j : nat) (o1 o2 : op),
    let tr := tr2 (run2 pre (backup_prog pre c1 src1) (backup_prog pre c2 src2) a0 sigma) in
    nth_error tr i = Some (false, (o1, ROk)) -> band_put o1 = Some b ->
    nth_error tr j = Some (true, (o2, ROk)) -> band_put o2 = Some b -> False.
Proof. exact race_bands_not_shared. Qed.
Print Assumptions C07_race_versions_not_shared.

(* The loser fails: the backup whose BANDHEAD write is refused returns the error result and
   NONE of its writes succeeded, before or after. *)
Theorem C07_race_loser_fails :
  forall (pre : bytes -> N) (c1 : cfg) (src1 : list sitem) (c2 : cfg) (src2 : list sitem) (a0 : arch) (sigma : list bool)
         (x : bool) (b : N) (pl : payload) (m : wmode) (rep : reply),
    let X := run2 pre (backup_prog pre c1 src1) (backup_prog pre c2 src2) a0 sigma in
    In (x, (OpWrite (PHead b) pl m, rep)) (tr2 X) -> rep <> ROk ->
    out_of x X = Store.Done fail0 /\ (forall o r, In (x, (o, r)) (tr2 X) -> is_write o = true -> r <> ROk).
Proof. exact race_loser_fails. Qed.
Print Assumptions C07_race_loser_fails.

(* When both pick the same id: both create_dir calls succeed (create_dir accepts an existing
   directory), both try to write BANDHEAD, exactly one succeeds and the other fails as above. *)
Theorem C07_race_same_id :
  forall (pre : bytes -> N) (c1 : cfg) (src1 : list sitem) (c2 : cfg) (src2 : list sitem) (a0 : arch) (sigma : list bool)
         (b : N) (r1 r2 : reply),
    let X := run2 pre (backup_prog pre c1 src1) (backup_prog pre c2 src2) a0 sigma in
    In (false, (OpMkdir (DBand b), r1)) (tr2 X) -> In (true, (OpMkdir (DBand b), r2)) (tr2 X) ->
    r1 = ROk /\ r2 = ROk
    /\ (exists h1 h2, In (false, (head_w b, h1)) (tr2 X) /\ In (true, (head_w b, h2)) (tr2 X)
                      /\ ~ (h1 = ROk /\ h2 = ROk))
    /\ (Conf.WFparents pre a0 ->
        exists w, In (w, (head_w b, ROk)) (tr2 X) /\ In (negb w, (head_w b, RErr EAlreadyExists)) (tr2 X)
                  /\ out_of (negb w) X = Store.Done fail0
                  /\ (forall o r, In (negb w, (o, r)) (tr2 X) -> is_write o = true -> r <> ROk)).
Proof. exact race_same_id. Qed.
Print Assumptions C07_race_same_id.

(* Both new ids are above every existing version. *)
Theorem C07_race_band_ids_fresh :
  forall (pre : bytes -> N) (c1 : cfg) (src1 : list sitem) (c2 : cfg) (src2 : list sitem) (a0 : arch) (sigma : list bool)
         (x : bool) (id : N) (rep : reply) (b : N),
    In (x, (OpMkdir (DBand id), rep)) (tr2 (run2 pre (backup_prog pre c1 src1) (backup_prog pre c2 src2) a0 sigma)) ->
    has_dir a0 (DBand b) = true -> b < id.
Proof. exact race_band_ids_fresh. Qed.
Print Assumptions C07_race_band_ids_fresh.
