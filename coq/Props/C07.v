(* C07 — Archive files are write-once: backup never alters or removes existing files. *)
From CV Require Import Base.Str Apath Entry Store StitchProg Backup Ops Delete Read SafeP.

(* Whatever happens — any sequence of storage failures, a kill at any operation, a kill
   that leaves an empty file — every file that existed (non-empty) before a backup still
   exists with identical content at EVERY intermediate state and at the end; directories
   only appear. *)
Theorem C07_backup_never_alters_existing_files :
  forall (pre : bytes -> N) (c : cfg) (src : list sitem) (a0 : arch) (phi : list fault),
    Forall (Old a0) (run_states pre (backup_prog pre c src) a0 phi) /\
    Old a0 (snd (fst (run pre (backup_prog pre c src) a0 phi))).
Proof. exact backup_write_once. Qed.
Print Assumptions C07_backup_never_alters_existing_files.

(* A backup emits only reads, mkdir and CreateNew writes: no removal, no overwrite. *)
Theorem C07_backup_only_adds : forall (pre : bytes -> N) (c : cfg) (src : list sitem),
  emits_only add_only (backup_prog pre c src).
Proof. exact backup_emits_add_only. Qed.
Print Assumptions C07_backup_only_adds.

(* No path is successfully written twice within a run ... *)
Theorem C07_no_path_written_twice :
  forall (pre : bytes -> N) (c : cfg) (src : list sitem) (a : arch) (phi : list fault)
         (i j : nat) (f : fpath) (p1 : payload) (m1 : wmode) (p2 : payload) (m2 : wmode),
    (i < j)%nat ->
    nth_error (fst (fst (run pre (backup_prog pre c src) a phi))) i = Some (OpWrite f p1 m1, ROk) ->
    nth_error (fst (fst (run pre (backup_prog pre c src) a phi))) j = Some (OpWrite f p2 m2, ROk) -> False.
Proof. exact backup_written_at_most_once. Qed.
Print Assumptions C07_no_path_written_twice.

(* ... and a successful write only ever creates a file or completes a zero-length leftover. *)
Theorem C07_writes_create_or_complete_leftover :
  forall (pre : bytes -> N) (c : cfg) (src : list sitem) (a : arch) (phi : list fault)
         (i : nat) (f : fpath) (pl : payload) (m : wmode),
    nth_error (fst (fst (run pre (backup_prog pre c src) a phi))) i = Some (OpWrite f pl m, ROk) ->
    exists ab : arch,
      state_before pre (backup_prog pre c src) a phi i = Some ab /\
      (get ab f = None \/ get ab f = Some Empty).
Proof. exact backup_no_path_written_twice. Qed.
Print Assumptions C07_writes_create_or_complete_leftover.

(* The new version's id is above every existing one (as listed just before). *)
Theorem C07_new_band_id_fresh :
  forall (pre : bytes -> N) (c : cfg) (src : list sitem) (a : arch) (phi : list fault)
         (i : nat) (id : N) (rep : reply),
    nth_error (fst (fst (run pre (backup_prog pre c src) a phi))) i = Some (OpMkdir (DBand id), rep) ->
    exists (j : nat) (ds : list dpath) (fs : list (fpath * bool)),
      (j < i)%nat /\
      nth_error (fst (fst (run pre (backup_prog pre c src) a phi))) j = Some (OpList DRoot, RList ds fs) /\
      (forall b : N, In (DBand b) ds -> (b < id)%N).
Proof. exact backup_band_fresh. Qed.
Print Assumptions C07_new_band_id_fresh.

(* Every band file a backup writes lies in the band it created itself in this run. *)
Theorem C07_backup_writes_only_its_own_band :
  forall (pre : bytes -> N) (c : cfg) (src : list sitem) (a : arch) (phi : list fault)
         (i : nat) (o : op) (rep : reply) (b : N),
    nth_error (fst (fst (run pre (backup_prog pre c src) a phi))) i = Some (o, rep) ->
    band_of_op o = Some b ->
    exists j : nat, (j < i)%nat /\
      nth_error (fst (fst (run pre (backup_prog pre c src) a phi))) j = Some (OpMkdir (DBand b), ROk).
Proof. exact backup_writes_in_new_band. Qed.
Print Assumptions C07_backup_writes_only_its_own_band.

(* Only an explicit delete removes, and then only the requested versions' directories,
   block files, and its own lock. *)
Theorem C07_delete_removes_only : forall (ids : list N) (dry brk : bool) (hint : list bytes),
  emits_only (delete_op ids) (delete_prog ids dry brk hint).
Proof. exact delete_emits. Qed.
Print Assumptions C07_delete_removes_only.
