(* C08 — Listing a version follows the stitching rule and is strictly ordered.
   Instantiated at keys = apaths ordered by the implemented comparison; entries
   and their key projection are arbitrary. *)
From Coq Require Import Sorted.
From CV Require Import Base.Str Base.Order Apath ApathP Stitch StitchInst StitchP.

Section C08.
  Context {E : Type} (key : E -> str).
  Notation arch := (Stitch.arch E).

  (* The implemented state machine (IndexHunkIter + Stitch, quirks included)
     computes the documented stitching rule, for every arrangement of bands and
     every hunk layout in which each band's own index is sorted. *)
  Theorem C08_stitch_is_the_rule : forall (a : arch) (n : nat),
    BandsSorted str apath_cmp E key a ->
    stitch_start str apath_cmp E key a n = stitch_spec str apath_cmp E key a n None.
  Proof. exact (stitch_eq_spec str apath_cmp E key apath_order). Qed.

  (* ... where the rule is: N's own entries after the last path taken so far, then, if N is
     not closed, the same from the nearest earlier existing band, recursively. *)
  Theorem C08_rule_equation : forall (a : arch) (n : nat) (after : option str),
    stitch_spec str apath_cmp E key a n after =
    (let es := filter (gt_after str apath_cmp E key after) (entries E a n) in
     es ++ (if band_closed a n then []
            else match previous_existing_band a n with
                 | Some p => stitch_spec str apath_cmp E key a p
                               (max_after str apath_cmp after (last_key str E key es))
                 | None => []
                 end)).
  Proof. exact (stitch_spec_eqn str apath_cmp E key). Qed.

  (* Strictly increasing in path order (hence no duplicates). *)
  Theorem C08_strictly_ordered : forall (a : arch) (n : nat),
    BandsSorted str apath_cmp E key a ->
    StronglySorted (klt str apath_cmp) (map key (stitch_start str apath_cmp E key a n)).
  Proof. exact (stitch_strictly_sorted str apath_cmp E key apath_order). Qed.

  (* Every listed entry comes unmodified from the newest band on the descent chain whose
     index reaches its path — and every such entry is listed. *)
  Theorem C08_provenance : forall (a : arch) (n : nat),
    BandsSorted str apath_cmp E key a ->
    forall e : E,
      In e (stitch_start str apath_cmp E key a n) <->
      (exists m : nat,
          OnChain E a n m /\ In e (entries E a m) /\
          (forall m' : nat, OnChain E a n m' -> (m < m')%nat ->
                            AllBelow str apath_cmp E key (entries E a m') e)).
  Proof. exact (stitch_provenance str apath_cmp E key apath_order). Qed.

  (* A complete version is exactly its own index. *)
  Theorem C08_complete_band_is_own_index : forall (a : arch) (n : nat),
    band_opens a n = true -> band_closed a n = true ->
    stitch_start str apath_cmp E key a n = entries E a n.
  Proof. exact (stitch_complete_band str apath_cmp E key). Qed.

  (* Subtree / exclusion filters select from the unfiltered listing. *)
  Theorem C08_filter_commutes : forall (keep : E -> bool) (a : arch) (n : nat),
    stitch_keep str apath_cmp E key keep a n = filter keep (stitch_start str apath_cmp E key a n).
  Proof. exact (stitch_filter str apath_cmp E key). Qed.

  (* Termination: the listing function is a structural recursion (band number, then hunks);
     the literal state machine reaches the same result within 2n+2 steps. *)
  Theorem C08_terminates : forall (keep : E -> bool) (a : arch) (n fuel : nat) (last : option str),
    (2 * n + 2 <= fuel)%nat ->
    machine_run str apath_cmp E key fuel keep a (BeforeBand n) last =
    Some (stitch_from str apath_cmp E key keep a n last).
  Proof. exact (machine_eq_stitch str apath_cmp E key). Qed.
End C08.

Print Assumptions C08_stitch_is_the_rule.
Print Assumptions C08_rule_equation.
Print Assumptions C08_strictly_ordered.
Print Assumptions C08_provenance.
Print Assumptions C08_complete_band_is_own_index.
Print Assumptions C08_filter_commutes.
Print Assumptions C08_terminates.
