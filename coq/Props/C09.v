(* C09 — Validate is accurate: silent on healthy archives, loud on damage. *)
From Coq Require Import List NArith.
From CV Require Import Base.Str Apath Entry Store StitchProg Ops Delete Read Inv Valid ValidP.
Local Open Scope N_scope.

(* Silent: an archive whose directory structure is well-formed, whose entries all read back
   (AInv), whose header is there and whose bands each have a readable head, decodable hunks
   numbered 0..n-1 and either no tail or a tail stating n, validates with NO error: full or
   quick validation, whatever the iteration order of the block set. *)
Theorem C09_validate_healthy_silent :
  forall (pre : bytes -> N) (a : arch) (skip : bool) (hint : list bytes),
    Healthy pre a ->
    exists tr, run pre (validate_prog skip hint) a [] = (tr, a, Done {| v_ok := true; v_errors := 0 |}).
Proof. exact validate_healthy_silent. Qed.
Print Assumptions C09_validate_healthy_silent.

(* The boolean checker the correspondence check evaluates on every archive state that the
   implementation produced is sound for [Healthy]. *)
Theorem C09_healthy_checker_sound :
  forall (pre : bytes -> N) (a : arch), healthy_b pre a = true -> Healthy pre a.
Proof. exact healthy_b_sound. Qed.
Print Assumptions C09_healthy_checker_sound.

(* Loud: after ONE file of a healthy archive is removed, emptied, replaced by garbage or
   (a block) by other bytes, validation ends normally and reports at least one error when the
   file is
   - a band head;
   - an index hunk that is still there (emptied / garbage), or lost from a band that has a
     tail, or lost from below another hunk of its band;
   - a block some file entry names: lost (also found by quick validation), or emptied,
     garbage or altered (found when the blocks are read). *)
Theorem C09_damage_reported_by_validate :
  forall (pre : bytes -> N) (a : arch) (f : fpath) (a' : arch) (skip : bool) (hint : list bytes),
    Healthy pre a -> damaged a f a' ->
    match f with
    | PHead b => True
    | PHunk b h => get a' f <> None \/ get a (PTail b) <> None \/ (exists j, h < j /\ get a (PHunk b j) <> None)
    | PBlock c => (exists b h, names_block a b h c) /\ (skip = false \/ get a' f = None)
    | _ => False
    end ->
    exists tr r, run pre (validate_prog skip hint) a' [] = (tr, a', Done r) /\ 0 < v_errors r.
Proof. exact damage_reported_by_validate. Qed.
Print Assumptions C09_damage_reported_by_validate.

(* The exceptions are real (known finding F14 and the documented limits of quick
   validation): the LAST hunk of a band without a tail can vanish unnoticed; a corrupt (not
   lost) block is not found without reading the blocks; a lost or undecodable tail is never
   an error (the band reads as the legal 'incomplete' state). *)
Theorem C09_missing_last_hunk_of_open_band_refuted :
  exists pre a b h a',
    Healthy pre a /\ damaged a (PHunk b h) a' /\ get a' (PHunk b h) = None
    /\ validate_pure pre a' false [] = {| v_ok := true; v_errors := 0 |}.
Proof. exact ValidExamples.validate_missing_last_hunk_refuted. Qed.
Print Assumptions C09_missing_last_hunk_of_open_band_refuted.

Theorem C09_corrupt_block_quick_validation_refuted :
  exists pre a c a',
    Healthy pre a /\ damaged a (PBlock c) a' /\ (exists b h, names_block a b h c)
    /\ get a' (PBlock c) = Some Garbage
    /\ validate_pure pre a' true [] = {| v_ok := true; v_errors := 0 |}.
Proof. exact ValidExamples.validate_corrupt_block_skip_refuted. Qed.
Print Assumptions C09_corrupt_block_quick_validation_refuted.

Theorem C09_tail_damage_silent :
  forall (pre : bytes -> N) (a : arch) (b : N) (a' : arch) (skip : bool) (hint : list bytes),
    Healthy pre a -> damaged a (PTail b) a' ->
    validate_pure pre a' skip hint = {| v_ok := true; v_errors := 0 |}.
Proof. exact validate_tail_damage_silent. Qed.
Print Assumptions C09_tail_damage_silent.

(* validate_prog computes validate_pure in every state. *)
Theorem C09_validate_prog_is_validate_pure :
  forall (pre : bytes -> N) (a : arch) (skip : bool) (hint : list bytes),
    exists tr, run pre (validate_prog skip hint) a [] = (tr, a, Done (validate_pure pre a skip hint)).
Proof. exact validate_run. Qed.
Print Assumptions C09_validate_prog_is_validate_pure.
