(* C09 — Validate is accurate: silent on healthy archives, loud on damage. *)
From Coq Require Import List NArith.
From CV Require Import Base.Str Apath Entry Store StitchProg Ops Delete Read Inv Valid ValidP.
Local Open Scope N_scope.

(* Silent: an archive whose directory structure is well-formed, whose entries all read back
   (AInv), whose header is there and whose bands each have a readable head, decodable hunks
   numbered 0..n-1 and either no tail or a tail stating n, validates with NO error: full or
   quick validation, whatever the iteration order of the block set. *)
Theorem C09_validate_healthy_silent :
  forall (pre : bytes -> N) (a : arch) (skip : bool) (hint : list bytes),
    Healthy pre a ->
    exists tr, run pre (validate_prog skip hint) a [] = (tr, a, Done {| v_ok := true; v_errors := 0 |}).
Proof. exact validate_healthy_silent. Qed.
Print Assumptions C09_validate_healthy_silent.

(* The boolean checker the correspondence check evaluates on every archive state that the
   implementation produced is sound for [Healthy]. *)
Theorem C09_healthy_checker_sound :
  forall (pre : bytes -> N) (a : arch), healthy_b pre a = true -> Healthy pre a.
Proof. exact healthy_b_sound. Qed.
Print Assumptions C09_healthy_checker_sound.

(* Loud: after ONE file of a healthy archive is removed, emptied, replaced by garbage or
   (a block) by other bytes, validation ends normally and reports at least one error when the
   file is
   - a band head;
   - an index hunk that is still there (emptied / garbage), or lost from a band that has a
     tail, or lost from below another hunk of its band;
   - a block some file entry names: lost (also found by quick validation), or emptied,
     garbage or altered (found when the blocks are read). *)
Theorem C09_damage_reported_by_validate :
  forall (pre : bytes -> N) (a : arch) (f : fpath) (a' : arch) (skip : bool) (hint : list bytes),
    Healthy pre a -> damaged a f a' ->
    match f with
    | PHead b => True
    | PHunk b h => get a' f <> None \/ get a (PTail b) <> None \/ (exists j, h < j /\ get a (PHunk b j) <> None)
    | PBlock c => (exists b h, names_block a b h c) /\ (skip = false \/ get a' f = None)
    | _ => False
    end ->
    exists tr r, run pre (validate_prog skip hint) a' [] = (tr, a', Done r) /\ 0 < v_errors r.
Proof. exact damage_reported_by_validate. Qed.
Print Assumptions C09_damage_reported_by_validate.

(* The exceptions are real (known finding F14 and the documented limits of quick
   validation): the LAST hunk of a band without a tail can vanish unnoticed; a corrupt (not
   lost) block is not found without reading the blocks; a lost or undecodable tail is never
   an error (the band reads as the legal 'incomplete' state). *)
Theorem C09_missing_last_hunk_of_open_band_refuted :
  exists pre a b h a',
    Healthy pre a /\ damaged a (PHunk b h) a' /\ get a' (PHunk b h) = None
    /\ validate_pure pre a' false [] = {| v_ok := true; v_errors := 0 |}.
Proof. exact ValidExamples.validate_missing_last_hunk_refuted. Qed.
Print Assumptions C09_missing_last_hunk_of_open_band_refuted.

Theorem C09_corrupt_block_quick_validation_refuted :
  exists pre a c a',
    Healthy pre a /\ damaged a (PBlock c) a' /\ (exists b h, names_block a b h c)
    /\ get a' (PBlock c) = Some Garbage
    /\ validate_pure pre a' true [] = {| v_ok := true; v_errors := 0 |}.
Proof. exact ValidExamples.validate_corrupt_block_skip_refuted. Qed.
Print Assumptions C09_corrupt_block_quick_validation_refuted.

Theorem C09_tail_damage_silent :
  forall (pre : bytes -> N) (a : arch) (b : N) (a' : arch) (skip : bool) (hint : list bytes),
    Healthy pre a -> damaged a (PTail b) a' ->
    validate_pure pre a' skip hint = {| v_ok := true; v_errors := 0 |}.
Proof. exact validate_tail_damage_silent. Qed.
Print Assumptions C09_tail_damage_silent.

(* validate_prog computes validate_pure in every state. *)
Theorem C09_validate_prog_is_validate_pure :
  forall (pre : bytes -> N) (a : arch) (skip : bool) (hint : list bytes),
    exists tr, run pre (validate_prog skip hint) a [] = (tr, a, Done (validate_pure pre a skip hint)).
Proof. exact validate_run. Qed.
Print Assumptions C09_validate_prog_is_validate_pure.

(* ---- healthy side, as an invariant of the operations ---- *)
From CV Require Import Backup Truth Healthy HealthyP.

(* Every archive state reached from a fresh [init] by ANY history of completed backups (any
   source, any configuration), backups killed after their band header was written (or before
   anything was created), deletes of any set of versions and gc (any iteration order) is
   Healthy ... *)
Theorem C09_history_states_healthy : forall (pre : bytes -> N) (l : list hop),
  history_ok pre (init_state pre) l ->
  Forall (Valid.Healthy pre) (history_states pre (init_state pre) l)
  /\ Valid.Healthy pre (run_history pre (init_state pre) l).
Proof. exact history_healthy. Qed.
Print Assumptions C09_history_states_healthy.

(* ... hence validation of it, full or quick, reports no error. *)
Theorem C09_history_states_validate_silently :
  forall (pre : bytes -> N) (l : list hop) (a : arch) (skip : bool) (hint : list bytes),
    history_ok pre (init_state pre) l ->
    In a (history_states pre (init_state pre) l) ->
    exists tr, run pre (validate_prog skip hint) a [] = (tr, a, Done {| v_ok := true; v_errors := 0 |}).
Proof. exact history_validates. Qed.
Print Assumptions C09_history_states_validate_silently.

(* One backup, in full: from a healthy archive, for ANY fault list without a kill that leaves
   a zero-length file (I/O failures on any operations, a kill anywhere), every state passed
   through is healthy up to a file-less newest band directory, and healthy as soon as the new
   band has its head. *)
Theorem C09_backup_keeps_healthy :
  forall (pre : bytes -> N) (c : cfg) (src : list sitem) (a0 : arch) (phi : list fault),
    Valid.Healthy pre a0 -> no_torn phi ->
    Forall (fun a => HealthyUH pre a /\ (get a (PHead (new_band a0)) <> None -> Valid.Healthy pre a))
           (run_states pre (backup_prog pre c src) a0 phi)
    /\ HealthyUH pre (Healthy.final pre (backup_prog pre c src) a0 phi)
    /\ (get (Healthy.final pre (backup_prog pre c src) a0 phi) (PHead (new_band a0)) <> None ->
        Valid.Healthy pre (Healthy.final pre (backup_prog pre c src) a0 phi)).
Proof. exact backup_uh. Qed.
Print Assumptions C09_backup_keeps_healthy.

(* Delete / gc keeps the archive healthy at every point of every run, whatever fails. *)
Theorem C09_delete_keeps_healthy :
  forall (pre : bytes -> N) (ids : list N) (dry brk : bool) (hint : list bytes) (a0 : arch) (phi : list fault),
    Valid.Healthy pre a0 ->
    Forall (Valid.Healthy pre) (run_states pre (delete_prog ids dry brk hint) a0 phi)
    /\ Valid.Healthy pre (snd (fst (run pre (delete_prog ids dry brk hint) a0 phi))).
Proof. exact delete_healthy_all. Qed.
Print Assumptions C09_delete_keeps_healthy.

(* The excluded case is reported: a band directory without a head (a backup killed before it
   wrote its header) makes validation report an error. *)
Theorem C09_headless_band_reported :
  forall (pre : bytes -> N) (a : arch) (b : N) (skip : bool) (hint : list bytes),
    HealthyUH pre a -> In (DBand b) (dirs a) -> get a (PHead b) = None ->
    1 <= v_errors (validate_pure pre a skip hint).
Proof. exact headless_band_reported. Qed.
Print Assumptions C09_headless_band_reported.
