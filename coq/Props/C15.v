(* C15 — Exclusions mean the same thing at backup, list and restore time. *)
From CV Require Import Base.Str Apath ApathP Glob GlobP Tree TreeP Stitch StitchP ExclP.

(* If a path (other than the root, which is never tested) is excluded, so is everything
   beneath it by whole components — for EVERY list of pattern strings the (modelled)
   globset parser accepts, conserve's anchoring and "/**" extension included. *)
Theorem C15_excluded_subtrees_are_closed : forall (pats : list str) (a b : str),
  is_valid a = true -> is_valid b = true -> a <> [SLASH] ->
  excl_str pats a = XBool true ->
  comp_prefix (comps a) (comps b) = true -> excl_str pats b = XBool true.
Proof. exact excl_str_ancestor_closed. Qed.
Print Assumptions C15_excluded_subtrees_are_closed.

(* Backup time: pruning excluded directories during the source walk stores exactly the
   entries below the root that filtering the full walk would keep — for all trees. *)
Theorem C15_backup_prune_is_filter : forall (M : Type) (pats : list str) (t : tree M),
  WFtree t ->
  tl (walk_rec (excl_text pats) t)
  = filter (fun it => negb (excl_text pats (path it))) (tl (walk_rec (fun _ => false) t)).
Proof. exact (@walk_excl_text_eq_filter). Qed.
Print Assumptions C15_backup_prune_is_filter.

(* List / restore time: the exclusion is applied to each listed entry, so the
   result is the filter of the unfiltered listing of that version. *)
Theorem C15_list_exclusion_is_filter :
  forall (E : Type) (key : E -> str) (keep : E -> bool) (a : Stitch.arch E) (n : nat),
  stitch_keep str apath_cmp E key keep a n = filter keep (stitch_start str apath_cmp E key a n).
Proof. exact (stitch_filter str apath_cmp). Qed.
Print Assumptions C15_list_exclusion_is_filter.

(* The pattern grammar (literals, ?, *, **, classes, anchoring): printing a pattern
   and handing it to the parser yields the AST's meaning. *)
Theorem C15_printed_patterns_mean_their_ast : forall (ps : list pattern) (path : str),
  pats_ok ps -> excl_str (map show ps) path = XBool (excl ps path).
Proof. exact excl_str_show. Qed.
Print Assumptions C15_printed_patterns_mean_their_ast.

(* The root itself is the one place where closure fails (a pattern can match "/" alone);
   the walk never tests the root, which is why the property sets it aside. *)
Theorem C15_root_is_special :
  exists (ps : list pattern) (a b : str),
    pats_ok ps /\ is_valid a = true /\ is_valid b = true /\
    excl ps a = true /\ comp_prefix (comps a) (comps b) = true /\ excl ps b = false.
Proof. exact excl_ancestor_closed_refuted. Qed.
Print Assumptions C15_root_is_special.

(* ---- operational: the backup program, the archive, the restore / listing programs ---- *)
From Coq Require Import List NArith.
From CV Require Import Entry Store StitchProg Backup Read Conf Truth E2E Select SelectP.
Local Open Scope N_scope.

(* For ANY exclusion predicate x: (i) backing up the source WITH the exclusions and restoring
   everything, and (ii) backing up the FULL source and restoring with the exclusions, both
   succeed without error and return the same source items (those not excluded), in the same
   order, each with the source's metadata and bytes. *)
Theorem C15_exclusions_agree_between_backup_and_restore :
  forall (x : str -> bool) (pre : bytes -> N) (c : cfg) (src : list sitem) (a0 : Store.arch),
    Ready pre a0 -> SrcSorted src -> SrcValid src -> SrcWF src -> cfg_ok c ->
    (exists trE aE rE,
       run pre (backup_prog pre c (src_excl x src)) a0 [] = (trE, aE, Store.Done rE)
       /\ b_ok rE = true /\ b_errors rE = 0 /\ b_band rE = Some (new_band a0)
       /\ exists tr' rrE,
            run pre (restore_prog (Specified (new_band a0)) keep_all) aE [] = (tr', aE, Store.Done rrE)
            /\ r_ok rrE = true /\ r_merr rrE = 0
            /\ Forall2 (item_restored c a0) (known_items (src_excl x src)) (r_files rrE))
    /\
    (exists trF aF rF,
       run pre (backup_prog pre c src) a0 [] = (trF, aF, Store.Done rF)
       /\ b_ok rF = true /\ b_errors rF = 0 /\ b_band rF = Some (new_band a0)
       /\ exists tr' rrF,
            run pre (restore_prog (Specified (new_band a0)) (excl_keep x)) aF [] = (tr', aF, Store.Done rrF)
            /\ r_ok rrF = true /\ r_merr rrF = 0
            /\ Forall2 (item_restored c a0) (known_items (src_excl x src)) (r_files rrF)).
Proof. exact Select_exclusions_agree. Qed.
Print Assumptions C15_exclusions_agree_between_backup_and_restore.

(* ... and the two listings show the same paths. *)
Theorem C15_exclusions_agree_between_backup_and_listing :
  forall (x : str -> bool) (pre : bytes -> N) (c : cfg) (src : list sitem) (a0 : Store.arch),
    Ready pre a0 -> SrcSorted src -> SrcValid src -> SrcWF src -> cfg_ok c ->
    let aE := snd (fst (run pre (backup_prog pre c (src_excl x src)) a0 [])) in
    let aF := snd (fst (run pre (backup_prog pre c src) a0 [])) in
    exists trE lE trF lF,
      run pre (list_prog (Specified (new_band a0)) keep_all) aE [] = (trE, aE, Store.Done lE)
      /\ run pre (list_prog (Specified (new_band a0)) (excl_keep x)) aF [] = (trF, aF, Store.Done lF)
      /\ l_ok lE = true /\ l_ok lF = true /\ l_merr lE = 0 /\ l_merr lF = 0
      /\ map e_apath (l_entries lE) = map spath (known_items (src_excl x src))
      /\ map e_apath (l_entries lF) = map spath (known_items (src_excl x src)).
Proof. exact Select_exclusions_agree_listing. Qed.
Print Assumptions C15_exclusions_agree_between_backup_and_listing.

(* The source WITH exclusions is what the pruning walk yields (the root set aside). *)
Theorem C15_pruning_walk_yields_the_excluded_source :
  forall (M : Type) (mk : item M -> sitem) (pats : list str) (t : tree M),
    WFtree t -> (forall it, spath (mk it) = path it) ->
    map mk (walk_rec (excl_text pats) t)
    = src_excl_walk (excl_text pats) (map mk (walk_rec (fun _ => false) t)).
Proof. exact Select_walk_source_excl. Qed.
Print Assumptions C15_pruning_walk_yields_the_excluded_source.
