(* C15 — Exclusions mean the same thing at backup, list and restore time. *)
From CV Require Import Base.Str Apath ApathP Glob GlobP Tree TreeP Stitch StitchP ExclP.

(* If a path (other than the root, which is never tested) is excluded, so is everything
   beneath it by whole components — for EVERY list of pattern strings the (modelled)
   globset parser accepts, conserve's anchoring and "/**" extension included. *)
Theorem C15_excluded_subtrees_are_closed : forall (pats : list str) (a b : str),
  is_valid a = true -> is_valid b = true -> a <> [SLASH] ->
  excl_str pats a = XBool true ->
  comp_prefix (comps a) (comps b) = true -> excl_str pats b = XBool true.
Proof. exact excl_str_ancestor_closed. Qed.
Print Assumptions C15_excluded_subtrees_are_closed.

(* Backup time: pruning excluded directories during the source walk stores exactly the
   entries below the root that filtering the full walk would keep — for all trees. *)
Theorem C15_backup_prune_is_filter : forall (M : Type) (pats : list str) (t : tree M),
  WFtree t ->
  tl (walk_rec (excl_text pats) t)
  = filter (fun it => negb (excl_text pats (path it))) (tl (walk_rec (fun _ => false) t)).
Proof. exact (@walk_excl_text_eq_filter). Qed.
Print Assumptions C15_backup_prune_is_filter.

(* List / restore time: the exclusion is applied to each listed entry, so the
   result is the filter of the unfiltered listing of that version. *)
Theorem C15_list_exclusion_is_filter :
  forall (E : Type) (key : E -> str) (keep : E -> bool) (a : Stitch.arch E) (n : nat),
  stitch_keep str apath_cmp E key keep a n = filter keep (stitch_start str apath_cmp E key a n).
Proof. exact (stitch_filter str apath_cmp). Qed.
Print Assumptions C15_list_exclusion_is_filter.

(* The pattern grammar (literals, ?, *, **, classes, anchoring): printing a pattern
   and handing it to the parser yields the AST's meaning. *)
Theorem C15_printed_patterns_mean_their_ast : forall (ps : list pattern) (path : str),
  pats_ok ps -> excl_str (map show ps) path = XBool (excl ps path).
Proof. exact excl_str_show. Qed.
Print Assumptions C15_printed_patterns_mean_their_ast.

(* The root itself is the one place where closure fails (a pattern can match "/" alone);
   the walk never tests the root, which is why the property sets it aside. *)
Theorem C15_root_is_special :
  exists (ps : list pattern) (a b : str),
    pats_ok ps /\ is_valid a = true /\ is_valid b = true /\
    excl ps a = true /\ comp_prefix (comps a) (comps b) = true /\ excl ps b = false.
Proof. exact excl_ancestor_closed_refuted. Qed.
Print Assumptions C15_root_is_special.
