(* C18 — Diff and change reports agree with the real differences. *)
From CV Require Import Base.Str Apath ApathP Entry Diff DiffP.

(* Comparing a version with the very tree it was made from reports no change. *)
Theorem C18_self_diff_is_empty : forall (idx : list entry) (src : list sentry),
  Forall2 corresponds idx src ->
  Forall (fun a : entry => entry_okb a = true) idx ->
  diff false idx src = DOk [] /\
  (exists l, diff true idx src = DOk l /\ Forall2 unchanged_of idx l).
Proof. exact diff_self_unchanged. Qed.
Print Assumptions C18_self_diff_is_empty.

(* The comparison reports exactly the added, removed and differing paths, each
   with the right classification, for any two sorted streams. *)
Theorem C18_diff_exact : forall (inc : bool) (idx : list entry) (src : list sentry) (l : list (str * change)),
  SortedE idx -> SortedS src -> diff inc idx src = DOk l ->
  forall p : str,
    (forall m, In (p, Added m) l <-> (exists b, only_in_src idx src p b /\ meta_of_sentry b = DOk m)) /\
    (forall m, In (p, Deleted m) l <-> (exists a, only_in_idx idx src p a /\ meta_of_entry a = DOk m)) /\
    (forall mo mn, In (p, Changed mo mn) l <->
       (exists a b, in_both idx src p a b /\ differs a b /\ meta_of_entry a = DOk mo /\ meta_of_sentry b = DOk mn)) /\
    (forall m, In (p, Unchanged m) l <->
       inc = true /\ (exists a b, in_both idx src p a b /\ ~ differs a b /\ meta_of_entry a = DOk m)).
Proof. exact diff_exact. Qed.
Print Assumptions C18_diff_exact.

(* The merge underneath is an outer join of the two sorted streams. *)
Theorem C18_merge_outer_join : forall (idx : list entry) (src : list sentry),
  SortedE idx -> SortedS src ->
  let ms := merge idx src in
  SortedM ms /\
  (forall a b, In (MBoth a b) ms <-> In a idx /\ In b src /\ e_apath a = s_apath b) /\
  (forall a, In (MLeft a) ms <-> In a idx /\ (forall b, In b src -> s_apath b <> e_apath a)) /\
  (forall b, In (MRight b) ms <-> In b src /\ (forall a, In a idx -> e_apath a <> s_apath b)) /\
  lefts ms = idx /\ rights ms = src.
Proof. exact merge_outer_join. Qed.
Print Assumptions C18_merge_outer_join.

(* The diff and the backup's report never crash on well-formed entries. *)
Theorem C18_diff_total : forall (inc : bool) (idx : list entry) (src : list sentry),
  Forall (fun a : entry => entry_okb a = true) idx ->
  Forall (fun b : sentry => sentry_okb b = true) src ->
  exists l, diff inc idx src = DOk l.
Proof. exact diff_total. Qed.
Print Assumptions C18_diff_total.

(* The changes reported by the next backup are exactly the diff's report
   restricted to what a backup reports (files, and all deletions). *)
Theorem C18_backup_report_is_filtered_diff :
  forall (present : bytes -> bool) (idx : list entry) (src : list sentry) (bk df : list (str * change)),
  (forall a, In a idx -> basis_wf present a) ->
  backup_changes present idx src = DOk bk ->
  diff true idx src = DOk df -> bk = filter reported df.
Proof. exact backup_changes_equiv. Qed.
Print Assumptions C18_backup_report_is_filtered_diff.
