(* C04 — Storage errors never make the archive record wrong content or a false success. *)
From CV Require Import Base.Str Apath Entry Store StitchProg Backup SafeP Inv RefIntP.

(* For EVERY assignment of failures to storage operations (and kills): at every point no
   index entry anywhere — old or new version — refers to a block that is missing or
   shorter than the entry needs. *)
Theorem C04_never_a_dangling_reference :
  forall (pre : bytes -> N) (c : cfg) (src : list sitem) (a0 : arch) (phi : list fault),
    FilesND a0 -> BlocksWF a0 -> RefInt a0 ->
    Forall (fun a : arch => RefInt a /\ BlocksWF a) (run_states pre (backup_prog pre c src) a0 phi) /\
    RefInt (snd (fst (run pre (backup_prog pre c src) a0 phi))) /\
    BlocksWF (snd (fst (run pre (backup_prog pre c src) a0 phi))).
Proof. exact backup_refint. Qed.
Print Assumptions C04_never_a_dangling_reference.

(* Earlier versions are untouched whatever fails. *)
Theorem C04_earlier_versions_untouched :
  forall (pre : bytes -> N) (c : cfg) (src : list sitem) (a0 : arch) (phi : list fault),
    Forall (Old a0) (run_states pre (backup_prog pre c src) a0 phi) /\
    Old a0 (snd (fst (run pre (backup_prog pre c src) a0 phi))).
Proof. exact backup_write_once. Qed.
Print Assumptions C04_earlier_versions_untouched.

(* The no-duplicate-paths hypothesis is preserved by every program and is needed
   (the association-list representation would otherwise admit ghost files). *)
Theorem C04_state_wellformedness_preserved :
  forall (pre : bytes -> N) (R : Type) (p : prog R) (a : arch) (phi : list fault),
    FilesND a -> Forall FilesND (run_states pre p a phi) /\ FilesND (snd (fst (run pre p a phi))).
Proof. exact any_run_FilesND. Qed.
Print Assumptions C04_state_wellformedness_preserved.

(* ---- content half: what the new band records is TRUE, whatever fails ---- *)
From Coq Require Import List NArith.
From CV Require Import Stitch Codec Truth TruthP.
Local Open Scope N_scope.

(* From any archive with referential integrity, for ANY fault list (I/O errors on any
   operations, a kill anywhere, a kill leaving a zero-length file), at EVERY state the backup
   passes through and at the final one: every good index hunk is either one the archive
   already had, unchanged, or lies in the band this run creates, and every file entry in it
   has the path and metadata of a source file, reads back completely, and reads back to
   exactly the bytes read from that source file -- or carries the addresses of the entry of
   the same path, kind, mtime and size read from an EARLIER band. *)
Theorem C04_new_entries_truthful :
  forall (pre : bytes -> N) (c : cfg) (src : list sitem) (a0 : Store.arch) (phi : list fault),
    AInv a0 -> SrcOK src -> cfg_ok c ->
    Forall (HunksTruthful c src a0 (new_band a0)) (run_states pre (backup_prog pre c src) a0 phi)
    /\ HunksTruthful c src a0 (new_band a0) (snd (fst (run pre (backup_prog pre c src) a0 phi)))
    /\ (forall r b, snd (run pre (backup_prog pre c src) a0 phi) = Store.Done r ->
                    b_band r = Some b -> b = new_band a0).
Proof. exact backup_new_entries_truthful. Qed.
Print Assumptions C04_new_entries_truthful.

(* No false success: if, under ANY sequence of I/O failures, the backup returns reporting
   success with zero errors, then the band it names is closed by a tail that counts exactly
   its hunks 0..n-1 and the recorded paths are exactly (as a multiset) the paths of the
   source's files, directories and symlinks. *)
Theorem C04_success_means_complete :
  forall (pre : bytes -> N) (c : cfg) (src : list sitem) (a0 : Store.arch) (phi : list fault) (r : bres),
    (forall h, get a0 (PHunk (new_band a0) h) = None) ->
    snd (run pre (backup_prog pre c src) a0 phi) = Store.Done r ->
    b_ok r = true -> b_errors r = 0 ->
    Complete src (snd (fst (run pre (backup_prog pre c src) a0 phi))) (new_band a0)
    /\ b_band r = Some (new_band a0).
Proof. exact backup_success_complete. Qed.
Print Assumptions C04_success_means_complete.

(* ... equivalently: a source item that did not get recorded is always reported. *)
Theorem C04_skip_is_reported :
  forall (pre : bytes -> N) (c : cfg) (src : list sitem) (a0 : Store.arch) (phi : list fault) (r : bres) (it : sitem),
    (forall h, get a0 (PHunk (new_band a0) h) = None) ->
    snd (run pre (backup_prog pre c src) a0 phi) = Store.Done r ->
    In it src -> known_kind (s_kind (si_e it)) = true ->
    (forall e, Recorded (snd (fst (run pre (backup_prog pre c src) a0 phi))) (new_band a0) e ->
               e_apath e <> s_apath (si_e it)) ->
    b_ok r = false \/ 0 < b_errors r.
Proof. exact skip_is_reported. Qed.
Print Assumptions C04_skip_is_reported.

(* Storage errors never crash the backup. *)
Theorem C04_backup_never_panics :
  forall (pre : bytes -> N) (c : cfg) (src : list sitem) (a : Store.arch) (phi : list fault),
    snd (run pre (backup_prog pre c src) a phi) <> Panicked.
Proof. exact TruthP.never_panics. Qed.
Print Assumptions C04_backup_never_panics.
