(* C04 — Storage errors never make the archive record wrong content or a false success. *)
From CV Require Import Base.Str Apath Entry Store StitchProg Backup SafeP Inv RefIntP.

(* For EVERY assignment of failures to storage operations (and kills): at every point no
   index entry anywhere — old or new version — refers to a block that is missing or
   shorter than the entry needs. *)
Theorem C04_never_a_dangling_reference :
  forall (pre : bytes -> N) (c : cfg) (src : list sitem) (a0 : arch) (phi : list fault),
    FilesND a0 -> BlocksWF a0 -> RefInt a0 ->
    Forall (fun a : arch => RefInt a /\ BlocksWF a) (run_states pre (backup_prog pre c src) a0 phi) /\
    RefInt (snd (fst (run pre (backup_prog pre c src) a0 phi))) /\
    BlocksWF (snd (fst (run pre (backup_prog pre c src) a0 phi))).
Proof. exact backup_refint. Qed.
Print Assumptions C04_never_a_dangling_reference.

(* Earlier versions are untouched whatever fails. *)
Theorem C04_earlier_versions_untouched :
  forall (pre : bytes -> N) (c : cfg) (src : list sitem) (a0 : arch) (phi : list fault),
    Forall (Old a0) (run_states pre (backup_prog pre c src) a0 phi) /\
    Old a0 (snd (fst (run pre (backup_prog pre c src) a0 phi))).
Proof. exact backup_write_once. Qed.
Print Assumptions C04_earlier_versions_untouched.

(* The no-duplicate-paths hypothesis is preserved by every program and is needed
   (the association-list representation would otherwise admit ghost files). *)
Theorem C04_state_wellformedness_preserved :
  forall (pre : bytes -> N) (R : Type) (p : prog R) (a : arch) (phi : list fault),
    FilesND a -> Forall FilesND (run_states pre p a phi) /\ FilesND (snd (fst (run pre p a phi))).
Proof. exact any_run_FilesND. Qed.
Print Assumptions C04_state_wellformedness_preserved.
