(* C10 — Damage to one stored file is contained and never crashes the tool. *)
From Coq Require Import List NArith.
From CV Require Import Base.Str Apath Entry Store Stitch StitchProg Backup Ops Delete Read Inv RefIntP Valid ValidP Truth TruthP.
Local Open Scope N_scope.
Notation Done := Store.Done.

(* No operation panics: in ANY archive state (damaged in any way, not only one file) and
   whatever the storage answers to every single operation. *)
Theorem C10_readers_never_panic : forall (pre : bytes -> N) (a : arch) (phi : list fault),
  (forall p keep, snd (run pre (list_prog p keep) a phi) <> Panicked)
  /\ (forall p keep, snd (run pre (restore_prog p keep) a phi) <> Panicked)
  /\ (forall skip hint, snd (run pre (validate_prog skip hint) a phi) <> Panicked)
  /\ (forall ids dry brk hint, snd (run pre (delete_prog ids dry brk hint) a phi) <> Panicked)
  /\ snd (run pre init_prog a phi) <> Panicked.
Proof. exact ValidP.never_panics. Qed.
Print Assumptions C10_readers_never_panic.

Theorem C10_backup_never_panics : forall (pre : bytes -> N) (c : cfg) (src : list sitem) (a : arch) (phi : list fault),
  snd (run pre (backup_prog pre c src) a phi) <> Panicked.
Proof. exact TruthP.never_panics. Qed.
Print Assumptions C10_backup_never_panics.

(* Restoring a band that still opens, from an archive in ANY state: the run ends normally;
   an undecodable hunk, or one missing from a band whose tail counts it, is reported; a file
   entry with a missing, corrupt or short block is in the result as NOT restored and is
   reported; a file entry whose blocks are all there is restored with exactly the content its
   addresses denote. *)
Theorem C10_damage_reported_on_restore :
  forall (pre : bytes -> N) (a : arch) (keep : entry -> bool) (b : N),
    get a PHeader = Some (Good PlJson) -> opens_b a b = true -> In DBlocks (dirs a) ->
    exists tr r,
      run pre (restore_prog (Specified b) keep) a [] = (tr, a, Store.Done r) /\ r_ok r = true
      /\ (forall h, In (DHunkSub b (h / HUNKS_PER_SUBDIR)) (dirs a) -> get a (PHunk b h) <> None ->
                    (forall es, get a (PHunk b h) <> Some (Good (PlHunk es))) -> 0 < r_merr r)
      /\ (forall n k, get a (PTail b) = Some (Good (PlTail (Some n))) -> k < n ->
                      get a (PHunk b k) = None -> 0 < r_merr r)
      /\ (forall e, In e (snd (fst (stitch_pure pre keep a (N.to_nat b)))) -> e_kind e = KFile ->
                    ~ entry_ok a e -> In (RFile e None) (r_files r) /\ 0 < r_merr r)
      /\ (forall e, In e (snd (fst (stitch_pure pre keep a (N.to_nat b)))) -> e_kind e = KFile ->
                    entry_ok a e -> In (restored e) (r_files r)).
Proof. exact damage_reported_on_restore. Qed.
Print Assumptions C10_damage_reported_on_restore.

(* Exactly what a restore returns and counts, in any state. *)
Theorem C10_restore_accounts :
  forall (pre : bytes -> N) (a : arch) (b : N) (keep : entry -> bool),
    get a PHeader = Some (Good PlJson) -> opens_b a b = true -> In DBlocks (dirs a) ->
    exists tr r,
      run pre (restore_prog (Specified b) keep) a [] = (tr, a, Store.Done r)
      /\ r_ok r = true
      /\ r_files r = map (restored_in a) (snd (fst (stitch_pure pre keep a (N.to_nat b))))
      /\ r_merr r = snd (stitch_pure pre keep a (N.to_nat b))
                    + N.of_nat (length (filter (not_restored a) (snd (fst (stitch_pure pre keep a (N.to_nat b)))))).
Proof. exact restore_accounts. Qed.
Print Assumptions C10_restore_accounts.

(* Untouched hunks are listed in full. *)
Theorem C10_untouched_hunks_are_listed :
  forall (pre : bytes -> N) (a : arch) (keep : entry -> bool) (b h : N) (es : list entry) (e : entry),
    opens_b a b = true -> has_dir a (DIndex b) = true ->
    In (DHunkSub b (h / HUNKS_PER_SUBDIR)) (dirs a) ->
    get a (PHunk b h) = Some (Good (PlHunk es)) -> In e es -> keep e = true ->
    In e (snd (fst (stitch_pure pre keep a (N.to_nat b)))).
Proof. exact restore_lists_hunk_entries. Qed.
Print Assumptions C10_untouched_hunks_are_listed.

(* A new backup into a damaged archive keeps referential integrity and records only
   truthful entries: Props/C04.v (backup_refint needs no health of the old bands beyond AInv). *)

(* ---- "when the damage was a deleted or emptied file, a new backup of the source completes
        and restores exactly" ---- *)
From CV Require Import Conf Truth E2E Heals HealsP.

(* From an archive the operations maintain ([Ready]) that then LOST one file other than the
   header -- a band head, a band tail, an index hunk or a data block, deleted or truncated to
   zero length -- a fault-free backup of any sorted source succeeds with zero errors into a
   band above every existing one, and restoring it returns, in order and without error, every
   source item with its metadata and its bytes (a reused basis entry denotes the same bytes
   the source had when it was recorded; an entry naming the lost block is not reused: the
   file is stored again). *)
Theorem C10_backup_heals_after_a_lost_file :
  forall (pre : bytes -> N) (c : cfg) (src : list sitem) (a : arch) (f : fpath) (a' : arch),
    Ready pre a -> lost a f a' -> SrcSorted src -> SrcWF src -> cfg_ok c ->
    exists tr a1 r,
      run pre (backup_prog pre c src) a' [] = (tr, a1, Done r)
      /\ b_ok r = true /\ b_errors r = 0 /\ b_band r = Some (new_band a)
      /\ (forall b, has_dir a' (DBand b) = true -> b < new_band a)
      /\ exists tr' rr,
           run pre (restore_prog (Specified (new_band a)) keep_all) a1 [] = (tr', a1, Done rr)
           /\ r_ok rr = true /\ r_merr rr = 0
           /\ Forall2 (item_healed c a') (known_items src) (r_files rr).
Proof. exact lost_then_backup_heals. Qed.
Print Assumptions C10_backup_heals_after_a_lost_file.

(* What the backup needs of its start state is much less than health: [Usable]. *)
Theorem C10_backup_heals :
  forall (pre : bytes -> N) (c : cfg) (src : list sitem) (a0 : arch),
    Usable pre a0 -> SrcSorted src -> SrcWF src -> cfg_ok c ->
    exists tr a1 r,
      run pre (backup_prog pre c src) a0 [] = (tr, a1, Done r)
      /\ b_ok r = true /\ b_errors r = 0 /\ b_band r = Some (new_band a0)
      /\ exists tr' rr,
           run pre (restore_prog (Specified (new_band a0)) keep_all) a1 [] = (tr', a1, Done rr)
           /\ r_ok rr = true /\ r_merr rr = 0
           /\ Forall2 (item_healed c a0) (known_items src) (r_files rr).
Proof. exact backup_heals. Qed.
Print Assumptions C10_backup_heals.

(* Not claimed, and false: a block overwritten with garbage is listed as present and reused. *)
Theorem C10_garbage_block_not_healed_refuted :
  exists pre c src a f a',
    Ready pre a /\ damaged a f a' /\ f <> PHeader /\ f <> PLock
    /\ SrcSorted src /\ SrcValid src /\ SrcWF src /\ cfg_ok c
    /\ forall tr a1 r tr' rr,
         run pre (backup_prog pre c src) a' [] = (tr, a1, Done r) ->
         run pre (restore_prog (Specified (new_band a')) keep_all) a1 [] = (tr', a1, Done rr) ->
         b_ok r = true /\ b_errors r = 0 /\ r_merr rr <> 0.
Proof. exact backup_heals_garbage_refuted. Qed.
Print Assumptions C10_garbage_block_not_healed_refuted.
