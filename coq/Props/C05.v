(* C05 — Deleting versions and collecting garbage never harm what is kept. *)
From CV Require Import Base.Str Apath Entry Store StitchProg Backup Delete SafeP DeleteP.

(* For EVERY fault list — every crash point of the delete, every failing read or listing —
   and every set of versions to delete, at every intermediate state and at the end: every
   version that is kept still has its directory, head, tail and every hunk unchanged, and
   every block any of its hunks references is unchanged. *)
Theorem C05_kept_versions_never_harmed :
  forall (pre : bytes -> N) (ids : list N) (dry brk : bool) (hint : list bytes) (a0 : arch) (phi : list fault),
    WFhunks a0 ->
    Forall (Kept ids a0) (run_states pre (delete_prog ids dry brk hint) a0 phi) /\
    Kept ids a0 (snd (fst (run pre (delete_prog ids dry brk hint) a0 phi))).
Proof. exact delete_keeps. Qed.
Print Assumptions C05_kept_versions_never_harmed.

(* A successful real delete: exactly the requested versions are gone (directory and every
   file under it), no unreferenced non-empty block remains, the lock is released, nothing
   was created or modified — and what is kept is intact. *)
Theorem C05_delete_is_exact :
  forall (pre : bytes -> N) (ids : list N) (brk : bool) (hint : list bytes) (a0 : arch) (r : dres),
    WFdirs pre a0 ->
    snd (run pre (delete_prog ids false brk hint) a0 []) = Done r -> d_ok r = true ->
    exact_post pre ids a0 (snd (fst (run pre (delete_prog ids false brk hint) a0 []))) r /\
    Kept ids a0 (snd (fst (run pre (delete_prog ids false brk hint) a0 []))).
Proof. exact delete_exact. Qed.
Print Assumptions C05_delete_is_exact.

(* The well-formedness it needs (files have their parent directories) holds of the empty
   archive and is preserved by every program under every fault list. *)
Theorem C05_wellformedness_preserved :
  forall (pre : bytes -> N) (R : Type) (p : prog R) (a : arch) (phi : list fault),
    WFdirs pre a -> Forall (WFdirs pre) (run_states pre p a phi) /\ WFdirs pre (snd (fst (run pre p a phi))).
Proof. exact run_WFdirs. Qed.
Print Assumptions C05_wellformedness_preserved.

(* A dry run changes nothing but its own lock — at every intermediate state, every fault list. *)
Theorem C05_dry_run_changes_nothing :
  forall (pre : bytes -> N) (ids : list N) (brk : bool) (hint : list bytes) (a0 : arch) (phi : list fault),
    Forall (same_but_lock a0) (run_states pre (delete_prog ids true brk hint) a0 phi) /\
    same_but_lock a0 (snd (fst (run pre (delete_prog ids true brk hint) a0 phi))).
Proof. exact delete_dry_run_noop. Qed.
Print Assumptions C05_dry_run_changes_nothing.

(* While the newest version is incomplete (no tail, or a zero-length one) a delete refuses
   and performs reads only. *)
Theorem C05_refuses_while_a_backup_may_be_running :
  forall (pre : bytes -> N) (ids : list N) (dry brk : bool) (hint : list bytes) (a0 : arch) (b : N),
    newest_band a0 = Some b -> no_tail a0 b -> brk = false \/ get a0 PLock = None ->
    exists tr : list (op * reply),
      run pre (delete_prog ids dry brk hint) a0 [] = (tr, a0, Done dfail) /\
      Forall (fun x : op * reply => reads_only (fst x)) tr.
Proof. exact delete_refuses_incomplete. Qed.
Print Assumptions C05_refuses_while_a_backup_may_be_running.

(* Once taken, the lock is released on success and on every error path (no kill). *)
Theorem C05_lock_released :
  forall (pre : bytes -> N) (ids : list N) (dry brk : bool) (hint : list bytes) (a0 : arch) (phi : list fault)
         (i : nat) (pl : payload) (m : wmode),
    no_crash phi ->
    nth_error (fst (fst (run pre (delete_prog ids dry brk hint) a0 phi))) i = Some (OpWrite PLock pl m, ROk) ->
    exists (j : nat) (rep : reply), (i < j)%nat /\
      nth_error (fst (fst (run pre (delete_prog ids dry brk hint) a0 phi))) j = Some (OpRemoveFile PLock, rep).
Proof. exact delete_lock_released. Qed.
Print Assumptions C05_lock_released.

(* ---- "if the delete is killed at any point ... every REMAINING complete version still
        restores exactly": also the versions NAMED for deletion that are still there ---- *)
From Coq Require Import List NArith.
From CV Require Import Read FrameP History HistoryP DeleteRemP DeleteRemRestoreP.

(* For every fault list, at every intermediate state and at the end: EVERY band directory
   that still exists (named for deletion or not) existed before, has exactly its files, and
   every block it references is unchanged: blocks are removed only once every named version
   is gone. *)
Theorem C05_every_remaining_version_intact :
  forall (pre : bytes -> N) (ids : list N) (dry brk : bool) (hint : list bytes) (a0 : arch) (phi : list fault),
    WFhunks a0 ->
    Forall (Remaining a0) (run_states pre (delete_prog ids dry brk hint) a0 phi) /\
    Remaining a0 (snd (fst (run pre (delete_prog ids dry brk hint) a0 phi))).
Proof. exact delete_remaining_intact. Qed.
Print Assumptions C05_every_remaining_version_intact.

(* ... hence a complete version that is still there restores to exactly the same result
   (entries, bytes, error count) as before the delete started. *)
Theorem C05_every_remaining_complete_version_restores_the_same :
  forall (pre : bytes -> N) (ids : list N) (dry brk : bool) (hint : list bytes) (keep : entry -> bool) (a0 : arch) (b : N) (phi : list fault),
    RInv pre a0 -> complete a0 b ->
    Forall (fun a => has_dir a (DBand b) = true -> restore_of pre keep a b = restore_of pre keep a0 b /\ complete a b)
           (all_states pre (delete_prog ids dry brk hint) a0 phi).
Proof. exact delete_remaining_restore_stable. Qed.
Print Assumptions C05_every_remaining_complete_version_restores_the_same.
