(* C05 — Deleting versions and collecting garbage never harm what is kept. *)
From CV Require Import Base.Str Apath Entry Store StitchProg Backup Delete SafeP.

(* For every fault list (hence every crash point and every failing read): the operations a
   delete can emit are reads, its lock, the removal of REQUESTED band directories, and
   block removals. *)
Theorem C05_delete_touches_only_requested_bands : forall (ids : list N) (dry brk : bool) (hint : list bytes),
  emits_only (delete_op ids) (delete_prog ids dry brk hint).
Proof. exact delete_emits. Qed.
Print Assumptions C05_delete_touches_only_requested_bands.

(* A dry run changes nothing but its own lock — at every intermediate state, for every
   fault list. *)
Theorem C05_dry_run_changes_nothing :
  forall (pre : bytes -> N) (ids : list N) (brk : bool) (hint : list bytes) (a0 : arch) (phi : list fault),
    Forall (same_but_lock a0) (run_states pre (delete_prog ids true brk hint) a0 phi) /\
    same_but_lock a0 (snd (fst (run pre (delete_prog ids true brk hint) a0 phi))).
Proof. exact delete_dry_run_noop. Qed.
Print Assumptions C05_dry_run_changes_nothing.
