(* C01 — Backup then restore reproduces the source tree exactly.
   The data path of one entry, piece by piece, for all inputs; the operational
   composition (backup program -> archive -> restore) is in Props/C03.v etc. *)
From Coq Require Import Sorted Permutation.
From CV Require Import Base.Str Apath ApathP Entry Codec CodecP Tree TreeP.
From CV Require Dest DestP DestTreeP Full FullP.

(* Modification times: what backup stores decodes to the source time, for every
   timestamp (pre-1970 and sub-second included), with a legal nanosecond field. *)
Theorem C01_mtime_store_roundtrip : forall t : Z,
  let (s, n) := enc_time_floor t in dec_time s n = t /\ (n < 1000000000)%N.
Proof. exact time_roundtrip_floor. Qed.
Print Assumptions C01_mtime_store_roundtrip.

(* ... and what restore hands to the kernel denotes the same time. *)
Theorem C01_mtime_restore_roundtrip : forall t : Z, kernel_time (file_time_floor t) = Some t.
Proof. exact file_time_floor_roundtrip. Qed.
Print Assumptions C01_mtime_restore_roundtrip.

(* Regression witnesses for the code before "fix: pre-epoch mtimes ...". *)
Theorem C01_trunc_encoding_refuted : exists t : Z, enc_time_trunc t = None.
Proof. exact time_trunc_refuted. Qed.
Print Assumptions C01_trunc_encoding_refuted.
Theorem C01_trunc_file_time_refuted : exists t : Z, kernel_time (file_time_trunc t) <> Some t.
Proof. exact file_time_trunc_refuted. Qed.
Print Assumptions C01_trunc_file_time_refuted.

(* Large files: cutting into blocks of any size n >= 1 and reading the recorded
   addresses back yields exactly the file's bytes; the lengths sum to its size. *)
Theorem C01_chunked_file_reads_back : forall (n : nat) (d : bytes),
  (0 < n)%nat -> read_addrs (store_of (chunks n d)) (file_addrs n d) = Some d.
Proof. exact file_addrs_read_store. Qed.
Print Assumptions C01_chunked_file_reads_back.

Theorem C01_chunk_lengths_sum_to_size : forall (n : nat) (d : bytes),
  (0 < n)%nat ->
  fold_right (fun (a : addr) (acc : N) => (a_len a + acc)%N) 0%N (file_addrs n d) = N.of_nat (length d).
Proof. exact file_addrs_size. Qed.
Print Assumptions C01_chunk_lengths_sum_to_size.

(* Small files: after ANY sequence of pushes into the combiner (any sizes,
   any interleaved flushes) and a final drain, every pushed file has exactly
   one finished entry whose addresses read back to that file's bytes. *)
Theorem C01_combined_files_read_back : forall (mb : N) (ops : list comb_op),
  Forall op_ok ops ->
  exists fin : list (entry * bytes),
    Forall2 (fin_ok (snd (comb_drain mb ops))) (fst (comb_drain mb ops)) fin /\
    Permutation fin (pushed_of ops) /\
    filter has_content fin = filter has_content (pushed_of ops) /\
    filter no_content fin = filter no_content (pushed_of ops).
Proof. exact combined_slices. Qed.
Print Assumptions C01_combined_files_read_back.

(* The index writer's sort puts any set of distinct paths in strictly increasing order
   without losing or inventing an entry. *)
Theorem C01_hunk_sort_sorted : forall l : list entry,
  NoDup (map e_apath l) ->
  StronglySorted (fun x y : entry => apath_cmp (e_apath x) (e_apath y) = Lt) (sort_entries l).
Proof. exact sort_entries_sorted. Qed.
Print Assumptions C01_hunk_sort_sorted.
Theorem C01_hunk_sort_perm : forall l : list entry, Permutation (sort_entries l) l.
Proof. exact sort_entries_perm. Qed.
Print Assumptions C01_hunk_sort_perm.

(* The source walk (the two-deque algorithm, verbatim) visits every node of any
   tree exactly once, in strictly increasing path order. *)
Theorem C01_walk_is_spec : forall (M : Type) (excl : str -> bool) (t : tree M),
  walk_q excl t = Some (walk_rec excl t).
Proof. exact (@walk_q_eq_rec). Qed.
Print Assumptions C01_walk_is_spec.
Theorem C01_walk_complete : forall (M : Type) (t : tree M),
  Permutation (walk_rec no_excl t) (nodes t).
Proof. exact (@walk_perm). Qed.
Print Assumptions C01_walk_complete.
Theorem C01_walk_sorted : forall (M : Type) (excl : str -> bool) (t : tree M),
  WFtree t -> StronglySorted lt_ap (map path (walk_rec excl t)).
Proof. exact (@walk_strictly_sorted). Qed.
Print Assumptions C01_walk_sorted.

(* ---- the composition: backup program -> archive -> restore program ---- *)
From Coq Require Import List NArith.
From CV Require Import Stitch Store StitchProg Backup Read Inv Conf Truth Valid E2E E2EP.
Local Open Scope N_scope.

(* From any archive state that satisfies the invariants the operations maintain ([Ready]:
   header, no GC lock, d/, well-formed directories, referential integrity, format
   conformance), for every sorted, valid source and every configuration, WITHOUT faults:
   the backup succeeds with zero errors into the new band, and restoring that band returns,
   IN ORDER, exactly one restored file per source file / directory / symlink, carrying the
   source's path, kind, mtime, mode, owner and link target; a file's content is the bytes
   read from the source, or -- when kind, mtime and size equal the previous version's entry
   and the backup reused its addresses -- what that entry restored to before. *)
Theorem C01_backup_then_restore_exact :
  forall (pre : bytes -> N) (c : cfg) (src : list sitem) (a0 : Store.arch),
    Ready pre a0 -> SrcSorted src -> SrcValid src -> SrcWF src -> cfg_ok c ->
    exists tr a1 r,
      run pre (backup_prog pre c src) a0 [] = (tr, a1, Store.Done r)
      /\ b_ok r = true /\ b_errors r = 0 /\ b_band r = Some (new_band a0)
      /\ exists tr' rr,
           run pre (restore_prog (Specified (new_band a0)) keep_all) a1 [] = (tr', a1, Store.Done rr)
           /\ r_ok rr = true /\ r_merr rr = 0
           /\ Forall2 (item_restored c a0) (known_items src) (r_files rr).
Proof. exact backup_then_restore_exact. Qed.
Print Assumptions C01_backup_then_restore_exact.

(* With no earlier entry of the same path, kind, mtime and size (in particular for the
   first backup), every file restores to EXACTLY the bytes read from the source. *)
Theorem C01_backup_then_restore_exact_no_reuse :
  forall (pre : bytes -> N) (c : cfg) (src : list sitem) (a0 : Store.arch),
    Ready pre a0 -> SrcSorted src -> SrcValid src -> SrcWF src -> cfg_ok c ->
    (forall it be, In it src -> s_kind (si_e it) = KFile -> ~ basis_match a0 it be) ->
    exists tr a1 r,
      run pre (backup_prog pre c src) a0 [] = (tr, a1, Store.Done r)
      /\ b_ok r = true /\ b_errors r = 0 /\ b_band r = Some (new_band a0)
      /\ exists tr' rr,
           run pre (restore_prog (Specified (new_band a0)) keep_all) a1 [] = (tr', a1, Store.Done rr)
           /\ r_ok rr = true /\ r_merr rr = 0
           /\ Forall2 (item_restored_exact c) (known_items src) (r_files rr).
Proof. exact backup_then_restore_exact_fresh. Qed.
Print Assumptions C01_backup_then_restore_exact_no_reuse.

(* The unconditional strict form is false: an edit that keeps kind, mtime and size is not
   seen (content_heuristically_unchanged), by design. *)
Theorem C01_same_mtime_and_size_edit_refuted :
  exists pre c src a0,
    Ready pre a0 /\ SrcSorted src /\ SrcValid src /\ SrcWF src /\ cfg_ok c
    /\ forall tr a1 r tr' rr,
         run pre (backup_prog pre c src) a0 [] = (tr, a1, Store.Done r) ->
         run pre (restore_prog (Specified (new_band a0)) keep_all) a1 [] = (tr', a1, Store.Done rr) ->
         ~ Forall2 (item_restored_exact c) (known_items src) (r_files rr).
Proof. exact backup_then_restore_strict_refuted. Qed.
Print Assumptions C01_same_mtime_and_size_edit_refuted.

(* The state reached satisfies [Ready] again, so backups chain. *)
Theorem C01_backup_keeps_ready :
  forall (pre : bytes -> N) (c : cfg) (src : list sitem) (a0 : Store.arch),
    Ready pre a0 -> SrcSorted src -> SrcValid src -> SrcWF src ->
    Ready pre (snd (fst (run pre (backup_prog pre c src) a0 []))).
Proof. exact backup_keeps_ready. Qed.
Print Assumptions C01_backup_keeps_ready.

(* ------------------------------------------------------------------------- *)
(* The destination side (Dest.v): what restore's file-system calls make of the list of
   entries the restore program hands over.  For the listing of a real tree ([tree_listing]:
   valid distinct paths, no unknown kinds, symlinks with targets, every directory listed
   before its contents -- what a source walk in path order records), restoring into an empty
   destination reports no error, restores every entry, never resolves a path through a
   symlink, and leaves EXACTLY the listed tree: at every path the listed node with its kind,
   bytes or target, and nothing at any other path.  (Modes, owners and times are compared by
   the runs, not modelled.) *)
Theorem C01_fresh_restore_builds_exactly_the_listed_tree :
  forall (content_of : entry -> bytes) (es : list entry) (s : Dest.dstate),
    DestTreeP.tree_listing es -> Dest.restore_into content_of false [] es = Some s ->
    Dest.d_esc s = 0%N /\ Dest.d_errs s = 0%N /\ Dest.d_done s = map e_apath es /\
    (forall p, p <> [] ->
       Dest.node_at (Dest.d_fs s) p =
       match find (fun e => Dest.rpath_eqb (comps (e_apath e)) p) es with
       | Some e => Some (DestTreeP.node_of content_of e)
       | None => None
       end).
Proof. exact DestTreeP.fresh_restore_builds_the_tree. Qed.
Print Assumptions C01_fresh_restore_builds_exactly_the_listed_tree.

(* ... and the hypothesis on the listing can be decided (the runs evaluate it on the listings
   of real versions). *)
Theorem C01_tree_listing_checker_sound :
  forall es : list entry, DestTreeP.tree_listingb es = true -> DestTreeP.tree_listing es.
Proof. exact DestTreeP.tree_listingb_sound. Qed.
Print Assumptions C01_tree_listing_checker_sound.

(* "Every directory before its contents" is needed for "nothing else is there": a file whose
   directory is not listed has it made on the way. *)
Theorem C01_unlisted_parent_refuted :
  exists content_of es s,
    (forall e, In e es -> is_valid (e_apath e) = true) /\ NoDup (map e_apath es) /\
    (forall e, In e es -> e_kind e <> KUnknown) /\
    (forall e, In e es -> e_kind e = KSymlink -> e_target e <> None) /\
    (forall e, In e es -> comps (e_apath e) = [] -> e_kind e = KDir) /\
    Dest.restore_into content_of false [] es = Some s /\
    exists p, p <> [] /\
      Dest.node_at (Dest.d_fs s) p <>
      match find (fun e => Dest.rpath_eqb (comps (e_apath e)) p) es with
      | Some e => Some (DestTreeP.node_of content_of e)
      | None => None
      end.
Proof. exact DestTreeP.without_parents_first_refuted. Qed.
Print Assumptions C01_unlisted_parent_refuted.

(* ------------------------------------------------------------------------- *)
(* THE WHOLE ROUND TRIP IN ONE STATEMENT (Full.v joins the two sides: [full_restore] runs the
   restore program on the archive and hands the entries and bytes it returns to the
   destination loop).  From every [Ready] archive state, for every sorted, valid, well-formed
   and tree-shaped source listing ([SrcTree]: directories before their contents, symlinks
   with targets -- what a walk of a tree produces, see below) and every configuration, with
   no earlier entry to reuse: the fault-free backup succeeds with no error, and restoring the
   new version into an EMPTY destination reports no error, never resolves a path through a
   symlink, and leaves there EXACTLY the source tree: at the path of every recorded source
   item a directory, a file with the bytes read from the source, or a link with the source's
   target -- and nothing at any other path. *)
Theorem C01_backup_then_full_restore_builds_the_source_tree :
  forall (pre : bytes -> N) (c : cfg) (src : list sitem) (a0 : Store.arch),
    Ready pre a0 -> SrcSorted src -> SrcValid src -> SrcWF src -> cfg_ok c -> Full.SrcTree src ->
    (forall it be, In it src -> s_kind (si_e it) = KFile -> ~ basis_match a0 it be) ->
    exists tr a1 r,
      run pre (backup_prog pre c src) a0 [] = (tr, a1, Store.Done r)
      /\ b_ok r = true /\ b_errors r = 0 /\ b_band r = Some (new_band a0)
      /\ exists rr s,
           Full.full_restore pre (Specified (new_band a0)) false a1 [] = Full.FRestored rr s
           /\ r_merr rr = 0
           /\ Dest.d_esc s = 0 /\ Dest.d_errs s = 0
           /\ Dest.d_done s = map spath (known_items src)
           /\ forall p, p <> [] ->
                Dest.node_at (Dest.d_fs s) p =
                match Full.src_at (known_items src) p with
                | Some it => Some (Full.src_node it)
                | None => None
                end.
Proof. exact FullP.backup_then_full_restore_builds_the_source_tree. Qed.
Print Assumptions C01_backup_then_full_restore_builds_the_source_tree.

(* The same with reuse allowed: a file holds the bytes read from the source or, when kind,
   mtime and size equal an earlier entry of that path, what that entry restored to. *)
Theorem C01_backup_then_full_restore_with_reuse :
  forall (pre : bytes -> N) (c : cfg) (src : list sitem) (a0 : Store.arch),
    Ready pre a0 -> SrcSorted src -> SrcValid src -> SrcWF src -> cfg_ok c -> Full.SrcTree src ->
    exists tr a1 r,
      run pre (backup_prog pre c src) a0 [] = (tr, a1, Store.Done r)
      /\ b_ok r = true /\ b_errors r = 0 /\ b_band r = Some (new_band a0)
      /\ exists rr s,
           Full.full_restore pre (Specified (new_band a0)) false a1 [] = Full.FRestored rr s
           /\ r_merr rr = 0
           /\ Dest.d_esc s = 0 /\ Dest.d_errs s = 0
           /\ Dest.d_done s = map spath (known_items src)
           /\ forall p, p <> [] ->
                match Full.src_at (known_items src) p with
                | Some it =>
                    match s_kind (si_e it) with
                    | KFile => exists d, Dest.node_at (Dest.d_fs s) p = Some (Dest.NFile d) /\ FullP.source_or_basis a0 it d
                    | _ => Dest.node_at (Dest.d_fs s) p = Some (Full.src_node it)
                    end
                | None => Dest.node_at (Dest.d_fs s) p = None
                end.
Proof. exact FullP.backup_then_full_restore_builds_the_source_tree_with_reuse. Qed.
Print Assumptions C01_backup_then_full_restore_with_reuse.

(* [SrcTree] is what the source walk produces: the paths and kinds of a walk of any
   well-formed tree (under any exclusions) list every directory before its contents. *)
Theorem C01_walk_is_tree_shaped :
  forall (M : Type) (excl : str -> bool) (t : tree M),
    WFtree t -> Full.shape_parents_first (Full.walk_shape (walk_rec excl t)).
Proof. exact (@FullP.walk_is_tree_shaped). Qed.
Print Assumptions C01_walk_is_tree_shaped.

(* ... and it is needed: with a file whose directory is not in the listing, the destination
   holds something the source listing does not. *)
Theorem C01_not_tree_shaped_refuted :
  exists pre c src a0,
    Ready pre a0 /\ SrcSorted src /\ SrcValid src /\ SrcWF src /\ cfg_ok c
    /\ (forall b, Store.has_dir a0 (Store.DBand b) = false)
    /\ forall tr a1 r rr s,
         run pre (backup_prog pre c src) a0 [] = (tr, a1, Store.Done r) ->
         Full.full_restore pre (Specified (new_band a0)) false a1 [] = Full.FRestored rr s ->
         ~ FullP.holds_exactly src s.
Proof. exact FullP.without_src_tree_refuted. Qed.
Print Assumptions C01_not_tree_shaped_refuted.
