(* C02 — Every completed version keeps restoring to its own snapshot. *)
From CV Require Import Base.Str Apath Entry Store Stitch StitchInst StitchProg Backup Delete Read SafeP Inv RefIntP FrameP DeleteP.

(* What restoring a completed version yields depends only on that version's own files and
   the blocks it references.  A later backup — complete, failed, or killed at ANY storage
   operation (phi arbitrary) — leaves, at every intermediate state, the listing of every
   existing version (same operations, same result, even under read faults psi) ... *)
Theorem C02_listing_of_every_version_is_stable :
  forall (pre : bytes -> N) (c : cfg) (src : list sitem) (keep : entry -> bool) (a0 : arch) (b : N),
    has_dir a0 (DBand b) = true ->
    forall (phi : list fault) (a : arch), In a (backup_states pre c src a0 phi) ->
    forall psi : list fault,
      fst (fst (run pre (list_prog (Specified b) keep) a psi)) = fst (fst (run pre (list_prog (Specified b) keep) a0 psi)) /\
      snd (run pre (list_prog (Specified b) keep) a psi) = snd (run pre (list_prog (Specified b) keep) a0 psi).
Proof. exact listing_stable. Qed.
Print Assumptions C02_listing_of_every_version_is_stable.

(* ... and the restore of every completed version: the same files with the same bytes,
   namely exactly the entries of that version's own index. *)
Theorem C02_completed_version_restores_the_same :
  forall (pre : bytes -> N) (c : cfg) (src : list sitem) (keep : entry -> bool) (a0 : arch) (b : N),
    get a0 PHeader = Some (Good PlJson) -> has_dir a0 DBlocks = true -> WFidx a0 -> AInv a0 -> complete a0 b ->
    forall (phi : list fault) (a : arch), In a (backup_states pre c src a0 phi) ->
      snd (run pre (restore_prog (Specified b) keep) a []) = snd (run pre (restore_prog (Specified b) keep) a0 []) /\
      (exists merr : N,
          snd (run pre (restore_prog (Specified b) keep) a []) =
          Store.Done {| r_ok := true; r_files := map restored (filter keep (band_entries a0 b)); r_merr := merr |}).
Proof. exact complete_band_restore_stable. Qed.
Print Assumptions C02_completed_version_restores_the_same.

(* The program that lists a version computes the pure stitching function of its view. *)
Theorem C02_listing_program_refines_stitch :
  forall (pre : bytes -> N) (keep : entry -> bool) (a : arch) (b : N),
    get a PHeader = Some (Good PlJson) -> WFidx a -> head_opens a b = true ->
    exists (tr : list (op * reply)) (merr : N),
      run pre (list_prog (Specified b) keep) a [] =
      (tr, a, Store.Done {| l_ok := true; l_entries := pstitch_keep keep (view a) (N.to_nat b); l_merr := merr |}).
Proof. exact list_refines. Qed.
Print Assumptions C02_listing_program_refines_stitch.

(* Asking for the latest complete version selects the newest band whose head opens and whose
   tail exists and is not zero-length; a band that cannot be opened is skipped. *)
Theorem C02_latest_complete_is_newest :
  forall (pre : bytes -> N) (a : arch) (R : Type) (k : option N -> prog R),
    has_dir a DRoot = true ->
    exists o : option N,
      evals pre a (resolve LatestClosed k) (k o) /\
      match o with
      | Some b => has_dir a (DBand b) = true /\ open_closed a b = true /\
                  (forall b' : N, has_dir a (DBand b') = true -> open_closed a b' = true -> (b' <= b)%N)
      | None => forall b' : N, has_dir a (DBand b') = true -> open_closed a b' = false
      end.
Proof. exact latest_closed_is_newest. Qed.
Print Assumptions C02_latest_complete_is_newest.

(* Deleting other versions / collecting garbage: every kept version keeps all its files and
   every block it references, at every point, for every fault list. *)
Theorem C02_deletes_keep_the_other_versions :
  forall (pre : bytes -> N) (ids : list N) (dry brk : bool) (hint : list bytes) (a0 : arch) (phi : list fault),
    WFhunks a0 ->
    Forall (Kept ids a0) (run_states pre (delete_prog ids dry brk hint) a0 phi) /\
    Kept ids a0 (snd (fst (run pre (delete_prog ids dry brk hint) a0 phi))).
Proof. exact delete_keeps. Qed.
Print Assumptions C02_deletes_keep_the_other_versions.
