(* C02 — Every completed version keeps restoring to its own snapshot. *)
From CV Require Import Base.Str Apath Entry Store Stitch StitchInst StitchProg Backup Delete Read SafeP Inv RefIntP FrameP DeleteP.

(* What restoring a completed version yields depends only on that version's own files and
   the blocks it references.  A later backup — complete, failed, or killed at ANY storage
   operation (phi arbitrary) — leaves, at every intermediate state, the listing of every
   existing version (same operations, same result, even under read faults psi) ... *)
Theorem C02_listing_of_every_version_is_stable :
  forall (pre : bytes -> N) (c : cfg) (src : list sitem) (keep : entry -> bool) (a0 : arch) (b : N),
    has_dir a0 (DBand b) = true ->
    forall (phi : list fault) (a : arch), In a (backup_states pre c src a0 phi) ->
    forall psi : list fault,
      fst (fst (run pre (list_prog (Specified b) keep) a psi)) = fst (fst (run pre (list_prog (Specified b) keep) a0 psi)) /\
      snd (run pre (list_prog (Specified b) keep) a psi) = snd (run pre (list_prog (Specified b) keep) a0 psi).
Proof. exact listing_stable. Qed.
Print Assumptions C02_listing_of_every_version_is_stable.

(* ... and the restore of every completed version: the same files with the same bytes,
   namely exactly the entries of that version's own index. *)
Theorem C02_completed_version_restores_the_same :
  forall (pre : bytes -> N) (c : cfg) (src : list sitem) (keep : entry -> bool) (a0 : arch) (b : N),
    get a0 PHeader = Some (Good PlJson) -> has_dir a0 DBlocks = true -> WFidx a0 -> AInv a0 -> complete a0 b ->
    forall (phi : list fault) (a : arch), In a (backup_states pre c src a0 phi) ->
      snd (run pre (restore_prog (Specified b) keep) a []) = snd (run pre (restore_prog (Specified b) keep) a0 []) /\
      (exists merr : N,
          snd (run pre (restore_prog (Specified b) keep) a []) =
          Store.Done {| r_ok := true; r_files := map restored (filter keep (band_entries a0 b)); r_merr := merr |}).
Proof. exact complete_band_restore_stable. Qed.
Print Assumptions C02_completed_version_restores_the_same.

(* The program that lists a version computes the pure stitching function of its view. *)
Theorem C02_listing_program_refines_stitch :
  forall (pre : bytes -> N) (keep : entry -> bool) (a : arch) (b : N),
    get a PHeader = Some (Good PlJson) -> WFidx a -> head_opens a b = true ->
    exists (tr : list (op * reply)) (merr : N),
      run pre (list_prog (Specified b) keep) a [] =
      (tr, a, Store.Done {| l_ok := true; l_entries := pstitch_keep keep (view a) (N.to_nat b); l_merr := merr |}).
Proof. exact list_refines. Qed.
Print Assumptions C02_listing_program_refines_stitch.

(* Asking for the latest complete version selects the newest band whose head opens and whose
   tail exists and is not zero-length; a band that cannot be opened is skipped. *)
Theorem C02_latest_complete_is_newest :
  forall (pre : bytes -> N) (a : arch) (R : Type) (k : option N -> prog R),
    has_dir a DRoot = true ->
    exists o : option N,
      evals pre a (resolve LatestClosed k) (k o) /\
      match o with
      | Some b => has_dir a (DBand b) = true /\ open_closed a b = true /\
                  (forall b' : N, has_dir a (DBand b') = true -> open_closed a b' = true -> (b' <= b)%N)
      | None => forall b' : N, has_dir a (DBand b') = true -> open_closed a b' = false
      end.
Proof. exact latest_closed_is_newest. Qed.
Print Assumptions C02_latest_complete_is_newest.

(* Deleting other versions / collecting garbage: every kept version keeps all its files and
   every block it references, at every point, for every fault list. *)
Theorem C02_deletes_keep_the_other_versions :
  forall (pre : bytes -> N) (ids : list N) (dry brk : bool) (hint : list bytes) (a0 : arch) (phi : list fault),
    WFhunks a0 ->
    Forall (Kept ids a0) (run_states pre (delete_prog ids dry brk hint) a0 phi) /\
    Kept ids a0 (snd (fst (run pre (delete_prog ids dry brk hint) a0 phi))).
Proof. exact delete_keeps. Qed.
Print Assumptions C02_deletes_keep_the_other_versions.

(* ---- the composition over histories ---- *)
From Coq Require Import List NArith.
From CV Require Import Conf Truth E2E E2EP Healthy History HistoryP.
Local Open Scope N_scope.

(* THE PROPERTY.  Start from a fresh archive (or any state satisfying the invariant all
   operations keep).  Run ANY history l1 of backups and deletes, each under its own arbitrary
   fault list (failures, kills, torn writes); then a backup that completes successfully into
   band b (under arbitrary faults too); then ANY history l2, again with arbitrary faults in
   backups AND deletes, that does not delete b.  At EVERY state the archive passes through
   afterwards (intermediate states of later operations included) band b is complete and
   restoring it returns, in order and with no error, exactly one restored item per source
   item with the source's metadata and the bytes read from the source (or, for an entry
   reused because kind+mtime+size were unchanged, what the previous entry restored to). *)
Theorem C02_completed_version_restores_exactly_after_any_history :
  forall (pre : bytes -> N) (l1 : list hop2) (c : cfg) (src : list sitem) (phi : list fault) (l2 : list hop2) (a0 : arch) (b : N),
    RInv pre a0 ->
    Forall hop2_src_ok (l1 ++ H2Backup c src phi :: l2) -> cfg_ok c ->
    let a_before := run_history2 pre a0 l1 in
    backup_completed pre c src a_before phi b ->
    Forall (hop2_keeps b) l2 ->
    forall a, In a (history_states2 pre (run_hop2 pre a_before (H2Backup c src phi)) l2) ->
      complete a b
      /\ exists tr rr,
           run pre (restore_prog (Specified b) keep_all) a [] = (tr, a, Store.Done rr)
           /\ r_ok rr = true /\ r_merr rr = 0
           /\ Forall2 (item_restored c a_before) (known_items src) (r_files rr).
Proof. exact history_restores_exact. Qed.
Print Assumptions C02_completed_version_restores_exactly_after_any_history.

(* Without a success hypothesis: after any earlier history whose deletes ran to their end, a
   backup that meets no fault DOES complete, into the next band id, and the above holds. *)
Theorem C02_fault_free_backup_completes_and_stays_restorable :
  forall (pre : bytes -> N) (l1 : list hop2) (c : cfg) (src : list sitem) (l2 : list hop2) (a0 : arch),
    Ready pre a0 ->
    Forall hop2_src_ok (l1 ++ H2Backup c src [] :: l2) -> cfg_ok c ->
    Forall hop2_unlocking l1 ->
    let a_before := run_history2 pre a0 l1 in
    let a_end := run_history2 pre a0 (l1 ++ H2Backup c src [] :: l2) in
    let b := new_band a_before in
    Forall (hop2_keeps b) l2 ->
    backup_completed pre c src a_before [] b
    /\ complete a_end b
    /\ exists tr rr,
         run pre (restore_prog (Specified b) keep_all) a_end [] = (tr, a_end, Store.Done rr)
         /\ r_ok rr = true /\ r_merr rr = 0
         /\ Forall2 (item_restored c a_before) (known_items src) (r_files rr).
Proof. exact history_restores_exact_ff. Qed.
Print Assumptions C02_fault_free_backup_completes_and_stays_restorable.

(* A fresh archive satisfies the invariant. *)
Theorem C02_fresh_archive_ready : forall pre : bytes -> N, Ready pre (init_state pre).
Proof. exact init_ready. Qed.
Print Assumptions C02_fresh_archive_ready.

(* 'Latest complete' selects that version when it is the newest band. *)
Theorem C02_latest_complete_after_history :
  forall (pre : bytes -> N) (l1 : list hop2) (c : cfg) (src : list sitem) (phi : list fault) (l2 : list hop2) (a0 : arch) (b : N),
    RInv pre a0 ->
    Forall hop2_src_ok (l1 ++ H2Backup c src phi :: l2) -> cfg_ok c ->
    let a_before := run_history2 pre a0 l1 in
    let a_end := run_history2 pre a0 (l1 ++ H2Backup c src phi :: l2) in
    backup_completed pre c src a_before phi b ->
    Forall (hop2_keeps b) l2 ->
    (forall b', has_dir a_end (DBand b') = true -> b' <= b) ->
    latest_closed_of pre a_end = Store.Done (Some b).
Proof. exact latest_complete_after_history. Qed.
Print Assumptions C02_latest_complete_after_history.

(* Deleting other versions / gc: at every state of every run, a kept complete version is
   still complete and restores to exactly the same result (entries, bytes, error count). *)
Theorem C02_delete_does_not_change_a_kept_version :
  forall (pre : bytes -> N) (ids : list N) (dry brk : bool) (hint : list bytes) (keep : entry -> bool) (a0 : arch) (b : N) (phi : list fault),
    RInv pre a0 -> complete a0 b -> ~ In b ids ->
    Forall (fun a => restore_of pre keep a b = restore_of pre keep a0 b /\ complete a b)
           (all_states pre (delete_prog ids dry brk hint) a0 phi).
Proof. exact delete_restore_stable. Qed.
Print Assumptions C02_delete_does_not_change_a_kept_version.
