(* C03 — A backup killed at any point leaves a consistent, usable archive. *)
From CV Require Import Base.Str Apath Entry Store StitchProg Backup Read SafeP Inv RefIntP.

(* run_states enumerates the state after every operation and the state a kill leaves
   (Crash: before operation k; CrashEmpty: the file created, no content) — so "for every
   crash point" is "for every phi". *)

(* No index entry anywhere refers to a missing or too-short block, at every crash point. *)
Theorem C03_reference_integrity_at_every_crash_point :
  forall (pre : bytes -> N) (c : cfg) (src : list sitem) (a0 : arch) (phi : list fault),
    FilesND a0 -> BlocksWF a0 -> RefInt a0 ->
    Forall (fun a : arch => RefInt a /\ BlocksWF a) (run_states pre (backup_prog pre c src) a0 phi) /\
    RefInt (snd (fst (run pre (backup_prog pre c src) a0 phi))) /\
    BlocksWF (snd (fst (run pre (backup_prog pre c src) a0 phi))).
Proof. exact backup_refint. Qed.
Print Assumptions C03_reference_integrity_at_every_crash_point.

(* Every file of every previously completed version is still there, unchanged. *)
Theorem C03_old_versions_files_intact_at_every_crash_point :
  forall (pre : bytes -> N) (c : cfg) (src : list sitem) (a0 : arch) (phi : list fault),
    Forall (Old a0) (run_states pre (backup_prog pre c src) a0 phi) /\
    Old a0 (snd (fst (run pre (backup_prog pre c src) a0 phi))).
Proof. exact backup_write_once. Qed.
Print Assumptions C03_old_versions_files_intact_at_every_crash_point.

(* With reference integrity, restoring reads every file entry's content successfully. *)
Theorem C03_entries_with_integrity_restore :
  forall (pre : bytes -> N) (a : arch) (es : list entry) (cache : list (bytes * bytes))
         (acc : list rfile) (merr : N),
    Forall (entry_ok a) es -> CacheOK a cache ->
    exists (tr : list (op * reply)) (r : rres),
      run pre (restore_entries es cache acc merr) a [] = (tr, a, Done r) /\
      r_ok r = true /\ r_files r = acc ++ map restored es /\
      r_merr r = (merr + N.of_nat (length (filter (fun e : entry => kind_eqb (e_kind e) KUnknown) es)))%N.
Proof. exact restore_entries_ok. Qed.
Print Assumptions C03_entries_with_integrity_restore.
