(* C03 — A backup killed at any point leaves a consistent, usable archive. *)
From CV Require Import Base.Str Apath Entry Store StitchProg Backup Read SafeP Inv RefIntP FrameP.

(* run_states enumerates the state after every operation and the state a kill leaves
   (Crash: before operation k; CrashEmpty: the file created, no content) — so "for every
   crash point" is "for every phi". *)

(* No index entry anywhere refers to a missing or too-short block, at every crash point. *)
Theorem C03_reference_integrity_at_every_crash_point :
  forall (pre : bytes -> N) (c : cfg) (src : list sitem) (a0 : arch) (phi : list fault),
    FilesND a0 -> BlocksWF a0 -> RefInt a0 ->
    Forall (fun a : arch => RefInt a /\ BlocksWF a) (run_states pre (backup_prog pre c src) a0 phi) /\
    RefInt (snd (fst (run pre (backup_prog pre c src) a0 phi))) /\
    BlocksWF (snd (fst (run pre (backup_prog pre c src) a0 phi))).
Proof. exact backup_refint. Qed.
Print Assumptions C03_reference_integrity_at_every_crash_point.

(* Every file of every previously completed version is still there, unchanged. *)
Theorem C03_old_versions_files_intact_at_every_crash_point :
  forall (pre : bytes -> N) (c : cfg) (src : list sitem) (a0 : arch) (phi : list fault),
    Forall (Old a0) (run_states pre (backup_prog pre c src) a0 phi) /\
    Old a0 (snd (fst (run pre (backup_prog pre c src) a0 phi))).
Proof. exact backup_write_once. Qed.
Print Assumptions C03_old_versions_files_intact_at_every_crash_point.

(* With reference integrity, restoring reads every file entry's content successfully. *)
Theorem C03_entries_with_integrity_restore :
  forall (pre : bytes -> N) (a : arch) (es : list entry) (cache : list (bytes * bytes))
         (acc : list rfile) (merr : N),
    Forall (entry_ok a) es -> CacheOK a cache ->
    exists (tr : list (op * reply)) (r : rres),
      run pre (restore_entries es cache acc merr) a [] = (tr, a, Done r) /\
      r_ok r = true /\ r_files r = acc ++ map restored es /\
      r_merr r = (merr + N.of_nat (length (filter (fun e : entry => kind_eqb (e_kind e) KUnknown) es)))%N.
Proof. exact restore_entries_ok. Qed.
Print Assumptions C03_entries_with_integrity_restore.

(* Every previously completed version restores exactly as before, at every crash point:
   same outcome, namely the files of its own index with the bytes its addresses name. *)
Theorem C03_completed_versions_restore_as_before_at_every_crash_point :
  forall (pre : bytes -> N) (c : cfg) (src : list sitem) (keep : entry -> bool) (a0 : arch) (b : N),
    get a0 PHeader = Some (Good PlJson) -> has_dir a0 DBlocks = true -> WFidx a0 -> AInv a0 -> complete a0 b ->
    forall (phi : list fault) (a : arch), In a (backup_states pre c src a0 phi) ->
      snd (run pre (restore_prog (Specified b) keep) a []) = snd (run pre (restore_prog (Specified b) keep) a0 []) /\
      (exists merr : N,
          snd (run pre (restore_prog (Specified b) keep) a []) =
          Store.Done {| r_ok := true; r_files := map restored (filter keep (band_entries a0 b)); r_merr := merr |}).
Proof. exact complete_band_restore_stable. Qed.
Print Assumptions C03_completed_versions_restore_as_before_at_every_crash_point.

(* The interrupted version (once its header opens) is listed by the program exactly as the
   pure stitching function of the archive view — whose equality with the documented rule
   (own entries, then the previous version's after the last recorded path) is C08. *)
Theorem C03_interrupted_version_lists_by_the_stitching_function :
  forall (pre : bytes -> N) (keep : entry -> bool) (a : arch) (b : N),
    get a PHeader = Some (Good PlJson) -> WFidx a -> head_opens a b = true ->
    exists (tr : list (op * reply)) (merr : N),
      run pre (list_prog (Specified b) keep) a [] =
      (tr, a, Store.Done {| l_ok := true; l_entries := pstitch_keep keep (view a) (N.to_nat b); l_merr := merr |}).
Proof. exact list_refines. Qed.
Print Assumptions C03_interrupted_version_lists_by_the_stitching_function.

(* ---- after the crash: the archive is still a state every operation can start from ---- *)
From Coq Require Import List NArith.
From CV Require Import Conf Truth Valid E2E E2EP History HistoryP.

(* A backup stopped at ANY point, by a failure, a kill or a kill that leaves a zero-length
   file, leaves -- at every intermediate state and at the end -- an archive satisfying
   [Ready]: header, no lock, well-formed directories, referential integrity (no entry refers
   to a missing or short block) and format conformance. *)
Theorem C03_every_crash_state_is_ready :
  forall (pre : bytes -> N) (c : cfg) (src : list sitem) (a0 : Store.arch) (phi : list fault),
    Ready pre a0 -> SrcSorted src -> SrcValid src -> SrcWF src ->
    Forall (Ready pre) (all_states pre (backup_prog pre c src) a0 phi).
Proof. exact backup_ready_all. Qed.
Print Assumptions C03_every_crash_state_is_ready.

(* ... hence ("a later backup of the same source completes and restores exactly") a later
   backup that meets no fault succeeds and restores exactly: instance l1 = [the crashed
   backup], l2 = [] of the history theorem. *)
Theorem C03_later_backup_completes_and_restores_exactly :
  forall (pre : bytes -> N) (l1 : list hop2) (c : cfg) (src : list sitem) (l2 : list hop2) (a0 : Store.arch),
    Ready pre a0 ->
    Forall hop2_src_ok (l1 ++ H2Backup c src [] :: l2) -> cfg_ok c ->
    Forall hop2_unlocking l1 ->
    let a_before := run_history2 pre a0 l1 in
    let a_end := run_history2 pre a0 (l1 ++ H2Backup c src [] :: l2) in
    let b := new_band a_before in
    Forall (hop2_keeps b) l2 ->
    backup_completed pre c src a_before [] b
    /\ FrameP.complete a_end b
    /\ exists tr rr,
         run pre (restore_prog (Specified b) keep_all) a_end [] = (tr, a_end, Store.Done rr)
         /\ r_ok rr = true /\ r_merr rr = 0
         /\ Forall2 (item_restored c a_before) (known_items src) (r_files rr).
Proof. exact history_restores_exact_ff. Qed.
Print Assumptions C03_later_backup_completes_and_restores_exactly.
