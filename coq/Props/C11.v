(* C11 — Paths have one total order, shared by the source walk and every index.
   This file contains only the property theorems; each is closed by `exact`. *)
From CV Require Import Base.Str Base.Order Base.StrP Apath ApathP.

(* The implemented comparison loop is the documented rule: compare the directory
   parts component-wise (bytes; a proper prefix first), then the final names. *)
Theorem C11_cmp_is_documented_rule : forall a b,
  apath_cmp a b = spec_cmp (split_on SLASH a) (split_on SLASH b).
Proof. exact cmp_eq_spec. Qed.
Print Assumptions C11_cmp_is_documented_rule.

(* Equal paths and only equal paths compare equal — for ALL strings. *)
Theorem C11_eq_iff : forall a b, apath_cmp a b = Eq <-> a = b.
Proof. exact apath_cmp_eq. Qed.
Print Assumptions C11_eq_iff.

Theorem C11_antisym : forall a b, apath_cmp b a = CompOpp (apath_cmp a b).
Proof. exact apath_cmp_anti. Qed.
Print Assumptions C11_antisym.

Theorem C11_trans : forall a b c,
  apath_cmp a b = Lt -> apath_cmp b c = Lt -> apath_cmp a c = Lt.
Proof. exact apath_cmp_trans. Qed.
Print Assumptions C11_trans.

(* Well-formedness accepts exactly "/" and "/c1/.../cn" with every component
   non-empty, not "." or "..", free of NUL (and of '/'). *)
Theorem C11_valid_iff : forall s,
  is_valid s = true <->
  (s = [SLASH] \/ exists cs, cs <> [] /\ Forall comp_ok cs /\ s = SLASH :: join SLASH cs).
Proof. exact valid_iff. Qed.
Print Assumptions C11_valid_iff.

(* A directory's direct children precede everything in its sub-directories. *)
Theorem C11_children_before_grandchildren : forall a b r,
  r <> [] -> dir_part b = dir_part a ++ r -> apath_cmp a b = Lt.
Proof. exact children_before_grandchildren. Qed.
Print Assumptions C11_children_before_grandchildren.

(* Each subtree is contiguous: the proper descendants of d form an interval. *)
Theorem C11_subtree_contiguous : forall d a b c,
  is_prefix (split_on SLASH d) (dir_part a) ->
  is_prefix (split_on SLASH d) (dir_part c) ->
  apath_cmp a b <> Gt -> apath_cmp b c <> Gt ->
  is_prefix (split_on SLASH d) (dir_part b).
Proof. exact descendants_convex. Qed.
Print Assumptions C11_subtree_contiguous.
