(* C16 — Restore stays inside its destination.  The part that is logic: which entries of
   a (possibly stitched) listing restore goes on to create.  The file-system calls
   themselves (symlink_metadata / lutimes / lchown, O_NOFOLLOW behaviour) are observed by
   the sandbox check, not modelled. *)
From Coq Require Import List NArith.
From CV Require Import Base.Str Apath ApathP Entry Valid ValidP.
Local Open Scope N_scope.

(* In the list of entries restore goes on to create, no entry lies strictly beneath an
   EARLIER symlink entry: nothing is ever created through a link this restore made. *)
Theorem C16_nothing_beneath_a_restored_symlink :
  forall (es l1 : list entry) (s : entry) (l2 : list entry) (e : entry) (l3 : list entry),
    fst (guard_links es) = l1 ++ s :: l2 ++ e :: l3 -> e_kind s = KSymlink ->
    (is_prefix_of (e_apath s) (e_apath e) = true /\ e_apath s <> e_apath e) -> False.
Proof. exact guard_links_confined. Qed.
Print Assumptions C16_nothing_beneath_a_restored_symlink.

(* ... whichever of the symlinks were actually created (a failed symlink is not remembered). *)
Theorem C16_guard_accounts : forall (created : entry -> bool) (es : list entry),
  confined created (fst (guard_links_gen created es)).
Proof. exact guard_links_gen_confined. Qed.
Print Assumptions C16_guard_accounts.

(* The guard refuses nothing of a real tree's listing (where a symlink has no children):
   restore of a complete version is unaffected. *)
Theorem C16_guard_is_identity_on_trees : forall es : list entry,
  (forall s e, In s es -> In e es -> e_kind s = KSymlink ->
     is_prefix_of (e_apath s) (e_apath e) = true -> e_apath s = e_apath e) ->
  guard_links es = (es, 0).
Proof. exact guard_links_tree_identity. Qed.
Print Assumptions C16_guard_is_identity_on_trees.

(* [is_prefix_of] is exactly component-wise ancestry (Props/C12.v). *)
