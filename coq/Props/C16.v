(* C16 — Restore stays inside its destination.  Two parts that are logic: which entries of
   a (possibly stitched) listing restore goes on to create (the guard), and which paths its
   file-system calls name given what the destination holds (Dest.v: a call "resolves through
   a symlink" when a directory above its last component, or -- for the calls that follow it
   -- the last component itself, is a link in the destination; such a call would act outside).
   Modes, owners, times and the kernel's own resolution are observed by the sandbox check,
   not modelled. *)
From Coq Require Import List NArith.
From CV Require Import Base.Str Apath ApathP Entry Valid ValidP Dest DestP.
From CV Require DestSeqP.
Local Open Scope N_scope.

(* In the list of entries restore goes on to create, no entry lies strictly beneath an
   EARLIER symlink entry: nothing is ever created through a link this restore made. *)
Theorem C16_nothing_beneath_a_restored_symlink :
  forall (es l1 : list entry) (s : entry) (l2 : list entry) (e : entry) (l3 : list entry),
    fst (guard_links es) = l1 ++ s :: l2 ++ e :: l3 -> e_kind s = KSymlink ->
    (is_prefix_of (e_apath s) (e_apath e) = true /\ e_apath s <> e_apath e) -> False.
Proof. exact guard_links_confined. Qed.
Print Assumptions C16_nothing_beneath_a_restored_symlink.

(* ... whichever of the symlinks were actually created (a failed symlink is not remembered). *)
Theorem C16_guard_accounts : forall (created : entry -> bool) (es : list entry),
  confined created (fst (guard_links_gen created es)).
Proof. exact guard_links_gen_confined. Qed.
Print Assumptions C16_guard_accounts.

(* The guard refuses nothing of a real tree's listing (where a symlink has no children):
   restore of a complete version is unaffected. *)
Theorem C16_guard_is_identity_on_trees : forall es : list entry,
  (forall s e, In s es -> In e es -> e_kind s = KSymlink ->
     is_prefix_of (e_apath s) (e_apath e) = true -> e_apath s = e_apath e) ->
  guard_links es = (es, 0).
Proof. exact guard_links_tree_identity. Qed.
Print Assumptions C16_guard_is_identity_on_trees.

(* [is_prefix_of] is exactly component-wise ancestry (Props/C12.v). *)

(* ------------------------------------------------------------------------- *)
(* The destination side.  [tree_like f]: whatever exists in the destination lies beneath
   existing things that are not symlinks -- true of every real directory ([dir_tree]). *)

(* With the overwrite option, from ANY contents of the destination (links, files where
   directories are expected, anything a directory can hold) and for ANY listing (no order,
   validity or distinctness assumed), no call restore makes -- creating, replacing,
   looking, or the deferred directory metadata at the end -- resolves through a symlink. *)
Theorem C16_overwrite_never_writes_through_a_link :
  forall (content_of : entry -> bytes) (f : fs) (es : list entry) (s : dstate),
    tree_like f ->
    restore_into content_of true f es = Some s -> d_esc s = 0.
Proof. exact overwrite_never_resolves_through_a_link. Qed.
Print Assumptions C16_overwrite_never_writes_through_a_link.

Theorem C16_every_directory_is_tree_like : forall f : fs, dir_tree f -> tree_like f.
Proof. exact dir_tree_tree_like. Qed.
Print Assumptions C16_every_directory_is_tree_like.

(* Without it restore starts from the empty destination: the same, for every listing of
   valid, distinct paths (as every stitched listing is: Props/C08.v, strictly ordered). *)
Theorem C16_fresh_restore_never_writes_through_a_link :
  forall content_of es s,
    (forall e, In e es -> is_valid (e_apath e) = true) ->
    NoDup (map e_apath es) ->
    restore_into content_of false [] es = Some s -> d_esc s = 0.
Proof. exact fresh_never_resolves_through_a_link. Qed.
Print Assumptions C16_fresh_restore_never_writes_through_a_link.

(* ... and distinctness is needed: a listing that names one path twice, as a symlink and
   then as a file, is written through the link just made. *)
Theorem C16_duplicate_path_refuted :
  exists content_of es s,
    (forall e, In e es -> is_valid (e_apath e) = true) /\
    restore_into content_of false [] es = Some s /\ d_esc s <> 0.
Proof. exact fresh_duplicate_path_refuted. Qed.
Print Assumptions C16_duplicate_path_refuted.

(* A non-empty destination is refused (and, the model being a function, untouched). *)
Theorem C16_nonempty_destination_refused :
  forall content_of f es, f <> [] -> restore_into content_of false f es = None.
Proof. exact nonempty_destination_refused. Qed.
Print Assumptions C16_nonempty_destination_refused.

(* The loop as it was before "fix: restore with overwrite wrote through symlinks already in
   the destination": one version restored over another goes through the first one's link. *)
Theorem C16_unchecked_overwrite_refuted :
  exists content_of f es, d_esc (restore_into_unchecked content_of f es) <> 0.
Proof. exact unchecked_loop_refuted. Qed.
Print Assumptions C16_unchecked_overwrite_refuted.

(* What restore reports as restored is there afterwards, in either mode, from any
   destination the run accepts (a directory entry may find a regular file in its place:
   create_dir_all's AlreadyExists is taken for success). *)
Theorem C16_restored_entries_are_there :
  forall content_of ow f es s e,
    (forall e', In e' es -> is_valid (e_apath e') = true) ->
    NoDup (map e_apath es) ->
    restore_into content_of ow f es = Some s ->
    In e es -> In (e_apath e) (d_done s) ->
    (e_kind e = KFile -> node_at (d_fs s) (comps (e_apath e)) = Some (NFile (content_of e))) /\
    (e_kind e = KSymlink ->
       exists t, e_target e = Some t /\ node_at (d_fs s) (comps (e_apath e)) = Some (NLink t)) /\
    (e_kind e = KDir ->
       is_dir (node_at (d_fs s) (comps (e_apath e))) = true \/
       is_file (node_at (d_fs s) (comps (e_apath e))) = true).
Proof. exact restored_entries_are_there. Qed.
Print Assumptions C16_restored_entries_are_there.

(* ANY SEQUENCE of restores into one directory -- each with its own listing and its own
   overwrite flag, the first into whatever tree-like contents the directory has -- makes no
   call that resolves through a symlink, provided the listings restored WITHOUT overwrite
   (which only run when the directory is then empty) name valid distinct paths; and the
   directory is tree-like afterwards.  [restore_seq] threads the destination through the
   restores and adds up [d_esc]; None = one of them was refused. *)
Theorem C16_restore_sequence_never_writes_through_a_link :
  forall (content_of : entry -> bytes) (rs : list (bool * list entry)) (f f' : fs) (n : N),
    tree_like f ->
    (forall es, In (false, es) rs ->
       (forall e, In e es -> is_valid (e_apath e) = true) /\ NoDup (map e_apath es)) ->
    DestSeqP.restore_seq content_of f rs = Some (f', n) ->
    n = 0 /\ tree_like f'.
Proof. exact DestSeqP.restore_sequence_never_resolves_through_a_link. Qed.
Print Assumptions C16_restore_sequence_never_writes_through_a_link.

(* The history of defect F18: one version restored into an empty directory, ANOTHER restored
   over it with the overwrite option (any listing at all). *)
Theorem C16_restore_then_overwrite_never_writes_through_a_link :
  forall content_A content_B A B f' n,
    (forall e, In e A -> is_valid (e_apath e) = true) -> NoDup (map e_apath A) ->
    DestSeqP.restore_seq_gen [] [(content_A, false, A); (content_B, true, B)] = Some (f', n) ->
    n = 0 /\ tree_like f'.
Proof. exact DestSeqP.restore_then_overwrite_never_resolves_through_a_link. Qed.
Print Assumptions C16_restore_then_overwrite_never_writes_through_a_link.
