(* C13 — Everything written conforms to the documented archive format. *)
From CV Require Import Base.Str Apath Entry Store StitchProg Backup Inv RefIntP Conf ConfP.

(* Conf a: for every band — hunks numbered consecutively from zero, each non-empty (the last
   may be the zero-length leftover of a killed write); entries strictly increasing within
   and across hunks; valid paths; only files carry addresses (all of positive length);
   only symlinks carry a target; a tail states the true hunk count.
   For whatever a backup has written at ANY point: every crash point, every fault list. *)
Theorem C13_backup_conforms_at_every_point :
  forall (pre : bytes -> N) (cf : cfg) (src : list sitem) (a0 : arch) (phi : list fault),
    SrcSorted src -> SrcValid src -> SrcWF src -> Conf a0 -> WFparents pre a0 ->
    Forall Conf (run_states pre (backup_prog pre cf src) a0 phi) /\
    Conf (snd (fst (run pre (backup_prog pre cf src) a0 phi))).
Proof. exact backup_conf_wf. Qed.
Print Assumptions C13_backup_conforms_at_every_point.

(* ... and every entry of the new band is the source entry's metadata with addresses whose
   lengths sum to the file's size (for max_block_size >= 1). *)
Theorem C13_new_entries_come_from_the_source :
  forall (pre : bytes -> N) (cf : cfg) (src : list sitem) (a0 : arch) (phi : list fault),
    SrcSorted src -> SrcValid src -> SrcWF src -> Conf a0 -> NoOrphans a0 ->
    Forall (fun a : arch => Conf a /\ NewFromSrc a0 cf src a) (run_states pre (backup_prog pre cf src) a0 phi) /\
    Conf (snd (fst (run pre (backup_prog pre cf src) a0 phi))) /\
    NewFromSrc a0 cf src (snd (fst (run pre (backup_prog pre cf src) a0 phi))).
Proof. exact backup_conf_full. Qed.
Print Assumptions C13_new_entries_come_from_the_source.

(* Conformance, reference integrity (every address inside a present block named by its
   content) and directory well-formedness are preserved together, so backups chain. *)
Theorem C13_invariants_chain :
  forall (pre : bytes -> N) (cf : cfg) (src : list sitem) (a0 : arch) (phi : list fault),
    SrcSorted src -> SrcValid src -> SrcWF src -> Conf a0 -> AInv a0 -> WFparents pre a0 ->
    Forall (fun a : arch => Conf a /\ AInv a /\ WFparents pre a) (run_states pre (backup_prog pre cf src) a0 phi) /\
    Conf (snd (fst (run pre (backup_prog pre cf src) a0 phi))) /\
    AInv (snd (fst (run pre (backup_prog pre cf src) a0 phi))) /\
    WFparents pre (snd (fst (run pre (backup_prog pre cf src) a0 phi))).
Proof. exact backup_conf_ainv. Qed.
Print Assumptions C13_invariants_chain.
