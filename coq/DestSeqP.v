(* C16: ANY SEQUENCE of restores into one directory stays inside it.

   [restore_seq] runs restores one after another on the same destination, each with its own
   overwrite flag and listing (and, in [restore_seq_gen], its own file contents), threading
   the destination; it stops with [None] as soon as one is refused (DestinationNotEmpty) and
   otherwise returns the final destination and the TOTAL number of file-system calls that
   resolved a path through a symlink.

     fresh_keeps_the_invariant
     restore_sequence_never_resolves_through_a_link   (and ..._gen)
     restore_then_overwrite_never_resolves_through_a_link *)
From Coq Require Import List NArith Bool Lia.
From CV Require Import Base.Str Base.StrP Apath ApathP Entry Valid Dest DestP DestTreeP.
Import ListNotations.
Local Open Scope N_scope.

(* one restore: (file contents, overwrite, listing) *)
Definition restore_req : Type := ((entry -> bytes) * bool * list entry)%type.

Fixpoint restore_seq_gen (f : fs) (rs : list restore_req) : option (fs * N) :=
  match rs with
  | [] => Some (f, 0)
  | (content_of, overwrite, es) :: rs' =>
      match restore_into content_of overwrite f es with
      | None => None
      | Some s =>
          match restore_seq_gen (d_fs s) rs' with
          | None => None
          | Some (f', n) => Some (f', d_esc s + n)
          end
      end
  end.

(* the same with one contents function for all *)
Definition restore_seq (content_of : entry -> bytes) (f : fs) (rs : list (bool * list entry))
  : option (fs * N) :=
  restore_seq_gen f (map (fun r => (content_of, fst r, snd r)) rs).

(* ------------------------------------------------------------------------- *)
(* a restore without --overwrite ends in a state satisfying the invariant, too *)
Theorem fresh_keeps_the_invariant :
  forall content_of es s,
    (forall e, In e es -> is_valid (e_apath e) = true) ->
    NoDup (map e_apath es) ->
    restore_into content_of false [] es = Some s -> Good s.
Proof.
  intros content_of es s V N H. unfold restore_into in H. cbn [negb andb] in H. injection H as <-.
  assert (G : Good (fold_left (restore_entry content_of false) es (start []))).
  { apply fresh_loop; auto.
    - apply Good_start, tree_like_nil.
    - intros q L. destruct q; discriminate.
    - intros a []. }
  rewrite (apply_deferrals_good _ G). exact G.
Qed.

(* one restore, either mode *)
Lemma one_restore_good content_of ow f es s :
  tree_like f ->
  (ow = false -> (forall e, In e es -> is_valid (e_apath e) = true) /\ NoDup (map e_apath es)) ->
  restore_into content_of ow f es = Some s -> Good s.
Proof.
  intros W H R. destruct ow.
  - exact (overwrite_keeps_the_invariant content_of f es s W R).
  - destruct (H eq_refl) as [V N].
    destruct f as [|b f]; [|unfold restore_into in R; discriminate].
    exact (fresh_keeps_the_invariant content_of es s V N R).
Qed.

Theorem restore_sequence_never_resolves_through_a_link_gen :
  forall (rs : list restore_req) (f f' : fs) (n : N),
    tree_like f ->
    (forall content_of es, In (content_of, false, es) rs ->
       (forall e, In e es -> is_valid (e_apath e) = true) /\ NoDup (map e_apath es)) ->
    restore_seq_gen f rs = Some (f', n) ->
    n = 0 /\ tree_like f'.
Proof.
  induction rs as [|[[content_of ow] es] rs IH]; intros f f' n W H R; cbn [restore_seq_gen] in R.
  - inversion R; subst. auto.
  - destruct (restore_into content_of ow f es) as [s|] eqn:E; [|discriminate].
    assert (G : Good s).
    { apply (one_restore_good content_of ow f es s W); [|exact E].
      intros ->. apply (H content_of es). left. reflexivity. }
    destruct (restore_seq_gen (d_fs s) rs) as [[f1 n1]|] eqn:E1; [|discriminate].
    inversion R; subst.
    destruct (IH (d_fs s) f' n1) as [-> W']; [apply G| |exact E1|].
    + intros c es' Hin. apply (H c es'). right. exact Hin.
    + split; [|exact W']. destruct G as [-> _]. reflexivity.
Qed.

Theorem restore_sequence_never_resolves_through_a_link :
  forall (content_of : entry -> bytes) (rs : list (bool * list entry)) (f f' : fs) (n : N),
    tree_like f ->
    (forall es, In (false, es) rs ->
       (forall e, In e es -> is_valid (e_apath e) = true) /\ NoDup (map e_apath es)) ->
    restore_seq content_of f rs = Some (f', n) ->
    n = 0 /\ tree_like f'.
Proof.
  intros content_of rs f f' n W H R. unfold restore_seq in R.
  eapply (restore_sequence_never_resolves_through_a_link_gen _ f f' n W); [|exact R].
  intros c es Hin. apply in_map_iff in Hin. destruct Hin as [[ow es'] [E Hin]].
  cbn in E. inversion E; subst. apply H. exact Hin.
Qed.

(* the defect scenario: one version restored into the empty directory, then ANY listing
   restored over it with --overwrite (each with its own file contents) *)
Corollary restore_then_overwrite_never_resolves_through_a_link :
  forall (content_A content_B : entry -> bytes) (A B : list entry) (f' : fs) (n : N),
    (forall e, In e A -> is_valid (e_apath e) = true) -> NoDup (map e_apath A) ->
    restore_seq_gen [] [(content_A, false, A); (content_B, true, B)] = Some (f', n) ->
    n = 0 /\ tree_like f'.
Proof.
  intros cA cB A B f' n V N R.
  eapply (restore_sequence_never_resolves_through_a_link_gen _ [] f' n tree_like_nil); [|exact R].
  intros c es [E|[E|[]]]; inversion E; subst. auto.
Qed.

(* the sequence is never refused when every restore after the first overwrites *)
Lemma restore_seq_gen_overwrites_run rs : forall f,
  (forall c ow es, In (c, ow, es) rs -> ow = true) -> exists r, restore_seq_gen f rs = Some r.
Proof.
  induction rs as [|[[c ow] es] rs IH]; intros f H; cbn [restore_seq_gen]; [eexists; reflexivity|].
  rewrite (H c ow es (or_introl eq_refl)). unfold restore_into at 1. cbn [negb andb].
  destruct (IH (d_fs (apply_deferrals (fold_left (restore_entry c true) es (start f))))) as [[f1 n1] E].
  - intros c' ow' es' Hin. apply (H c' ow' es'). right. exact Hin.
  - rewrite E. eexists. reflexivity.
Qed.

(* ------------------------------------------------------------------------- *)
(* Example: version A holds the symlinks /d -> ../outside/sdir and /f -> ../outside/sentinel;
   version B holds the directory /d with the files /d/inner, /d/more and the file /f.
   A is restored into the empty directory, then B over it. *)
Definition seq_A : list entry :=
  [ mk_entry [47] KDir None;
    mk_entry [47; 100] KSymlink (Some [46; 46; 47; 111; 117; 116; 115; 105; 100; 101; 47; 115; 100; 105; 114]);
    mk_entry [47; 102] KSymlink
      (Some [46; 46; 47; 111; 117; 116; 115; 105; 100; 101; 47; 115; 101; 110; 116; 105; 110; 101; 108]) ].
Definition seq_B : list entry :=
  [ mk_entry [47] KDir None;
    mk_entry [47; 100] KDir None;
    mk_entry [47; 100; 47; 105; 110; 110; 101; 114] KFile None;
    mk_entry [47; 100; 47; 109; 111; 114; 101] KFile None;
    mk_entry [47; 102] KFile None ].

Example restore_A_then_B :
  (forall e, In e seq_A -> is_valid (e_apath e) = true) /\ NoDup (map e_apath seq_A) /\
  (* after A alone: the two links *)
  restore_seq content_bang [] [(false, seq_A)] =
    Some ([ ([[102]], NLink [46; 46; 47; 111; 117; 116; 115; 105; 100; 101; 47; 115; 101; 110; 116; 105; 110; 101; 108]);
            ([[100]], NLink [46; 46; 47; 111; 117; 116; 115; 105; 100; 101; 47; 115; 100; 105; 114]) ], 0) /\
  (* after B over it: B's nodes, no call through a link *)
  restore_seq content_bang [] [(false, seq_A); (true, seq_B)] =
    Some ([ ([[102]], NFile [47; 102; 33]);
            ([[100]; [109; 111; 114; 101]], NFile [47; 100; 47; 109; 111; 114; 101; 33]);
            ([[100]; [105; 110; 110; 101; 114]], NFile [47; 100; 47; 105; 110; 110; 101; 114; 33]);
            ([[100]], NDir) ], 0) /\
  (* B a second time without --overwrite is refused *)
  restore_seq content_bang [] [(false, seq_A); (false, seq_B)] = None /\
  (* the loop before the fix, on the destination A left: four calls go through the links *)
  d_esc (restore_into_unchecked content_bang
           [ ([[102]], NLink [46; 46; 47; 111; 117; 116; 115; 105; 100; 101; 47; 115; 101; 110; 116; 105; 110; 101; 108]);
             ([[100]], NLink [46; 46; 47; 111; 117; 116; 115; 105; 100; 101; 47; 115; 100; 105; 114]) ] seq_B) = 4.
Proof.
  split; [|split].
  - intros e H. cbn in H. repeat (destruct H as [<-|H]; [reflexivity|]). contradiction.
  - cbn. repeat (constructor; [cbn; intuition discriminate|]). constructor.
  - vm_compute. repeat split; reflexivity.
Qed.

Print Assumptions fresh_keeps_the_invariant.
Print Assumptions restore_sequence_never_resolves_through_a_link_gen.
Print Assumptions restore_sequence_never_resolves_through_a_link.
Print Assumptions restore_then_overwrite_never_resolves_through_a_link.
Print Assumptions restore_A_then_B.
