(* Proofs about the Apath model (C11, C12). *)
From Coq Require Import Lia Arith PeanoNat.
From CV Require Import Base.Str Base.Order Base.StrP Apath.

(* ------------------------------------------------------------------ *)
(* The loop is the documented rule.                                     *)

Lemma removelast_cons2 {A} (x y : A) l : removelast (x :: y :: l) = x :: removelast (y :: l).
Proof. reflexivity. Qed.
Lemma last_cons2 {A} (x y : A) l d : last (x :: y :: l) d = last (y :: l) d.
Proof. reflexivity. Qed.

Theorem cmp_loop_eq_spec oa ra : forall ob rb,
    cmp_loop oa ob ra rb = spec_cmp (oa :: ra) (ob :: rb).
Proof.
  revert oa. induction ra as [|ac ra IH]; intros oa ob rb.
  - destruct rb as [|bc rb]; cbn [cmp_loop].
    + reflexivity.
    + unfold spec_cmp. rewrite removelast_cons2. reflexivity.
  - destruct rb as [|bc rb]; cbn [cmp_loop].
    + unfold spec_cmp. rewrite removelast_cons2. reflexivity.
    + unfold spec_cmp. rewrite !removelast_cons2, !last_cons2. cbn [lex_cmp].
      destruct (str_cmp oa ob); auto. apply IH.
Qed.

Theorem cmp_eq_spec a b :
  apath_cmp a b = spec_cmp (split_on SLASH a) (split_on SLASH b).
Proof.
  unfold apath_cmp.
  destruct (split_on SLASH a) as [|oa ra] eqn:Ea; [exfalso; eapply split_on_nonempty; eauto|].
  destruct (split_on SLASH b) as [|ob rb] eqn:Eb; [exfalso; eapply split_on_nonempty; eauto|].
  apply cmp_loop_eq_spec.
Qed.

(* ------------------------------------------------------------------ *)
(* spec_cmp is a strict total order on non-empty component lists.       *)

Lemma lex_cmp_lexc l : forall m, lex_cmp l m = lexc str_cmp l m.
Proof. induction l as [|x l IH]; intros [|y m]; cbn; auto; try (rewrite IH; reflexivity). Qed.

Lemma spec_cmp_unfold l m :
  spec_cmp l m = match lexc str_cmp (removelast l) (removelast m) with
                 | Eq => str_cmp (last l []) (last m []) | c => c end.
Proof. unfold spec_cmp. rewrite lex_cmp_lexc. reflexivity. Qed.

Lemma app_removelast_last' {A} (l : list A) d : l <> [] -> l = removelast l ++ [last l d].
Proof. apply app_removelast_last. Qed.

Lemma spec_cmp_eq l m : l <> [] -> m <> [] -> (spec_cmp l m = Eq <-> l = m).
Proof.
  intros Hl Hm. rewrite spec_cmp_unfold.
  split.
  - destruct (lexc str_cmp (removelast l) (removelast m)) eqn:E; try discriminate.
    intros H. apply (lexc_eq str_cmp str_order) in E. apply str_cmp_eq in H.
    rewrite (app_removelast_last' l [] Hl), (app_removelast_last' m [] Hm), E, H. reflexivity.
  - intros ->. rewrite (proj2 (lexc_eq str_cmp str_order _ _) eq_refl).
    apply str_cmp_eq. reflexivity.
Qed.

Lemma spec_cmp_anti l m : spec_cmp m l = CompOpp (spec_cmp l m).
Proof.
  rewrite !spec_cmp_unfold.
  rewrite (lexc_anti str_cmp str_order (removelast l) (removelast m)).
  destruct (lexc str_cmp (removelast l) (removelast m)); cbn; auto.
  apply str_cmp_anti.
Qed.

Lemma spec_cmp_trans l m n : spec_cmp l m = Lt -> spec_cmp m n = Lt -> spec_cmp l n = Lt.
Proof.
  rewrite !spec_cmp_unfold.
  destruct (lexc str_cmp (removelast l) (removelast m)) eqn:E1; try discriminate.
  - apply (lexc_eq str_cmp str_order) in E1. rewrite E1.
    destruct (lexc str_cmp (removelast m) (removelast n)); try discriminate; auto.
    apply str_cmp_trans.
  - intros _.
    destruct (lexc str_cmp (removelast m) (removelast n)) eqn:E2; try discriminate.
    + apply (lexc_eq str_cmp str_order) in E2. rewrite <- E2, E1. reflexivity.
    + intros _. rewrite (lexc_trans str_cmp str_order _ _ _ E1 E2). reflexivity.
Qed.

(* ------------------------------------------------------------------ *)
(* apath_cmp is a strict total order on ALL strings.                    *)

Theorem apath_cmp_eq a b : apath_cmp a b = Eq <-> a = b.
Proof.
  rewrite cmp_eq_spec, spec_cmp_eq by apply split_on_nonempty.
  split; [apply split_on_inj | intros ->; reflexivity].
Qed.

Theorem apath_cmp_anti a b : apath_cmp b a = CompOpp (apath_cmp a b).
Proof. rewrite !cmp_eq_spec. apply spec_cmp_anti. Qed.

Theorem apath_cmp_trans a b c :
  apath_cmp a b = Lt -> apath_cmp b c = Lt -> apath_cmp a c = Lt.
Proof. rewrite !cmp_eq_spec. apply spec_cmp_trans. Qed.

Theorem apath_order : CmpOrder apath_cmp.
Proof.
  constructor; [apply apath_cmp_eq | intros; apply apath_cmp_anti | apply apath_cmp_trans].
Qed.

Lemma apath_cmp_refl a : apath_cmp a a = Eq.
Proof. apply apath_cmp_eq. reflexivity. Qed.

(* ------------------------------------------------------------------ *)
(* Well-formedness.                                                     *)

Definition comp_ok (c : str) : Prop :=
  c <> [] /\ c <> [DOT] /\ c <> [DOT; DOT] /\ ~ In 0 c /\ ~ In SLASH c.

Lemma negb_str_eqb a b : negb (str_eqb a b) = true <-> a <> b.
Proof. rewrite negb_true_iff. rewrite <- str_eqb_eq. destruct (str_eqb a b); split; congruence. Qed.

Lemma part_ok_spec p : part_ok p = true <-> (p <> [] /\ p <> [DOT] /\ p <> [DOT; DOT] /\ ~ In 0 p).
Proof.
  unfold part_ok. rewrite !andb_true_iff, !negb_str_eqb, negb_true_iff, mem_byte_false. tauto.
Qed.

Theorem valid_iff s :
  is_valid s = true <->
  (s = [SLASH] \/ exists cs, cs <> [] /\ Forall comp_ok cs /\ s = SLASH :: join SLASH cs).
Proof.
  unfold is_valid. split.
  - destruct s as [|c rest]; [discriminate|].
    destruct (N.eqb c SLASH) eqn:Ec; [|discriminate]. apply N.eqb_eq in Ec. subst c.
    destruct rest as [|r rest]; [left; reflexivity|].
    intros H. right. exists (split_on SLASH (r :: rest)). split; [apply split_on_nonempty|]. split.
    + rewrite forallb_forall in H. apply Forall_forall. intros p Hp.
      specialize (H p Hp). apply part_ok_spec in H.
      pose proof (split_on_parts_nosep SLASH (r :: rest)) as N. rewrite Forall_forall in N.
      specialize (N p Hp). unfold comp_ok. tauto.
    + rewrite join_split. reflexivity.
  - intros [->|[cs [Hne [Hok ->]]]]; [reflexivity|].
    rewrite N.eqb_refl.
    destruct (join SLASH cs) as [|r rest] eqn:J.
    + (* join = [] forces cs = [[]] , which is not ok *)
      destruct cs as [|w [|v cs]]; [congruence| |].
      * cbn in J. subst w. inversion Hok; subst. unfold comp_ok in *. tauto.
      * rewrite join_cons2 in J. destruct w; discriminate.
    + rewrite <- J. rewrite split_join; [|exact Hne|].
      * apply forallb_forall. intros p Hp. apply part_ok_spec.
        rewrite Forall_forall in Hok. specialize (Hok p Hp). unfold comp_ok in Hok. tauto.
      * eapply Forall_impl; [|exact Hok]. unfold comp_ok. tauto.
Qed.

(* a valid path's components: comps (/ c1 / ... / cn) = [c1..cn] *)
Lemma comps_root : comps [SLASH] = [].
Proof. reflexivity. Qed.

Lemma comps_join cs : cs <> [] -> Forall comp_ok cs -> comps (SLASH :: join SLASH cs) = cs.
Proof.
  intros Hne Hok. unfold comps. rewrite N.eqb_refl.
  destruct (join SLASH cs) as [|r rest] eqn:J.
  - destruct cs as [|w [|v cs]]; [congruence| |].
    + cbn in J. subst w. inversion Hok; subst. unfold comp_ok in *. tauto.
    + rewrite join_cons2 in J. destruct w; discriminate.
  - rewrite <- J. apply split_join; [exact Hne|].
    eapply Forall_impl; [|exact Hok]. unfold comp_ok. tauto.
Qed.

(* ------------------------------------------------------------------ *)
(* is_prefix_of                                                         *)

Lemma comp_prefix_spec p : forall q, comp_prefix p q = true <-> exists r, q = p ++ r.
Proof.
  induction p as [|x p IH]; intros q; cbn.
  - split; [intros _; exists q; reflexivity | reflexivity].
  - destruct q as [|y q]; [split; [discriminate | intros [r H]; discriminate]|].
    rewrite andb_true_iff, str_eqb_eq, IH. split.
    + intros [-> [r ->]]. exists r. reflexivity.
    + intros [r H]. inversion H; subst. split; [reflexivity | exists r; reflexivity].
Qed.

Lemma join_app sep l m : l <> [] -> m <> [] ->
  join sep (l ++ m) = join sep l ++ sep :: join sep m.
Proof.
  intros Hl Hm. induction l as [|w l IH]; [congruence|].
  destruct l as [|v l].
  - cbn [app]. destruct m; [congruence|]. rewrite join_cons2. reflexivity.
  - cbn [app] in *. rewrite !join_cons2, IH by discriminate. rewrite <- app_assoc. reflexivity.
Qed.

Lemma nth_error_app_len {A} (l : list A) x r : nth_error (l ++ x :: r) (length l) = Some x.
Proof. induction l; cbn; auto. Qed.

Lemma join_nosep_hd sep (cs : list str) x t :
  Forall (fun w => ~ In sep w) cs -> cs <> [] -> join sep cs = x ++ sep :: t ->
  ~ In sep x -> exists cs', cs = x :: cs' /\ cs' <> [] /\ t = join sep cs'.
Proof.
  intros Hns Hne J Hx.
  assert (S : split_on sep (join sep cs) = cs) by (apply split_join; assumption).
  rewrite J, split_on_app_sep in S by exact Hx.
  exists (split_on sep t). split; [congruence|]. split; [apply split_on_nonempty|].
  rewrite join_split. reflexivity.
Qed.

Lemma join_ends sep cs : cs <> [] -> exists pre, join sep cs = pre ++ last cs [].
Proof.
  induction cs as [|w cs IH]; [congruence|]. intros _.
  destruct cs as [|v cs].
  - exists []. reflexivity.
  - destruct IH as [pre E]; [discriminate|].
    exists (w ++ sep :: pre). rewrite join_cons2, E, last_cons2, <- app_assoc. reflexivity.
Qed.

Lemma valid_not_ends_slash ca :
  ca <> [] -> Forall comp_ok ca -> ends_with_byte (SLASH :: join SLASH ca) SLASH = false.
Proof.
  intros Hca Oka.
  destruct (ends_with_byte (SLASH :: join SLASH ca) SLASH) eqn:E; [|reflexivity].
  exfalso. apply ends_with_byte_app in E. destruct E as [r E].
  destruct (join_ends SLASH ca Hca) as [pre J].
  assert (Hl : In (last ca []) ca).
  { rewrite (app_removelast_last [] Hca) at 2. apply in_or_app. right. left. reflexivity. }
  rewrite Forall_forall in Oka. apply Oka in Hl. destruct Hl as [Hne [_ [_ [_ Hns]]]].
  rewrite J in E.
  rewrite (app_removelast_last 0 Hne) in E.
  rewrite app_assoc, app_comm_cons in E.
  apply app_inj_tail in E. destruct E as [_ E].
  apply Hns. rewrite (app_removelast_last 0 Hne). apply in_or_app. right. left. exact E.
Qed.

(* the repaired implementation (byte index) is exactly component-wise ancestry *)
Theorem is_prefix_of_spec a b :
  is_valid a = true -> is_valid b = true ->
  is_prefix_of_gen false a b = comp_prefix (comps a) (comps b).
Proof.
  intros Va Vb. apply valid_iff in Va, Vb.
  apply eq_true_iff_eq. rewrite comp_prefix_spec.
  unfold is_prefix_of_gen.
  destruct Va as [->|[ca [Hca [Oka ->]]]].
  - (* a = "/" : prefix of everything valid *)
    rewrite comps_root. cbn [app].
    destruct Vb as [->|[cb [Hcb [Okb ->]]]].
    + cbn. split; [eexists; reflexivity | reflexivity].
    + split; [intros _; eexists; reflexivity|]. intros _.
      cbn [length]. destruct (join SLASH cb) eqn:J; cbn; reflexivity.
  - rewrite (comps_join ca Hca Oka).
    assert (NSa : Forall (fun w => ~ In SLASH w) ca)
      by (eapply Forall_impl; [|exact Oka]; unfold comp_ok; tauto).
    assert (Ja : join SLASH ca <> []).
    { intros J. destruct ca as [|w [|v ca]]; [congruence| |].
      - cbn in J. subst. inversion Oka; subst. unfold comp_ok in *. tauto.
      - rewrite join_cons2 in J. destruct w; discriminate. }
    assert (Enda : ends_with_byte (SLASH :: join SLASH ca) SLASH = false).
    { apply valid_not_ends_slash; assumption. }
    rewrite Enda. cbn [orb].
    destruct Vb as [->|[cb [Hcb [Okb ->]]]].
    + (* b = "/" *)
      rewrite comps_root.
      assert (Nat.compare (length (SLASH :: join SLASH ca)) (length [SLASH]) = Gt).
      { apply Nat.compare_gt_iff. destruct (join SLASH ca); [congruence|]. cbn. lia. }
      rewrite H. split; [discriminate|]. intros [r Hr]. destruct ca; [congruence|discriminate].
    + rewrite (comps_join cb Hcb Okb).
      assert (NSb : Forall (fun w => ~ In SLASH w) cb)
        by (eapply Forall_impl; [|exact Okb]; unfold comp_ok; tauto).
      destruct (Nat.compare (length (SLASH :: join SLASH ca)) (length (SLASH :: join SLASH cb))) eqn:C.
      * (* equal lengths *)
        rewrite str_eqb_eq. split.
        -- intros H. inversion H as [J].
           exists []. rewrite app_nil_r.
           rewrite <- (split_join SLASH ca Hca NSa), <- (split_join SLASH cb Hcb NSb), J. reflexivity.
        -- intros [r ->]. destruct r as [|r0 r]; [rewrite app_nil_r; reflexivity|].
           exfalso. apply Nat.compare_eq_iff in C. cbn [length] in C.
           rewrite join_app in C by (assumption || discriminate).
           rewrite app_length in C. cbn [length] in C. lia.
      * (* a shorter *)
        rewrite andb_true_iff, starts_with_app. cbn [negb]. split.
        -- intros [[r Hr] Hn].
           unfold opt_N_eqb in Hn.
           destruct (nth_error (SLASH :: join SLASH cb) (length (SLASH :: join SLASH ca))) as [x|] eqn:Nx; [|discriminate].
           apply N.eqb_eq in Hn. subst x.
           rewrite Hr in Nx.
           destruct r as [|r0 r].
           { rewrite app_nil_r in Nx.
             assert (nth_error (SLASH :: join SLASH ca) (length (SLASH :: join SLASH ca)) = None)
               by (apply nth_error_None; lia). congruence. }
           rewrite nth_error_app_len in Nx. inversion Nx; subst r0.
           inversion Hr as [J].
           (* join cb = join ca ++ / :: r ; peel components of ca off cb *)
           clear - J Hca NSa NSb Hcb.
           revert cb J NSb Hcb. induction ca as [|w ca IH]; [congruence|]. intros cb J NSb Hcb.
           inversion NSa as [|? ? Hw NSa']; subst.
           destruct ca as [|v ca].
           ++ cbn [join] in J.
              destruct (join_nosep_hd SLASH cb w r NSb Hcb J Hw) as [cs' [-> [Hn' _]]].
              exists cs'. reflexivity.
           ++ rewrite join_cons2 in J. rewrite <- app_assoc in J. cbn [app] in J.
              destruct (join_nosep_hd SLASH cb w _ NSb Hcb J Hw) as [cs' [-> [Hn' J']]].
              inversion NSb; subst.
              destruct (IH ltac:(discriminate) NSa' cs' (eq_sym J') ltac:(assumption) Hn') as [r' ->].
              exists r'. reflexivity.
        -- intros [r ->].
           assert (r <> []).
           { intros ->. rewrite app_nil_r in C. rewrite Nat.compare_refl in C. discriminate. }
           rewrite join_app by assumption.
           split.
           ++ exists (SLASH :: join SLASH r). reflexivity.
           ++ change (SLASH :: join SLASH ca ++ SLASH :: join SLASH r)
                with ((SLASH :: join SLASH ca) ++ SLASH :: join SLASH r).
              rewrite nth_error_app_len. cbn. reflexivity.
      * (* a longer *)
        split; [discriminate|]. intros [r ->].
        exfalso. apply Nat.compare_gt_iff in C. cbn [length] in C.
        destruct r as [|r0 r]; [rewrite app_nil_r in C; lia|].
        rewrite join_app in C by (assumption || discriminate).
        rewrite app_length in C. cbn [length] in C. lia.
Qed.

(* the code at the pinned commit (character index) is NOT: two witnesses *)
Definition s_slash_an_tilde : str := [47; 97; 195; 177].                 (* "/añ"   *)
Definition s_slash_an_tilde_f : str := [47; 97; 195; 177; 47; 102].      (* "/añ/f" *)
Definition s_n_tilde : str := [47; 195; 177].                            (* "/ñ"    *)
Definition s_n_tilde_x_y : str := [47; 195; 177; 120; 47; 121].          (* "/ñx/y" *)

Theorem is_prefix_of_by_chars_refuted :
  (is_valid s_slash_an_tilde = true /\ is_valid s_slash_an_tilde_f = true /\
   is_prefix_of_gen true s_slash_an_tilde s_slash_an_tilde_f = false /\
   comp_prefix (comps s_slash_an_tilde) (comps s_slash_an_tilde_f) = true)
  /\
  (is_valid s_n_tilde = true /\ is_valid s_n_tilde_x_y = true /\
   is_prefix_of_gen true s_n_tilde s_n_tilde_x_y = true /\
   comp_prefix (comps s_n_tilde) (comps s_n_tilde_x_y) = false).
Proof. vm_compute. repeat split. Qed.

(* ------------------------------------------------------------------ *)
(* Shape of the order: children before grandchildren, subtrees convex.  *)

Definition dir_part (a : str) : list str := removelast (split_on SLASH a).
Definition name_part (a : str) : str := last (split_on SLASH a) [].

Lemma apath_cmp_dir_name a b :
  apath_cmp a b =
  match lexc str_cmp (dir_part a) (dir_part b) with
  | Eq => str_cmp (name_part a) (name_part b)
  | c => c
  end.
Proof. rewrite cmp_eq_spec. unfold spec_cmp. rewrite lex_cmp_lexc. reflexivity. Qed.

(* A path whose directory part is a proper extension of another's directory
   part sorts after it: a directory's direct children precede everything in
   its sub-directories. *)
Theorem children_before_grandchildren a b r :
  r <> [] -> dir_part b = dir_part a ++ r -> apath_cmp a b = Lt.
Proof.
  intros Hr Hb. rewrite apath_cmp_dir_name, Hb. clear Hb.
  assert (lexc str_cmp (dir_part a) (dir_part a ++ r) = Lt) as ->; [|reflexivity].
  induction (dir_part a) as [|x l IH]; cbn.
  - destruct r; [congruence | reflexivity].
  - rewrite (co_refl str_cmp str_order). exact IH.
Qed.

(* The proper descendants of a directory (paths whose directory part has the
   directory's full component list as a prefix) form an interval. *)
Theorem descendants_convex d a b c :
  is_prefix (split_on SLASH d) (dir_part a) ->
  is_prefix (split_on SLASH d) (dir_part c) ->
  apath_cmp a b <> Gt -> apath_cmp b c <> Gt ->
  is_prefix (split_on SLASH d) (dir_part b).
Proof.
  intros Ha Hc Hab Hbc. rewrite apath_cmp_dir_name in Hab, Hbc.
  apply (lexc_prefix_convex str_cmp str_order _ (dir_part a) (dir_part b) (dir_part c) Ha Hc).
  - destruct (lexc str_cmp (dir_part a) (dir_part b)); [discriminate | discriminate | exact Hab].
  - destruct (lexc str_cmp (dir_part b) (dir_part c)); [discriminate | discriminate | exact Hbc].
Qed.

(* dir_part / name_part of an appended child *)
Lemma split_on_snoc_comp a c :
  ~ In SLASH c -> split_on SLASH (a ++ SLASH :: c) = split_on SLASH a ++ [c].
Proof.
  intros Hc. induction a as [|x a IH]; cbn.
  - rewrite split_on_nosep by exact Hc. reflexivity.
  - rewrite IH. destruct (N.eqb x SLASH); [reflexivity|].
    destruct (split_on SLASH a) eqn:S; [exfalso; eapply split_on_nonempty; eauto|]. reflexivity.
Qed.

Lemma removelast_snoc {A} (l : list A) x : removelast (l ++ [x]) = l.
Proof. apply removelast_last. Qed.

Lemma dir_part_append a c :
  a <> [SLASH] -> ~ In SLASH c -> dir_part (append a c) = split_on SLASH a.
Proof.
  intros Ha Hc. unfold dir_part, append.
  destruct (str_eqb a [SLASH]) eqn:E; [apply str_eqb_eq in E; congruence|].
  rewrite split_on_snoc_comp by exact Hc. apply removelast_snoc.
Qed.

Lemma dir_part_append_root c :
  ~ In SLASH c -> dir_part (append [SLASH] c) = [[]].
Proof.
  intros Hc. unfold dir_part, append. rewrite str_eqb_refl. cbn [app split_on].
  rewrite N.eqb_refl. rewrite split_on_nosep by exact Hc. reflexivity.
Qed.
