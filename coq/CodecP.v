(* Proofs about Codec.v: round-trip laws of the backup data path. *)
From Coq Require Import List NArith ZArith Bool Lia Arith PeanoNat Sorting Permutation.
From CV Require Import Base.Str Base.Order Base.StrP Apath ApathP Entry Codec.
Import ListNotations.

(* ================================================================== *)
(* 1. Time                                                            *)
(* ================================================================== *)
Section Time.
  Local Open Scope Z_scope.
  Local Ltac Zify.zify_post_hook ::= Z.to_euclidean_division_equations.

  Theorem time_roundtrip_floor : forall t,
      let (s, n) := enc_time_floor t in dec_time s n = t /\ (n < 1000000000)%N.
  Proof.
    intros t. unfold enc_time_floor, dec_time, NANOS. split; lia.
  Qed.

  (* exact characterisation of the panic in IndexEntry::metadata_from *)
  Theorem time_trunc_panics_iff : forall t,
      enc_time_trunc t = None <-> (t < 0 /\ Z.rem t NANOS <> 0).
  Proof.
    intros t. unfold enc_time_trunc, NANOS.
    destruct (Z.rem t 1000000000 <? 0) eqn:E.
    - apply Z.ltb_lt in E. split; [intros _; lia | reflexivity].
    - apply Z.ltb_ge in E. split; [discriminate | lia].
  Qed.

  Theorem time_trunc_ok : forall t,
      (0 <= t \/ Z.rem t NANOS = 0) -> enc_time_trunc t = Some (enc_time_floor t).
  Proof.
    intros t H. unfold enc_time_trunc, enc_time_floor, NANOS in *.
    destruct (Z.rem t 1000000000 <? 0) eqn:E.
    - apply Z.ltb_lt in E. lia.
    - apply Z.ltb_ge in E. f_equal. f_equal; lia.
  Qed.

  (* whenever the pinned encoding does not panic, decoding gives the time back *)
  Theorem time_trunc_roundtrip : forall t s n,
      enc_time_trunc t = Some (s, n) -> dec_time_rs s n = Some t.
  Proof.
    intros t s n H. unfold enc_time_trunc, NANOS in H.
    destruct (Z.rem t 1000000000 <? 0) eqn:E; [discriminate|].
    apply Z.ltb_ge in E. inversion H; subst; clear H.
    unfold dec_time_rs, dec_time, NANOS_N, NANOS.
    destruct (Z.to_N (Z.rem t 1000000000) <? 1000000000)%N eqn:F.
    - f_equal. lia.
    - apply N.ltb_ge in F. lia.
  Qed.

  Theorem time_floor_roundtrip_rs : forall t,
      let (s, n) := enc_time_floor t in dec_time_rs s n = Some t.
  Proof.
    intros t. unfold enc_time_floor, dec_time_rs, dec_time, NANOS_N, NANOS.
    destruct (Z.to_N (t mod 1000000000) <? 1000000000)%N eqn:F.
    - f_equal. lia.
    - apply N.ltb_ge in F. lia.
  Qed.

  (* A pre-1970 mtime with a fractional part: 1969-12-31T23:59:58.5Z *)
  Theorem time_trunc_refuted : exists t, enc_time_trunc t = None.
  Proof. exists (-1500000000). vm_compute. reflexivity. Qed.

  Theorem file_time_floor_roundtrip : forall t, kernel_time (file_time_floor t) = Some t.
  Proof.
    intros t. unfold kernel_time, file_time_floor, NANOS_N, NANOS.
    destruct (Z.to_N (t mod 1000000000) <? 1000000000)%N eqn:F.
    - f_equal. lia.
    - apply N.ltb_ge in F. lia.
  Qed.

  Theorem file_time_trunc_ok : forall t,
      (0 <= t \/ Z.rem t NANOS = 0) -> kernel_time (file_time_trunc t) = Some t.
  Proof.
    intros t H. unfold kernel_time, file_time_trunc, NANOS_N, NANOS, TWO32 in *.
    destruct (Z.to_N (Z.rem t 1000000000 mod 4294967296) <? 1000000000)%N eqn:F.
    - f_equal. lia.
    - apply N.ltb_ge in F. lia.
  Qed.

  (* ... and in every other case utimensat gets tv_nsec >= 10^9: EINVAL, the
     mtime is not restored at all.  The value is also above UTIME_NOW = 2^30-1. *)
  Theorem file_time_trunc_einval : forall t,
      (t < 0 /\ Z.rem t NANOS <> 0) ->
      kernel_time (file_time_trunc t) = None /\ (1073741823 < snd (file_time_trunc t))%N.
  Proof.
    intros t H. unfold kernel_time, file_time_trunc, NANOS_N, NANOS, TWO32 in *.
    cbn [snd].
    destruct (Z.to_N (Z.rem t 1000000000 mod 4294967296) <? 1000000000)%N eqn:F.
    - apply N.ltb_lt in F. lia.
    - apply N.ltb_ge in F. split; [reflexivity | lia].
  Qed.

  Theorem file_time_trunc_refuted : exists t, kernel_time (file_time_trunc t) <> Some t.
  Proof. exists (-1500000000). vm_compute. discriminate. Qed.

  Example time_roundtrip_floor_ex :
    enc_time_floor (-1500000000) = (-2, 500000000%N) /\ dec_time (-2) 500000000 = -1500000000.
  Proof. vm_compute. split; reflexivity. Qed.
  Example time_trunc_ok_ex :
    enc_time_trunc 1700000000123456789 = Some (1700000000, 123456789%N)
    /\ enc_time_trunc (-2000000000) = Some (-2, 0%N).
  Proof. vm_compute. split; reflexivity. Qed.
  Example file_time_trunc_ex :
    file_time_trunc (-1500000000) = (-1, 3794967296%N)
    /\ kernel_time (file_time_trunc (-1500000000)) = None
    /\ kernel_time (file_time_floor (-1500000000)) = Some (-1500000000).
  Proof. vm_compute. repeat split; reflexivity. Qed.
End Time.

(* ================================================================== *)
(* 2. Chunking and reading back                                       *)
(* ================================================================== *)
Section Chunks.
  Local Open Scope nat_scope.

  Lemma firstn_nil_inv {A} n (d : list A) : firstn n d = [] -> n = 0 \/ d = [].
  Proof. destruct n, d; cbn; auto; discriminate. Qed.

  Lemma skipn_shorter {A} n (d : list A) : firstn n d <> [] -> length (skipn n d) < length d.
  Proof.
    intros H. rewrite skipn_length.
    destruct n; [cbn in H; congruence|]. destruct d; [cbn in H; congruence|]. cbn [length]. lia.
  Qed.

  (* the fuel supplied by [chunks] always suffices (for every n, 0 included) *)
  Lemma chunks_fuel_enough f : forall n d, length d < f -> exists l, chunks_fuel f n d = Some l.
  Proof.
    induction f as [|f IH]; intros n d Hf; [lia|].
    cbn [chunks_fuel]. destruct (firstn n d) as [|b c] eqn:E.
    - exists []. reflexivity.
    - assert (Hs : length (skipn n d) < length d) by (apply skipn_shorter; congruence).
      destruct (IH n (skipn n d)) as [l Hl]; [lia|]. rewrite Hl. eexists. reflexivity.
  Qed.

  Theorem chunks_fuel_total n d : chunks_fuel (S (length d)) n d <> None.
  Proof. destruct (chunks_fuel_enough (S (length d)) n d) as [l Hl]; [lia | congruence]. Qed.

  Lemma chunks_fuel_mono f : forall f' n d l,
      chunks_fuel f n d = Some l -> f <= f' -> chunks_fuel f' n d = Some l.
  Proof.
    induction f as [|f IH]; intros f' n d l H Hle; [discriminate|].
    destruct f' as [|f']; [lia|]. cbn [chunks_fuel] in *.
    destruct (firstn n d) as [|b c]; [exact H|].
    destruct (chunks_fuel f n (skipn n d)) as [l'|] eqn:E; [|discriminate].
    rewrite (IH f' n _ l' E); [exact H | lia].
  Qed.

  (* The loop of store_file_content, without fuel. *)
  Theorem chunks_unfold n d :
    chunks n d = match firstn n d with
                 | [] => []
                 | c => c :: chunks n (skipn n d)
                 end.
  Proof.
    unfold chunks at 1. cbn [chunks_fuel].
    destruct (firstn n d) as [|b c] eqn:E; [reflexivity|].
    assert (Hs : length (skipn n d) < length d) by (apply skipn_shorter; congruence).
    unfold chunks.
    destruct (chunks_fuel_enough (S (length (skipn n d))) n (skipn n d)) as [l Hl]; [lia|].
    rewrite Hl. rewrite (chunks_fuel_mono _ (length d) n _ l Hl); [reflexivity | lia].
  Qed.

  Lemma chunks_nil n : chunks n [] = [].
  Proof. rewrite chunks_unfold. rewrite firstn_nil. reflexivity. Qed.

  Lemma chunks_zero d : chunks 0 d = [].
  Proof. rewrite chunks_unfold. reflexivity. Qed.

  Lemma chunks_cons n d : 0 < n -> d <> [] -> chunks n d = firstn n d :: chunks n (skipn n d).
  Proof.
    intros Hn Hd. rewrite chunks_unfold. destruct (firstn n d) eqn:E; [|reflexivity].
    apply firstn_nil_inv in E. destruct E; [lia | congruence].
  Qed.

  (* induction principle following the loop *)
  Lemma chunks_ind (n : nat) (P : bytes -> list bytes -> Prop) :
    (forall d, firstn n d = [] -> P d []) ->
    (forall d, firstn n d <> [] -> P (skipn n d) (chunks n (skipn n d)) ->
               P d (firstn n d :: chunks n (skipn n d))) ->
    forall d, P d (chunks n d).
  Proof.
    intros Hnil Hcons d.
    remember (length d) as k eqn:Hk. revert d Hk.
    induction k as [k IH] using lt_wf_ind. intros d Hk.
    rewrite chunks_unfold. destruct (firstn n d) as [|b c] eqn:E.
    - apply Hnil. exact E.
    - rewrite <- E. assert (Hne : firstn n d <> []) by congruence.
      apply Hcons; [exact Hne|].
      apply (IH (length (skipn n d))); [|reflexivity].
      subst k. apply skipn_shorter. exact Hne.
  Qed.

  Theorem chunks_concat n d : 0 < n -> concat (chunks n d) = d.
  Proof.
    intros Hn. apply (chunks_ind n (fun d l => concat l = d)).
    - intros d0 E. apply firstn_nil_inv in E. destruct E; [lia | subst; reflexivity].
    - intros d0 _ IH. cbn [concat]. rewrite IH. apply firstn_skipn.
  Qed.

  Theorem chunks_nonempty n d : forall c, In c (chunks n d) -> c <> [].
  Proof.
    apply (chunks_ind n (fun d l => forall c, In c l -> c <> [])).
    - intros _ _ c [].
    - intros d0 Hne IH c [<- | Hin]; [exact Hne | apply IH; exact Hin].
  Qed.

  Theorem chunks_len_le n d : forall c, In c (chunks n d) -> 1 <= length c <= n.
  Proof.
    intros c Hin. split.
    - apply chunks_nonempty in Hin. destruct c; [congruence | cbn; lia].
    - revert c Hin. apply (chunks_ind n (fun d l => forall c, In c l -> length c <= n)).
      + intros _ _ c [].
      + intros d0 _ IH c [<- | Hin]; [apply firstn_le_length | apply IH; exact Hin].
  Qed.

  (* all chunks but the last are full *)
  Theorem chunks_full n d : forall pre c rest,
      chunks n d = pre ++ c :: rest -> rest <> [] -> length c = n.
  Proof.
    apply (chunks_ind n (fun d l => forall pre c rest,
                             l = pre ++ c :: rest -> rest <> [] -> length c = n)).
    - intros _ _ [|? ?] c rest H; discriminate.
    - intros d0 Hne IH pre c rest H Hrest.
      destruct pre as [|p pre]; cbn [app] in H; inversion H as [[Hc Hr]].
      + subst rest. rewrite chunks_unfold in Hrest.
        destruct (firstn n (skipn n d0)) eqn:E; [congruence|].
        assert (Hlen : length (skipn n d0) <> 0) by (destruct (skipn n d0); [rewrite firstn_nil in E|cbn]; congruence).
        rewrite skipn_length in Hlen. rewrite firstn_length. lia.
      + eapply IH; eauto.
  Qed.

  (* number of blocks = ceil (length d / n) *)
  Theorem chunks_count n d : 0 < n -> length (chunks n d) = (length d + n - 1) / n.
  Proof.
    intros Hn. apply (chunks_ind n (fun d l => length l = (length d + n - 1) / n)).
    - intros d0 E. apply firstn_nil_inv in E. destruct E; [lia|subst]. cbn [length].
      symmetry. apply Nat.div_small. lia.
    - intros d0 Hne IH. cbn [length]. rewrite IH. rewrite skipn_length.
      destruct (Nat.le_gt_cases n (length d0)) as [Hle|Hgt].
      + replace (length d0 + n - 1) with ((length d0 - n + n - 1) + 1 * n) by lia.
        rewrite Nat.div_add by lia. lia.
      + replace (length d0 - n) with 0 by lia.
        assert (length d0 <> 0) by (destruct d0; [destruct n; cbn in Hne; congruence | cbn; lia]).
        rewrite (Nat.div_small (0 + n - 1) n) by lia.
        replace (length d0 + n - 1) with ((length d0 - 1) + 1 * n) by lia.
        rewrite Nat.div_add by lia. rewrite Nat.div_small by lia. reflexivity.
  Qed.
End Chunks.

Section ReadBack.
  Lemma slice_whole d : slice d 0 (N.of_nat (length d)) = Some d.
  Proof.
    unfold slice. rewrite N.add_0_l, N.leb_refl.
    rewrite Nat2N.id. cbn [N.to_nat skipn]. rewrite firstn_all. reflexivity.
  Qed.

  (* the middle of a three-part block *)
  Lemma slice_app pre c post :
    slice (pre ++ c ++ post) (N.of_nat (length pre)) (N.of_nat (length c)) = Some c.
  Proof.
    unfold slice. rewrite !app_length.
    destruct (N.of_nat (length pre) + N.of_nat (length c)
              <=? N.of_nat (length pre + (length c + length post)))%N eqn:E.
    - rewrite !Nat2N.id. rewrite skipn_app, skipn_all, Nat.sub_diag. cbn [app skipn].
      rewrite firstn_app, firstn_all, Nat.sub_diag. cbn [firstn]. rewrite app_nil_r. reflexivity.
    - apply N.leb_gt in E. lia.
  Qed.

  Lemma slice_Some d s l r :
    slice d s l = Some r ->
    (s + l <= N.of_nat (length d))%N /\ length r = N.to_nat l
    /\ exists pre post, d = pre ++ r ++ post /\ length pre = N.to_nat s.
  Proof.
    unfold slice. destruct (s + l <=? N.of_nat (length d))%N eqn:E; [|discriminate].
    apply N.leb_le in E. intros H. inversion H as [Hr]; clear H.
    split; [exact E|]. split.
    - rewrite firstn_length, skipn_length. lia.
    - exists (firstn (N.to_nat s) d), (skipn (N.to_nat l) (skipn (N.to_nat s) d)).
      rewrite firstn_skipn, firstn_skipn. split; [reflexivity|].
      rewrite firstn_length. lia.
  Qed.

  Lemma slice_None d s l : slice d s l = None <-> (N.of_nat (length d) < s + l)%N.
  Proof.
    unfold slice. destruct (s + l <=? N.of_nat (length d))%N eqn:E.
    - apply N.leb_le in E. split; [discriminate | lia].
    - apply N.leb_gt in E. split; auto.
  Qed.

  Lemma read_addrs_app blocks l1 l2 c1 c2 :
    read_addrs blocks l1 = Some c1 -> read_addrs blocks l2 = Some c2 ->
    read_addrs blocks (l1 ++ l2) = Some (c1 ++ c2).
  Proof.
    revert c1. induction l1 as [|a l1 IH]; intros c1 H1 H2; cbn [read_addrs app] in *.
    - inversion H1; subst. exact H2.
    - destruct (read_address blocks a) as [s|]; [|discriminate].
      destruct (read_addrs blocks l1) as [r|]; [|discriminate].
      inversion H1; subst. rewrite (IH r eq_refl H2). rewrite app_assoc. reflexivity.
  Qed.

  Lemma read_chunk_addrs blocks (cs : list bytes) :
    (forall c, In c cs -> blocks c = Some c) ->
    read_addrs blocks (map chunk_addr cs) = Some (concat cs).
  Proof.
    induction cs as [|c cs IH]; intros Hb; [reflexivity|].
    cbn [map read_addrs concat]. unfold read_address. cbn [chunk_addr a_hash a_start a_len].
    rewrite (Hb c (or_introl eq_refl)). rewrite slice_whole.
    rewrite IH; [reflexivity|]. intros c' Hin. apply Hb. right. exact Hin.
  Qed.

  Theorem file_addrs_read blocks n d :
    (0 < n)%nat -> (forall c, In c (chunks n d) -> blocks c = Some c) ->
    read_addrs blocks (file_addrs n d) = Some d.
  Proof.
    intros Hn Hb. unfold file_addrs. rewrite read_chunk_addrs by exact Hb.
    rewrite chunks_concat by exact Hn. reflexivity.
  Qed.

  Lemma store_of_In stored h : In h stored -> store_of stored h = Some h.
  Proof.
    intros Hin. unfold store_of.
    replace (existsb (bytes_eqb h) stored) with true; [reflexivity|].
    symmetry. apply existsb_exists. exists h. split; [exact Hin | apply str_eqb_refl].
  Qed.

  Lemma store_of_Some stored h b : store_of stored h = Some b <-> (b = h /\ In h stored).
  Proof.
    unfold store_of. destruct (existsb (bytes_eqb h) stored) eqn:E.
    - apply existsb_exists in E. destruct E as [x [Hin Hx]].
      apply str_eqb_eq in Hx. subst x. split; [intros H; inversion H; subst; split; [reflexivity | exact Hin] | intros [-> _]; reflexivity].
    - split; [discriminate|]. intros [_ Hin]. exfalso.
      assert (existsb (bytes_eqb h) stored = true); [|congruence].
      apply existsb_exists. exists h. split; [exact Hin | apply str_eqb_refl].
  Qed.

  (* with exactly the file's own blocks in the store *)
  Corollary file_addrs_read_store n d :
    (0 < n)%nat -> read_addrs (store_of (chunks n d)) (file_addrs n d) = Some d.
  Proof. intros Hn. apply file_addrs_read; [exact Hn|]. intros c. apply store_of_In. Qed.

  Lemma sum_lens_chunk_addrs (cs : list bytes) :
    fold_right (fun a acc => (a_len a + acc)%N) 0%N (map chunk_addr cs) = N.of_nat (length (concat cs)).
  Proof.
    induction cs as [|c cs IH]; [reflexivity|].
    cbn [map fold_right concat]. rewrite IH, app_length. cbn [chunk_addr a_len]. lia.
  Qed.

  (* EntryTrait::size of the stored entry = the file's length *)
  Theorem file_addrs_size n d :
    (0 < n)%nat ->
    fold_right (fun a acc => (a_len a + acc)%N) 0%N (file_addrs n d) = N.of_nat (length d).
  Proof.
    intros Hn. unfold file_addrs. rewrite sum_lens_chunk_addrs, chunks_concat by exact Hn. reflexivity.
  Qed.

  Theorem file_addrs_shape n d : forall a, In a (file_addrs n d) ->
      a_start a = 0%N /\ (1 <= a_len a <= N.of_nat n)%N /\ a_len a = N.of_nat (length (a_hash a)).
  Proof.
    intros a Hin. unfold file_addrs in Hin. apply in_map_iff in Hin.
    destruct Hin as [c [<- Hc]]. apply chunks_len_le in Hc. cbn [chunk_addr a_start a_len a_hash].
    split; [reflexivity|]. split; [lia | reflexivity].
  Qed.

  (* n = 0: no block is written and the content is lost unless it was empty *)
  Theorem file_addrs_zero d blocks : read_addrs blocks (file_addrs 0 d) = Some [].
  Proof. unfold file_addrs. rewrite chunks_zero. reflexivity. Qed.

  Example chunks_ex :
    chunks 3 [1;2;3;4;5;6;7]%N = [[1;2;3];[4;5;6];[7]]%N
    /\ chunks 3 [1;2;3;4;5;6]%N = [[1;2;3];[4;5;6]]%N
    /\ chunks 3 [] = [] /\ chunks 0 [1;2]%N = [].
  Proof. vm_compute. repeat split; reflexivity. Qed.
  Example file_addrs_read_ex :
    let d := [1;2;3;4;5;6;7]%N in
    read_addrs (store_of (chunks 3 d)) (file_addrs 3 d) = Some d
    /\ read_addrs (store_of [[1;2;3];[7]]%N) (file_addrs 3 d) = None
    /\ fold_right (fun a acc => (a_len a + acc)%N) 0%N (file_addrs 3 d) = 7%N.
  Proof. vm_compute. repeat split; reflexivity. Qed.
  Example slice_ex :
    slice [1;2;3;4]%N 1 3 = Some [2;3;4]%N /\ slice [1;2;3;4]%N 2 3 = None
    /\ slice [1;2;3;4]%N 4 0 = Some [].
  Proof. vm_compute. repeat split; reflexivity. Qed.
End ReadBack.

(* ================================================================== *)
(* 4. Sorting an index hunk                                           *)
(* ================================================================== *)
Section SortEntries.
  Definition entry_le (x y : entry) : Prop := apath_cmp (e_apath x) (e_apath y) <> Gt.
  Definition entry_lt (x y : entry) : Prop := apath_cmp (e_apath x) (e_apath y) = Lt.

  Lemma insert_entry_perm e l : Permutation (insert_entry e l) (e :: l).
  Proof.
    induction l as [|x l IH]; cbn [insert_entry]; [apply Permutation_refl|].
    destruct (apath_cmp (e_apath e) (e_apath x)); try apply Permutation_refl.
    eapply Permutation_trans; [apply perm_skip; exact IH | apply perm_swap].
  Qed.

  Theorem sort_entries_perm l : Permutation (sort_entries l) l.
  Proof.
    induction l as [|x l IH]; [apply Permutation_refl|].
    unfold sort_entries in *. cbn [fold_right].
    eapply Permutation_trans; [apply insert_entry_perm | apply perm_skip; exact IH].
  Qed.

  Lemma entry_le_trans x y z : entry_le x y -> entry_le y z -> entry_le x z.
  Proof. unfold entry_le. apply (co_le_trans apath_cmp apath_order). Qed.

  Lemma insert_entry_sorted e l :
    StronglySorted entry_le l -> StronglySorted entry_le (insert_entry e l).
  Proof.
    induction l as [|x l IH]; intros Hs; cbn [insert_entry].
    - constructor; constructor.
    - inversion Hs as [|? ? Hs' Hall]; subst.
      destruct (apath_cmp (e_apath e) (e_apath x)) eqn:E.
      + constructor; [exact Hs|]. constructor.
        * unfold entry_le. congruence.
        * eapply Forall_impl; [|exact Hall]. intros z Hz.
          apply (entry_le_trans e x z); [unfold entry_le; congruence | exact Hz].
      + constructor; [exact Hs|]. constructor.
        * unfold entry_le. congruence.
        * eapply Forall_impl; [|exact Hall]. intros z Hz.
          apply (entry_le_trans e x z); [unfold entry_le; congruence | exact Hz].
      + constructor; [apply IH; exact Hs'|].
        assert (Hxe : entry_le x e).
        { unfold entry_le. apply (co_gt_lt apath_cmp apath_order) in E. congruence. }
        eapply Permutation_Forall; [apply Permutation_sym, insert_entry_perm|].
        constructor; assumption.
  Qed.

  (* holds for every input, duplicates included *)
  Theorem sort_entries_sorted_le l : StronglySorted entry_le (sort_entries l).
  Proof.
    induction l as [|x l IH]; [constructor|].
    unfold sort_entries in *. cbn [fold_right]. apply insert_entry_sorted. exact IH.
  Qed.

  Lemma sorted_le_nodup_lt l :
    StronglySorted entry_le l -> NoDup (map e_apath l) -> StronglySorted entry_lt l.
  Proof.
    induction l as [|x l IH]; intros Hs Hnd; [constructor|].
    inversion Hs as [|? ? Hs' Hall]; subst. cbn [map] in Hnd.
    inversion Hnd as [|? ? Hnotin Hnd']; subst.
    constructor; [apply IH; assumption|].
    rewrite Forall_forall in *. intros z Hz. specialize (Hall z Hz).
    unfold entry_le, entry_lt in *.
    destruct (apath_cmp (e_apath x) (e_apath z)) eqn:E; [|reflexivity|congruence].
    apply (co_eq apath_cmp apath_order) in E. exfalso. apply Hnotin. rewrite E.
    apply in_map. exact Hz.
  Qed.

  Theorem sort_entries_sorted l :
    NoDup (map e_apath l) ->
    StronglySorted (fun x y => apath_cmp (e_apath x) (e_apath y) = Lt) (sort_entries l).
  Proof.
    intros Hnd. apply (sorted_le_nodup_lt (sort_entries l)); [apply sort_entries_sorted_le|].
    eapply Permutation_NoDup; [|exact Hnd].
    apply Permutation_map, Permutation_sym, sort_entries_perm.
  Qed.

  (* a strictly sorted list is determined by its set of elements: whatever
     (unstable) sort Rust uses, it returns this list when apaths are distinct *)
  Lemma strictly_sorted_unique l : forall m,
      StronglySorted entry_lt l -> StronglySorted entry_lt m -> Permutation l m -> l = m.
  Proof.
    induction l as [|x l IH]; intros m Hl Hm Hp.
    - apply Permutation_nil in Hp. subst. reflexivity.
    - destruct m as [|y m]; [apply Permutation_sym, Permutation_nil in Hp; discriminate|].
      inversion Hl as [|? ? Hl' Hlall]; subst. inversion Hm as [|? ? Hm' Hmall]; subst.
      rewrite Forall_forall in Hlall, Hmall.
      assert (Hxy : x = y).
      { assert (Hx : In x (y :: m)) by (eapply Permutation_in; [exact Hp | left; reflexivity]).
        assert (Hy : In y (x :: l)) by (eapply Permutation_in; [apply Permutation_sym; exact Hp | left; reflexivity]).
        destruct Hx as [Hx | Hx]; [auto|]. destruct Hy as [Hy | Hy]; [auto|].
        specialize (Hlall y Hy). specialize (Hmall x Hx). unfold entry_lt in *.
        exfalso. apply (co_lt_irrefl apath_cmp apath_order (e_apath x)).
        eapply (co_trans apath_cmp apath_order); eauto. }
      subst y. f_equal. apply IH; try assumption.
      eapply Permutation_cons_inv. exact Hp.
  Qed.

  Theorem sort_entries_unique l m :
    NoDup (map e_apath l) -> Permutation m l -> StronglySorted entry_lt m -> m = sort_entries l.
  Proof.
    intros Hnd Hp Hm. apply strictly_sorted_unique; [exact Hm | apply sort_entries_sorted; exact Hnd|].
    eapply Permutation_trans; [exact Hp | apply Permutation_sym, sort_entries_perm].
  Qed.

  Definition mk_entry (p : str) : entry :=
    {| e_apath := p; e_kind := KFile; e_mtime := 0; e_nanos := 0; e_mode := 420;
       e_user := None; e_group := None; e_addrs := []; e_target := None |}.

  (* "/b/a", "/c", "/a", "/"  |->  "/", "/a", "/c", "/b/a" *)
  Example sort_entries_ex :
    map e_apath (sort_entries (map mk_entry [[47;98;47;97]; [47;99]; [47;97]; [47]]%N))
    = [[47]; [47;97]; [47;99]; [47;98;47;97]]%N.
  Proof. vm_compute. reflexivity. Qed.
  Example sort_entries_nodup_ex :
    NoDup (map e_apath (map mk_entry [[47;98;47;97]; [47;99]; [47;97]; [47]]%N)).
  Proof. repeat constructor; cbn; intuition discriminate. Qed.
End SortEntries.

(* ================================================================== *)
(* 3. FileCombiner                                                    *)
(* ================================================================== *)
Section Combiner.
  Definition no_content (p : entry * bytes) : bool := negb (has_content p).

  (* [f] is a correct finished index entry for the pushed pair (e, content),
     given the blocks emitted so far: same metadata, its addresses read back
     the content, and a non-empty content has exactly one address, of the
     content's length, into an emitted block. *)
  Definition fin_ok (emitted : list bytes) (f : entry) (p : entry * bytes) : Prop :=
    f = set_addrs (fst p) (e_addrs f) /\
    read_addrs (store_of emitted) (e_addrs f) = Some (snd p) /\
    match snd p with
    | [] => e_addrs f = []
    | _ :: _ => exists a, e_addrs f = [a] /\ a_len a = N.of_nat (length (snd p))
                          /\ In (a_hash a) emitted
    end.

  (* the queue, paired with the (ghost) contents of the queued files, tiles
     the buffer from offset [off] on, in order *)
  Fixpoint tiles (off : N) (q : list (N * N * entry)) (pend : list (entry * bytes)) : Prop :=
    match q, pend with
    | [], [] => True
    | (s, l, e) :: q', (e', c) :: pend' =>
        s = off /\ l = N.of_nat (length c) /\ e = e' /\ c <> [] /\ tiles (off + l) q' pend'
    | _, _ => False
    end.

  (* the same without the ghost contents: offsets are consecutive, lengths
     positive, and they end exactly at [total] *)
  Fixpoint queue_tiles (off : N) (q : list (N * N * entry)) (total : N) : Prop :=
    match q with
    | [] => off = total
    | (s, l, _) :: q' => s = off /\ (0 < l)%N /\ queue_tiles (off + l) q' total
    end.

  (* Invariant of the combiner after the pushes [pushed] (in push order) and
     with the blocks [emitted] written so far.  [fin]/[pend] are the pushed
     pairs behind [c_finished]/[c_queue].  Files with content keep their push
     order through queue and finished list; files that turned out empty keep
     theirs among themselves, but jump the queue (see
     combined_push_order_refuted). *)
  Definition CombInv (st : comb) (emitted : list bytes) (pushed : list (entry * bytes)) : Prop :=
    exists fin pend,
      Forall2 (fin_ok emitted) (c_finished st) fin /\
      tiles 0 (c_queue st) pend /\
      c_buf st = concat (map snd pend) /\
      filter has_content (fin ++ pend) = filter has_content pushed /\
      filter no_content fin = filter no_content pushed.

  Definition op_ok (o : comb_op) : Prop :=
    match o with OpPush e _ => e_addrs e = [] | OpFlush => True end.

  (* ---- auxiliary facts ---- *)
  Lemma read_addrs_store_mono em em' l c :
    incl em em' -> read_addrs (store_of em) l = Some c -> read_addrs (store_of em') l = Some c.
  Proof.
    intros Hincl. revert c. induction l as [|a l IH]; intros c H; cbn [read_addrs] in *; [exact H|].
    unfold read_address in *.
    destruct (store_of em (a_hash a)) as [b|] eqn:Eb; [|discriminate].
    apply store_of_Some in Eb. destruct Eb as [-> Hin].
    rewrite (store_of_In em' (a_hash a) (Hincl _ Hin)).
    destruct (slice (a_hash a) (a_start a) (a_len a)); [|discriminate].
    destruct (read_addrs (store_of em) l) as [r|]; [|discriminate].
    rewrite (IH r eq_refl). exact H.
  Qed.

  Lemma fin_ok_mono em em' f p : incl em em' -> fin_ok em f p -> fin_ok em' f p.
  Proof.
    intros Hincl (H1 & H2 & H3). split; [exact H1|]. split.
    - eapply read_addrs_store_mono; eauto.
    - destruct (snd p); [exact H3|]. destruct H3 as (a & Ha & Hl & Hin).
      exists a. auto.
  Qed.

  Lemma Forall2_fin_ok_mono em em' fs ps :
    incl em em' -> Forall2 (fin_ok em) fs ps -> Forall2 (fin_ok em') fs ps.
  Proof.
    intros Hincl H. induction H; constructor; [eapply fin_ok_mono; eauto | assumption].
  Qed.

  Lemma tiles_snoc q : forall off pend s e c,
      tiles off q pend -> c <> [] ->
      s = (off + N.of_nat (length (concat (map snd pend))))%N ->
      tiles off (q ++ [(s, N.of_nat (length c), e)]) (pend ++ [(e, c)]).
  Proof.
    induction q as [|[[s0 l0] e0] q IH]; intros off pend s e c Ht Hc Hs;
      destruct pend as [|[e1 c1] pend]; cbn [tiles app] in *; try contradiction.
    - cbn [map concat length] in Hs. repeat split; auto. lia.
    - destruct Ht as (-> & -> & -> & Hc1 & Ht). repeat split; auto.
      apply IH; auto. cbn [map snd concat] in Hs. rewrite app_length in Hs. lia.
  Qed.

  Lemma tiles_has_content off q pend :
    tiles off q pend -> filter has_content pend = pend /\ filter no_content pend = [].
  Proof.
    revert off pend. induction q as [|[[s0 l0] e0] q IH]; intros off [|[e1 c1] pend] Ht;
      cbn [tiles] in Ht; try contradiction; [split; reflexivity|].
    destruct Ht as (_ & _ & _ & Hc1 & Ht). destruct (IH _ _ Ht) as [H1 H2].
    cbn [filter]. unfold no_content, has_content at 1 3. cbn [snd].
    destruct c1; [congruence|]. cbn [negb]. fold no_content. rewrite H1, H2. split; reflexivity.
  Qed.

  Lemma tiles_nil_inv off pend : tiles off [] pend -> pend = [].
  Proof. destruct pend; cbn; [reflexivity | contradiction]. Qed.

  Lemma tiles_queue_tiles q : forall off pend,
      tiles off q pend ->
      queue_tiles off q (off + N.of_nat (length (concat (map snd pend)))).
  Proof.
    induction q as [|[[s0 l0] e0] q IH]; intros off [|[e1 c1] pend] Ht;
      cbn [tiles queue_tiles] in *; try contradiction.
    - cbn. lia.
    - destruct Ht as (-> & -> & -> & Hc1 & Ht). split; [reflexivity|]. split.
      + destruct c1; [congruence | cbn [length]; lia].
      + specialize (IH _ _ Ht). cbn [map snd concat]. rewrite app_length.
        replace (off + N.of_nat (length c1 + length (concat (map snd pend))))%N
          with (off + N.of_nat (length c1) + N.of_nat (length (concat (map snd pend))))%N by lia.
        exact IH.
  Qed.

  (* every queued file is the slice [start, start+len) of the block the
     buffer will become *)
  Lemma tiles_slices q : forall off pend blk pre post em,
      tiles off q pend ->
      blk = pre ++ concat (map snd pend) ++ post -> N.of_nat (length pre) = off ->
      In blk em ->
      Forall2 (fin_ok em) (map (queued_entry blk) q) pend.
  Proof.
    induction q as [|[[s0 l0] e0] q IH]; intros off [|[e1 c1] pend] blk pre post em Ht Hblk Hpre Hin;
      cbn [tiles] in Ht; try contradiction; cbn [map]; constructor.
    - destruct Ht as (-> & -> & -> & Hc1 & Ht).
      cbn [map snd concat] in Hblk. rewrite <- app_assoc in Hblk.
      unfold fin_ok, queued_entry. cbn [fst snd set_addrs e_addrs].
      split; [reflexivity|]. split.
      + cbn [read_addrs]. unfold read_address. cbn [a_hash a_start a_len].
        rewrite (store_of_In em blk Hin). rewrite <- Hpre. rewrite Hblk at 1.
        rewrite slice_app. rewrite app_nil_r. reflexivity.
      + destruct c1 as [|b c1]; [congruence|]. eexists. split; [reflexivity|].
        cbn [a_len a_hash]. split; [reflexivity | exact Hin].
    - destruct Ht as (-> & -> & -> & Hc1 & Ht).
      apply (IH _ _ blk (pre ++ c1) post em Ht).
      + rewrite Hblk. cbn [map snd concat]. rewrite <- !app_assoc. reflexivity.
      + rewrite app_length. lia.
      + exact Hin.
  Qed.

  Lemma set_addrs_same e : set_addrs e (e_addrs e) = e.
  Proof. destruct e. reflexivity. Qed.

  (* ---- the invariant holds initially and is preserved ---- *)
  Theorem comb_init_inv : CombInv comb_init [] [].
  Proof. exists [], []. cbn. repeat split; constructor. Qed.

  Theorem flush_inv st em pu :
    CombInv st em pu ->
    CombInv (fst (flush st)) (em ++ opt_list (snd (flush st))) pu.
  Proof.
    intros (fin & pend & Hfin & Ht & Hbuf & Hhc & Hnc). unfold flush.
    destruct (c_queue st) as [|q0 q] eqn:Eq.
    - cbn [fst snd opt_list]. rewrite app_nil_r. exists fin, pend. rewrite Eq. auto.
    - cbn [fst snd opt_list]. exists (fin ++ pend), [].
      cbn [c_finished c_queue c_buf tiles].
      destruct (tiles_has_content _ _ _ Ht) as [Hp1 Hp2].
      split; [|split; [exact I|split; [reflexivity|split]]].
      + apply Forall2_app.
        * eapply Forall2_fin_ok_mono; [|exact Hfin]. apply incl_appl, incl_refl.
        * eapply (tiles_slices _ 0%N pend (c_buf st) [] []); [exact Ht | | reflexivity |].
          -- rewrite Hbuf. cbn [app]. rewrite app_nil_r. reflexivity.
          -- apply in_or_app. right. left. reflexivity.
      + rewrite app_nil_r. exact Hhc.
      + rewrite filter_app, Hp2, app_nil_r. exact Hnc.
  Qed.

  Theorem push_small_inv mb st em pu e c :
    CombInv st em pu -> e_addrs e = [] ->
    CombInv (fst (push_small mb st e c)) (em ++ opt_list (snd (push_small mb st e c)))
            (pu ++ [(e, c)]).
  Proof.
    intros (fin & pend & Hfin & Ht & Hbuf & Hhc & Hnc) He. unfold push_small.
    destruct c as [|b c].
    - cbn [fst snd opt_list]. rewrite app_nil_r.
      exists (fin ++ [(e, [])]), pend. cbn [c_finished c_queue c_buf].
      split; [|split; [exact Ht|split; [exact Hbuf|split]]].
      + apply Forall2_app; [exact Hfin|]. constructor; [|constructor].
        unfold fin_ok. cbn [fst snd]. rewrite He. split; [|split; reflexivity].
        rewrite <- He. symmetry. apply set_addrs_same.
      + rewrite !filter_app in *. cbn. rewrite !app_nil_r. exact Hhc.
      + rewrite !filter_app. cbn. rewrite Hnc. reflexivity.
    - set (c' := b :: c) in *.
      set (st' := {| c_buf := c_buf st ++ c';
                     c_queue := c_queue st ++ [(N.of_nat (length (c_buf st)), N.of_nat (length c'), e)];
                     c_finished := c_finished st |}).
      assert (Hinv : CombInv st' em (pu ++ [(e, c')])).
      { exists fin, (pend ++ [(e, c')]). cbn [st' c_finished c_queue c_buf].
        split; [exact Hfin|]. split; [|split; [|split]].
        - apply tiles_snoc; [exact Ht | subst c'; discriminate | rewrite Hbuf; lia].
        - rewrite map_app, concat_app, Hbuf. cbn [map snd concat]. rewrite app_nil_r. reflexivity.
        - rewrite app_assoc, filter_app, Hhc, <- filter_app. reflexivity.
        - rewrite filter_app. cbn. rewrite app_nil_r. exact Hnc. }
      destruct (mb <=? N.of_nat (length (c_buf st')))%N.
      + apply flush_inv. exact Hinv.
      + cbn [fst snd opt_list]. rewrite app_nil_r. exact Hinv.
  Qed.

  Theorem comb_step_inv mb st em pu o :
    CombInv st em pu -> op_ok o ->
    CombInv (fst (comb_step mb st o)) (em ++ opt_list (snd (comb_step mb st o)))
            (pu ++ pushed_of [o]).
  Proof.
    intros Hinv Ho. destruct o as [e c|]; cbn [comb_step pushed_of].
    - apply push_small_inv; assumption.
    - rewrite app_nil_r. apply flush_inv. exact Hinv.
  Qed.

  Lemma pushed_of_app a b : pushed_of (a ++ b) = pushed_of a ++ pushed_of b.
  Proof.
    induction a as [|[e c|] a IH]; cbn [app pushed_of]; [reflexivity | rewrite IH; reflexivity | exact IH].
  Qed.

  Theorem comb_run_inv mb ops : forall st em pu,
      CombInv st em pu -> Forall op_ok ops ->
      CombInv (fst (comb_run mb st em ops)) (snd (comb_run mb st em ops)) (pu ++ pushed_of ops).
  Proof.
    induction ops as [|o ops IH]; intros st em pu Hinv Hok; cbn [comb_run].
    - cbn [fst snd pushed_of]. rewrite app_nil_r. exact Hinv.
    - inversion Hok as [|? ? Ho Hok']; subst.
      pose proof (comb_step_inv mb st em pu o Hinv Ho) as Hstep.
      destruct (comb_step mb st o) as [st' ob]. cbn [fst snd] in Hstep.
      change (pushed_of (o :: ops)) with (pushed_of ([o] ++ ops)).
      rewrite pushed_of_app, app_assoc.
      apply IH; assumption.
  Qed.

  (* ---- consequences of the invariant ---- *)

  (* the queue offsets partition the buffer *)
  Theorem comb_queue_tiles st em pu :
    CombInv st em pu -> queue_tiles 0 (c_queue st) (N.of_nat (length (c_buf st))).
  Proof.
    intros (fin & pend & _ & Ht & Hbuf & _). rewrite Hbuf.
    apply tiles_queue_tiles in Ht. exact Ht.
  Qed.

  (* the debug_asserts in flush/drain: an empty queue means an empty buffer *)
  Theorem comb_queue_empty_buf st em pu : CombInv st em pu -> c_queue st = [] -> c_buf st = [].
  Proof.
    intros (fin & pend & _ & Ht & Hbuf & _) Hq. rewrite Hq in Ht.
    apply tiles_nil_inv in Ht. subst pend. exact Hbuf.
  Qed.

  Theorem flush_empties st em pu :
    CombInv st em pu -> c_buf (fst (flush st)) = [] /\ c_queue (fst (flush st)) = [].
  Proof.
    intros Hinv. unfold flush. destruct (c_queue st) eqn:Eq; cbn [fst c_buf c_queue].
    - split; [eapply comb_queue_empty_buf; eauto | exact Eq].
    - split; reflexivity.
  Qed.

  (* what a push can emit: the old buffer plus the new file, and only once the
     block size is reached ("can overrun by one small file") *)
  Theorem push_small_emits mb st e c b :
    snd (push_small mb st e c) = Some b ->
    b = c_buf st ++ c /\ c <> [] /\ (mb <= N.of_nat (length b))%N.
  Proof.
    unfold push_small. destruct c as [|x c]; [discriminate|].
    destruct (mb <=? N.of_nat (length (c_buf st ++ x :: c)))%N eqn:E; cbn [c_buf] in *;
      rewrite E; [|discriminate].
    unfold flush. cbn [c_queue c_buf]. destruct (c_queue st); cbn [app snd]; intros H;
      inversion H; subst; apply N.leb_le in E; repeat split; auto; discriminate.
  Qed.

  (* between operations the buffer is below the block size (or empty) *)
  Theorem push_small_buf_bound mb st e c :
    ((N.of_nat (length (c_buf st)) < mb)%N \/ c_buf st = []) ->
    ((N.of_nat (length (c_buf (fst (push_small mb st e c)))) < mb)%N
     \/ c_buf (fst (push_small mb st e c)) = []).
  Proof.
    intros H. unfold push_small. destruct c as [|x c]; [exact H|].
    destruct (mb <=? N.of_nat (length (c_buf st ++ x :: c)))%N eqn:E; cbn [c_buf] in *; rewrite E.
    - right. unfold flush. cbn [c_queue]. destruct (c_queue st); reflexivity.
    - left. apply N.leb_gt in E. exact E.
  Qed.

  Theorem flush_emits st em pu b :
    CombInv st em pu -> snd (flush st) = Some b -> b = c_buf st /\ b <> [].
  Proof.
    intros (fin & pend & _ & Ht & Hbuf & _). unfold flush.
    destruct (c_queue st) as [|[[s l] e0] q]; [discriminate|]. cbn [snd]. intros H.
    inversion H; subst b. split; [reflexivity|].
    destruct pend as [|[e1 c1] pend]; cbn [tiles] in Ht; [contradiction|].
    destruct Ht as (_ & _ & _ & Hc1 & _). rewrite Hbuf. cbn [map snd concat].
    destruct c1; [congruence | discriminate].
  Qed.

  Lemma filter_partition_perm {A} (p : A -> bool) l :
    Permutation l (filter p l ++ filter (fun x => negb (p x)) l).
  Proof.
    induction l as [|x l IH]; [constructor|]. cbn [filter].
    destruct (p x); cbn [negb app]; [apply perm_skip; exact IH | apply Permutation_cons_app; exact IH].
  Qed.

  Lemma filters_perm {A} (p : A -> bool) l m :
    filter p l = filter p m -> filter (fun x => negb (p x)) l = filter (fun x => negb (p x)) m ->
    Permutation l m.
  Proof.
    intros H1 H2. eapply Permutation_trans; [apply (filter_partition_perm p)|].
    rewrite H1, H2. apply Permutation_sym, filter_partition_perm.
  Qed.

  Lemma filter_none_all {A} (p : A -> bool) l :
    filter (fun x => negb (p x)) l = [] -> filter p l = l.
  Proof.
    induction l as [|x l IH]; [reflexivity|]. cbn [filter]. destruct (p x); cbn [negb]; [|discriminate].
    intros H. rewrite IH by exact H. reflexivity.
  Qed.

  Lemma Forall2_len {A B} (R : A -> B -> Prop) l m : Forall2 R l m -> length l = length m.
  Proof. intros H. induction H; cbn [length]; congruence. Qed.

  Lemma Forall2_In_r {A B} (R : A -> B -> Prop) l m y :
    Forall2 R l m -> In y m -> exists x, In x l /\ R x y.
  Proof.
    intros H. induction H as [|x0 y0 l m HR H IH]; intros Hin; [destruct Hin|].
    destruct Hin as [<- | Hin]; [exists x0; split; [left; reflexivity | exact HR]|].
    destruct (IH Hin) as (x & Hx & HRx). exists x. split; [right; exact Hx | exact HRx].
  Qed.

  (* Main law: after any run of pushes and flushes and the final flush of
     `drain`, the finished entries are, up to the order between files with and
     without content, exactly the pushed files with correct addresses into the
     emitted blocks. *)
  Theorem combined_slices mb ops :
    Forall op_ok ops ->
    exists fin,
      Forall2 (fin_ok (snd (comb_drain mb ops))) (fst (comb_drain mb ops)) fin /\
      Permutation fin (pushed_of ops) /\
      filter has_content fin = filter has_content (pushed_of ops) /\
      filter no_content fin = filter no_content (pushed_of ops).
  Proof.
    intros Hok. unfold comb_drain.
    pose proof (comb_run_inv mb ops comb_init [] [] comb_init_inv Hok) as Hrun.
    destruct (comb_run mb comb_init [] ops) as [st1 em1]. cbn [fst snd app] in Hrun.
    pose proof (flush_inv _ _ _ Hrun) as Hfl. pose proof (flush_empties _ _ _ Hrun) as [_ Hq].
    destruct (flush st1) as [st2 ob]. cbn [fst snd] in *.
    destruct Hfl as (fin & pend & Hfin & Ht & _ & Hhc & Hnc).
    rewrite Hq in Ht. apply tiles_nil_inv in Ht. subst pend. rewrite app_nil_r in Hhc.
    exists fin. split; [exact Hfin|]. split; [|split; assumption].
    apply (filters_perm has_content); assumption.
  Qed.

  (* ... read per pushed file *)
  Corollary combined_each mb ops e c :
    Forall op_ok ops -> In (e, c) (pushed_of ops) ->
    exists f, In f (fst (comb_drain mb ops)) /\ fin_ok (snd (comb_drain mb ops)) f (e, c).
  Proof.
    intros Hok Hin. destruct (combined_slices mb ops Hok) as (fin & Hfin & Hperm & _).
    eapply Forall2_In_r; [exact Hfin|]. eapply Permutation_in; [apply Permutation_sym; exact Hperm | exact Hin].
  Qed.

  Corollary combined_count mb ops :
    Forall op_ok ops -> length (fst (comb_drain mb ops)) = length (pushed_of ops).
  Proof.
    intros Hok. destruct (combined_slices mb ops Hok) as (fin & Hfin & Hperm & _).
    rewrite (Forall2_len _ _ _ Hfin). apply Permutation_length. exact Hperm.
  Qed.

  (* If no pushed file turned out empty -- the normal case: files of size 0
     are not sent to the combiner, only a file truncated between stat and read
     arrives there empty -- the finished entries are in push order. *)
  Corollary combined_in_order mb ops :
    Forall op_ok ops -> Forall (fun p => snd p <> []) (pushed_of ops) ->
    Forall2 (fin_ok (snd (comb_drain mb ops))) (fst (comb_drain mb ops)) (pushed_of ops).
  Proof.
    intros Hok Hne. destruct (combined_slices mb ops Hok) as (fin & Hfin & _ & Hhc & Hnc).
    assert (Hnone : filter no_content (pushed_of ops) = []).
    { clear -Hne. induction Hne as [|[e c] l Hc _ IH]; [reflexivity|]. cbn [filter].
      unfold no_content at 1, has_content. cbn [snd] in *. destruct c; [congruence|]. exact IH. }
    rewrite Hnone in Hnc.
    rewrite (filter_none_all has_content _ Hnc), (filter_none_all has_content _ Hnone) in Hhc.
    subst fin. exact Hfin.
  Qed.

  (* the finished entries carry exactly the pushed apaths (so sorting them in
     finish_hunk yields the same hunk whatever the order here) *)
  Corollary combined_apaths_perm mb ops :
    Forall op_ok ops ->
    Permutation (map e_apath (fst (comb_drain mb ops)))
                (map (fun p => e_apath (fst p)) (pushed_of ops)).
  Proof.
    intros Hok. destruct (combined_slices mb ops Hok) as (fin & Hfin & Hperm & _).
    eapply Permutation_trans; [|apply Permutation_map; exact Hperm].
    clear Hperm. induction Hfin as [|f p fs ps Hfp _ IH]; [constructor|].
    cbn [map]. destruct Hfp as (Hf & _). rewrite Hf at 1. cbn [set_addrs e_apath].
    apply perm_skip. exact IH.
  Qed.

  (* FALSE as first stated ("each pushed entry appears in finished in push
     order"):
       forall mb ops, Forall op_ok ops ->
         Forall2 (fin_ok (snd (comb_drain mb ops))) (fst (comb_drain mb ops)) (pushed_of ops)
     A file whose read returns nothing is appended to `finished` at once,
     ahead of the files still waiting in the queue. *)
  Definition reorder_ops : list comb_op :=
    [OpPush (mk_entry [47;97]%N) [1;2]%N; OpPush (mk_entry [47;98]%N) []; OpPush (mk_entry [47;99]%N) [3]%N].

  Theorem combined_push_order_refuted :
    exists mb ops, Forall op_ok ops /\
      map e_apath (fst (comb_drain mb ops)) <> map (fun p => e_apath (fst p)) (pushed_of ops).
  Proof.
    exists 100%N, reorder_ops. split; [repeat constructor|]. vm_compute. discriminate.
  Qed.

  Example combined_reorder_ex :
    map e_apath (fst (comb_drain 100 reorder_ops)) = [[47;98]; [47;97]; [47;99]]%N
    /\ snd (comb_drain 100 reorder_ops) = [[1;2;3]]%N.
  Proof. vm_compute. split; reflexivity. Qed.

  Definition demo_ops : list comb_op :=
    [OpPush (mk_entry [47;97]%N) [1;2]%N; OpPush (mk_entry [47;99]%N) [3;4;5]%N; OpFlush;
     OpPush (mk_entry [47;100]%N) [6]%N].

  (* max_block = 5: the second push fills the buffer and flushes by itself,
     the explicit flush is then a no-op, the last file is flushed by drain *)
  Example combined_slices_ex :
    Forall op_ok demo_ops
    /\ snd (comb_drain 5 demo_ops) = [[1;2;3;4;5]; [6]]%N
    /\ map (fun f => read_addrs (store_of (snd (comb_drain 5 demo_ops))) (e_addrs f))
           (fst (comb_drain 5 demo_ops))
       = [Some [1;2]; Some [3;4;5]; Some [6]]%N
    /\ map e_addrs (fst (comb_drain 5 demo_ops))
       = [[{| a_hash := [1;2;3;4;5]; a_start := 0; a_len := 2 |}];
          [{| a_hash := [1;2;3;4;5]; a_start := 2; a_len := 3 |}];
          [{| a_hash := [6]; a_start := 0; a_len := 1 |}]]%N.
  Proof. split; [repeat constructor|]. vm_compute. repeat split; reflexivity. Qed.
End Combiner.
