(* C12 (selecting a subtree returns exactly that subtree) and C15 (exclusions mean the same at
   backup, list and restore time): the PROGRAM-level compositions.  Definitions: Select.v.

   1. The yield-time filter of the stitched reader commutes with reading, in EVERY archive
      state (damaged, interrupted, anything): pure level ([stitch_pure_filter]) and program
      level ([list_select_is_filter], [restore_select_is_filter]), for every band policy.
   2. The subtree filter is ancestry by whole components ([list_subtree_exact], ...).
   3. Exclusions: backing up the not-excluded source and restoring everything = backing up
      the full source and restoring with the exclusions ([exclusions_agree]).
   4. Examples. *)
From Coq Require Import List NArith Bool Lia Sorted.
From CV Require Import Base.Str Base.StrP Apath ApathP Glob GlobP Entry Stitch Tree TreeP ExclP Store
  StitchProg Backup Ops Delete Read SafeP Inv RefIntP FrameP Valid ValidP Conf ConfP Truth TruthP E2E E2EP Select.
Import ListNotations.
Local Open Scope N_scope.

(* ------------------------------------------------------------------------- *)
(** * 0. Lists                                                                 *)
(* ------------------------------------------------------------------------- *)
Lemma filter_filter_comm {A} (f g : A -> bool) l : filter f (filter g l) = filter g (filter f l).
Proof.
  induction l as [|x l IH]; [reflexivity|]. cbn [filter].
  destruct (g x) eqn:G, (f x) eqn:F; cbn [filter]; rewrite ?G, ?F, IH; reflexivity.
Qed.

Lemma filter_map_comm {A B} (h : A -> B) (g : B -> bool) l :
  filter g (map h l) = map h (filter (fun x => g (h x)) l).
Proof.
  induction l as [|x l IH]; [reflexivity|]. cbn [map filter].
  destruct (g (h x)); cbn [map]; rewrite IH; reflexivity.
Qed.

Lemma Forall2_filter {A B} (P : A -> B -> Prop) (f : A -> bool) (g : B -> bool) l m :
  Forall2 P l m -> (forall x y, In x l -> P x y -> f x = g y) ->
  Forall2 P (filter f l) (filter g m).
Proof.
  induction 1 as [|x y l m Hxy _ IH]; intros H; [constructor|]. cbn [filter].
  rewrite <- (H x y (or_introl eq_refl) Hxy).
  assert (IH' : Forall2 P (filter f l) (filter g m)).
  { apply IH. intros x' y' Hx'. apply H. right. exact Hx'. }
  destruct (f x); [constructor; assumption | exact IH'].
Qed.

Lemma length_filter_le {A} (f : A -> bool) l : (length (filter f l) <= length l)%nat.
Proof. induction l as [|x l IH]; cbn [filter length]; [lia|]. destruct (f x); cbn [length]; lia. Qed.

Lemma length_filter_split {A} (f g : A -> bool) l :
  (length (filter g l) = length (filter g (filter f l)) + length (filter g (filter (fun x => negb (f x)) l)))%nat.
Proof.
  induction l as [|x l IH]; [reflexivity|]. cbn [filter].
  destruct (f x) eqn:F, (g x) eqn:G; cbn [negb filter length]; rewrite ?G; cbn [length]; lia.
Qed.

(* ------------------------------------------------------------------------- *)
(** * 1. The filter commutes with reading: pure level, every state             *)
(* ------------------------------------------------------------------------- *)
Section PureFilter.
  Variable pre : bytes -> N.
  Variable keep : entry -> bool.
  Variable a : arch.

  (* the filter applied to what the pure reader returns: last_apath, entries, errors *)
  Definition sel3 (r : option str * list entry * N) : option str * list entry * N :=
    let '(l, ac, m) := r in (l, filter keep ac, m).

  Lemma hl_pure_filter n hs : forall after last acc0 merr,
    hl_pure keep a n hs after last (filter keep acc0) merr
    = sel3 (hl_pure keep_all a n hs after last acc0 merr).
  Proof.
    induction hs as [|h hs IH]; intros after last acc0 merr; cbn [hl_pure]; [reflexivity|].
    destruct (rd a (PHunk (N.of_nat n) h)) as [|e|c|ds fs|ne]; try apply IH.
    - destruct e; try apply IH. reflexivity.
    - destruct c as [p| |]; try apply IH. destruct p as [|v|t|es|c]; try apply IH.
      destruct (phstep (Some es) after) as [[out|] after']; [|apply IH].
      rewrite <- IH. rewrite filter_app, filter_keep_all. reflexivity.
  Qed.

  Lemma ob_pure_filter n last acc0 merr :
    ob_pure pre keep a n last (filter keep acc0) merr = sel3 (ob_pure pre keep_all a n last acc0 merr).
  Proof.
    unfold ob_pure. destruct (head_status (rd a (PHead (N.of_nat n)))); try reflexivity.
    destruct (ls pre a (DIndex (N.of_nat n))); try reflexivity. apply hl_pure_filter.
  Qed.

  Lemma below_pure_filter n : forall last acc0 merr,
    below_pure pre keep a n last (filter keep acc0) merr = sel3 (below_pure pre keep_all a n last acc0 merr).
  Proof.
    induction n as [|m IH]; intros last acc0 merr; cbn [below_pure]; [reflexivity|].
    destruct (meta_is_file (mt a (PHead (N.of_nat m)))); [|apply IH].
    rewrite ob_pure_filter. destruct (ob_pure pre keep_all a m last acc0 merr) as [[l ac] me]. cbn [sel3].
    destruct (closed a (N.of_nat m)); [reflexivity | apply IH].
  Qed.

  (** the pure reading of ANY state with a filter is the filter of the unfiltered reading:
      same resume point, same error count, the entries filtered *)
  Theorem stitch_pure_sel n : stitch_pure pre keep a n = sel3 (stitch_pure pre keep_all a n).
  Proof.
    unfold stitch_pure. change (@nil entry) with (filter keep []) at 1.
    rewrite ob_pure_filter. destruct (ob_pure pre keep_all a n None [] 0) as [[l ac] me]. cbn [sel3].
    destruct (closed a (N.of_nat n)); [reflexivity | apply below_pure_filter].
  Qed.

  Theorem stitch_pure_filter n :
    snd (fst (stitch_pure pre keep a n)) = filter keep (snd (fst (stitch_pure pre keep_all a n)))
    /\ snd (stitch_pure pre keep a n) = snd (stitch_pure pre keep_all a n)
    /\ fst (fst (stitch_pure pre keep a n)) = fst (fst (stitch_pure pre keep_all a n)).
  Proof.
    rewrite stitch_pure_sel. destruct (stitch_pure pre keep_all a n) as [[l ac] me]. cbn. auto.
  Qed.
End PureFilter.

(* ------------------------------------------------------------------------- *)
(** * 2. The filter commutes with reading: program level, every state          *)
(* ------------------------------------------------------------------------- *)
Lemma entry_of_restored_in a e : entry_of (restored_in a e) = e.
Proof. reflexivity. Qed.

(* an entry is reported as not restored exactly when its restored form has no content *)
Lemma rf_failed_restored_in a e : rf_failed (restored_in a e) = not_restored a e.
Proof.
  unfold restored_in, not_restored, rf_failed. destruct (e_kind e); try reflexivity.
  destruct (readable_b a e) eqn:Er; [|reflexivity].
  destruct (addrs_ok_read a _ Er) as [s Hs]. rewrite Hs. reflexivity.
Qed.

Lemma nfailed_restored a es :
  nfailed (map (restored_in a) es) = N.of_nat (length (filter (not_restored a) es)).
Proof.
  unfold nfailed. rewrite filter_map_comm, map_length. f_equal. f_equal.
  apply filter_ext. intros e. apply rf_failed_restored_in.
Qed.

Lemma restored_filter a keep es :
  map (restored_in a) (filter keep es) = filter (rf_keep keep) (map (restored_in a) es).
Proof. rewrite filter_map_comm. reflexivity. Qed.

Section ProgFilter.
  Variable pre : bytes -> N.
  Variable a : arch.
  Notation fin := (fin pre).

  (* ---- band selection does not depend on what is done with the band ---- *)
  Lemma last_complete_fin ids :
    exists o, forall R (k : option N -> prog R), fin (last_complete ids k) a = fin (k o) a.
  Proof.
    induction ids as [|b ids [o IH]]; [exists None; reflexivity|].
    destruct (head_status (rd a (PHead b))) eqn:Eh.
    - destruct (mt a (PTail b)) as [|e|c|ds fs|ne] eqn:Em.
      + exists None. intros R k. cbn [last_complete]. rewrite fin_read, Eh, fin_meta, Em. reflexivity.
      + destruct e.
        * exists o. intros R k. cbn [last_complete]. rewrite fin_read, Eh, fin_meta, Em. apply IH.
        * exists None. intros R k. cbn [last_complete]. rewrite fin_read, Eh, fin_meta, Em. reflexivity.
        * exists None. intros R k. cbn [last_complete]. rewrite fin_read, Eh, fin_meta, Em. reflexivity.
        * exists None. intros R k. cbn [last_complete]. rewrite fin_read, Eh, fin_meta, Em. reflexivity.
      + exists None. intros R k. cbn [last_complete]. rewrite fin_read, Eh, fin_meta, Em. reflexivity.
      + exists None. intros R k. cbn [last_complete]. rewrite fin_read, Eh, fin_meta, Em. reflexivity.
      + destruct ne.
        * exists (Some b). intros R k. cbn [last_complete]. rewrite fin_read, Eh, fin_meta, Em. reflexivity.
        * exists o. intros R k. cbn [last_complete]. rewrite fin_read, Eh, fin_meta, Em. apply IH.
    - exists o. intros R k. cbn [last_complete]. rewrite fin_read, Eh. apply IH.
    - exfalso. exact (head_status_not_panic _ Eh).
  Qed.

  Lemma resolve_fin p :
    exists o, forall R (k : option N -> prog R), fin (resolve p k) a = fin (k o) a.
  Proof.
    destruct p as [| |b]; cbn [resolve].
    - destruct (ls pre a DRoot) as [|e|c|ds fs|ne] eqn:El;
        try (exists None; intros R k; rewrite fin_list, El; reflexivity).
      destruct (last_complete_fin (rev (sorted_N (band_ids ds)))) as [o Ho].
      exists o. intros R k. rewrite fin_list, El. apply Ho.
    - destruct (ls pre a DRoot) as [|e|c|ds fs|ne] eqn:El;
        try (exists None; intros R k; rewrite fin_list, El; reflexivity).
      exists (max_id (band_ids ds)). intros R k. rewrite fin_list, El. reflexivity.
    - exists (Some b). reflexivity.
  Qed.

  (** the band a policy resolves to and opens, in state [a]: one answer, whatever the
      operation goes on to do *)
  Lemma open_tree_fin p :
    exists o, forall R (k : option N -> prog R), fin (open_tree p k) a = fin (k o) a.
  Proof.
    destruct (resolve_fin p) as [o Ho]. unfold open_tree.
    destruct o as [b|].
    - destruct (head_status (rd a (PHead b))) eqn:Eh.
      + exists (Some b). intros R k. rewrite Ho, fin_read, Eh. reflexivity.
      + exists None. intros R k. rewrite Ho, fin_read, Eh. reflexivity.
      + exfalso. exact (head_status_not_panic _ Eh).
    - exists None. intros R k. rewrite Ho. reflexivity.
  Qed.

  (* ---- what listing and restore compute, for every filter at once ---- *)
  (* [o]: the header is good and the policy resolves to band [b], which opens *)
  Definition list_of (o : option N) (keep : entry -> bool) : lres :=
    match o with
    | None => lfail
    | Some b => {| l_ok := true;
                   l_entries := snd (fst (stitch_pure pre keep a (N.to_nat b)));
                   l_merr := snd (stitch_pure pre keep a (N.to_nat b)) |}
    end.

  Lemma read_cases p :
    exists o,
      (forall keep, fin (list_prog p keep) a = (a, Done (list_of o keep)))
      /\ (forall keep,
            fin (restore_prog p keep) a
            = match o with
              | Some b =>
                  if has_dir a DBlocks
                  then fin (restore_entries (snd (fst (stitch_pure pre keep a (N.to_nat b)))) [] []
                              (snd (stitch_pure pre keep a (N.to_nat b)))) a
                  else (a, Done rfail)
              | None => (a, Done rfail)
              end).
  Proof.
    destruct (open_tree_fin p) as [o Ho].
    destruct (rd a PHeader) as [|e|c|ds fs|ne] eqn:Eh;
      try (exists None; split; intros keep; unfold list_prog, restore_prog; rewrite fin_read, Eh; reflexivity).
    destruct c as [pl| |];
      try (exists None; split; intros keep; unfold list_prog, restore_prog; rewrite fin_read, Eh; reflexivity).
    destruct pl;
      try (exists None; split; intros keep; unfold list_prog, restore_prog; rewrite fin_read, Eh; reflexivity).
    exists o. split; intros keep.
    - unfold list_prog. rewrite fin_read, Eh, Ho. destruct o as [b|]; [|reflexivity].
      rewrite fin_bind, snext_pure. cbn [list_of].
      destruct (stitch_pure pre keep a (N.to_nat b)) as [[l es] m]. reflexivity.
    - unfold restore_prog. rewrite fin_read, Eh, Ho. destruct o as [b|]; [|reflexivity].
      rewrite fin_list. unfold ls. destruct (has_dir a DBlocks) eqn:Hb; [|reflexivity].
      rewrite list_blocks_r_pure by apply block_subdir_listed.
      rewrite fin_bind, snext_pure.
      destruct (stitch_pure pre keep a (N.to_nat b)) as [[l es] m]. reflexivity.
  Qed.

  Lemma list_of_sel o keep : list_of o keep = lsel keep (list_of o keep_all).
  Proof.
    destruct o as [b|]; [|reflexivity]. unfold lsel. cbn [list_of l_ok l_entries l_merr].
    destruct (stitch_pure_filter pre keep a (N.to_nat b)) as (E1 & E2 & _). rewrite E1, E2. reflexivity.
  Qed.

  (* ---- listing ---- *)
  Theorem list_select_fin p keep :
    exists r0, fin (list_prog p keep_all) a = (a, Done r0)
               /\ fin (list_prog p keep) a = (a, Done (lsel keep r0)).
  Proof.
    destruct (read_cases p) as (o & HL & _).
    exists (list_of o keep_all). split; [apply HL|]. rewrite HL, list_of_sel. reflexivity.
  Qed.

  (** C12 / C15, LISTING, any state, any band policy: if the unfiltered listing ends with
      result [r0], the listing with yield-time filter [keep] ends with the same success flag,
      the same error count, and exactly the entries of [r0] that satisfy [keep], in order *)
  Theorem list_select_is_filter p keep tr0 a' r0 :
    run pre (list_prog p keep_all) a [] = (tr0, a', Done r0) ->
    exists tr, run pre (list_prog p keep) a [] = (tr, a, Done (lsel keep r0)).
  Proof.
    intros E. apply run_fin in E.
    destruct (list_select_fin p keep) as (r0' & E0 & E1). rewrite E0 in E. inversion E; subst.
    exact (fin_run pre _ _ _ _ E1).
  Qed.

  (** ... and it always does end: listing never crashes or panics without faults *)
  Theorem list_always_done p keep :
    exists tr r0 tr0,
      run pre (list_prog p keep_all) a [] = (tr0, a, Done r0)
      /\ run pre (list_prog p keep) a [] = (tr, a, Done (lsel keep r0)).
  Proof.
    destruct (list_select_fin p keep) as (r0 & E0 & E1).
    destruct (fin_run pre _ _ _ _ E0) as [tr0 R0]. destruct (fin_run pre _ _ _ _ E1) as [tr R1].
    exists tr, r0, tr0. auto.
  Qed.

  (* ---- restore ---- *)
  (* a successful restore returns the restored forms of the listed entries, and reports the
     listing's errors plus one per entry without content *)
  Theorem restore_fin_listing p keep :
    exists r rl,
      fin (restore_prog p keep) a = (a, Done r)
      /\ fin (list_prog p keep) a = (a, Done rl)
      /\ (r_ok r = true ->
          l_ok rl = true
          /\ r_files r = map (restored_in a) (l_entries rl)
          /\ r_merr r = l_merr rl + nfailed (r_files r))
      /\ (r_ok r = false -> r_files r = [] /\ r_merr r = 0).
  Proof.
    destruct (read_cases p) as (o & HL & HR). rewrite HL, HR.
    assert (Hfail : exists r rl : _,
              (a, Done rfail) = (a, Done r) /\ (a, Done (list_of o keep)) = (a, Done rl)
              /\ (r_ok r = true -> l_ok rl = true /\ r_files r = map (restored_in a) (l_entries rl)
                                   /\ r_merr r = l_merr rl + nfailed (r_files r))
              /\ (r_ok r = false -> r_files r = [] /\ r_merr r = 0)).
    { exists rfail, (list_of o keep). split; [reflexivity|]. split; [reflexivity|].
      split; [discriminate | auto]. }
    destruct o as [b|]; [|exact Hfail]. destruct (has_dir a DBlocks); [|exact Hfail].
    assert (HC : CacheOK a []) by (intros h c []).
    destruct (restore_entries_spec pre a (snd (fst (stitch_pure pre keep a (N.to_nat b)))) [] []
                (snd (stitch_pure pre keep a (N.to_nat b))) HC) as (r & E & A1 & B1 & C1).
    exists r, (list_of (Some b) keep). split; [exact E|]. split; [reflexivity|].
    cbn [list_of l_ok l_entries l_merr app] in *. split; [|congruence].
    intros _. split; [reflexivity|]. split; [exact B1|]. rewrite B1, nfailed_restored. exact C1.
  Qed.

  Theorem restore_select_fin p keep :
    exists r0 r m,
      fin (restore_prog p keep_all) a = (a, Done r0)
      /\ fin (restore_prog p keep) a = (a, Done r)
      /\ r_ok r = r_ok r0
      /\ r_files r = filter (rf_keep keep) (r_files r0)
      /\ r_merr r0 = m + nfailed (r_files r0)
      /\ r_merr r = m + nfailed (r_files r).
  Proof.
    destruct (read_cases p) as (o & _ & HR). rewrite !HR.
    assert (Hfail : exists r0 r m,
              (a, Done rfail) = (a, Done r0) /\ (a, Done rfail) = (a, Done r)
              /\ r_ok r = r_ok r0 /\ r_files r = filter (rf_keep keep) (r_files r0)
              /\ r_merr r0 = m + nfailed (r_files r0) /\ r_merr r = m + nfailed (r_files r)).
    { exists rfail, rfail, 0. cbn. auto 10. }
    destruct o as [b|]; [|exact Hfail]. destruct (has_dir a DBlocks); [|exact Hfail].
    assert (HC : CacheOK a []) by (intros h c []).
    destruct (restore_entries_spec pre a (snd (fst (stitch_pure pre keep_all a (N.to_nat b)))) [] []
                (snd (stitch_pure pre keep_all a (N.to_nat b))) HC) as (r0 & E0 & A0 & B0 & C0).
    destruct (restore_entries_spec pre a (snd (fst (stitch_pure pre keep a (N.to_nat b)))) [] []
                (snd (stitch_pure pre keep a (N.to_nat b))) HC) as (r & E & A1 & B1 & C1).
    destruct (stitch_pure_filter pre keep a (N.to_nat b)) as (F1 & F2 & _).
    rewrite F1, F2 in *. cbn [app] in *.
    exists r0, r, (snd (stitch_pure pre keep_all a (N.to_nat b))).
    split; [exact E0|]. split; [exact E|]. split; [congruence|].
    split; [rewrite B1, B0; apply restored_filter|].
    rewrite B0, B1, !nfailed_restored. auto.
  Qed.

  (** C12 / C15, RESTORE, any state, any band policy: if the unfiltered restore ends with
      result [r0], the restore with yield-time filter [keep] ends with the same success flag
      and exactly the files of [r0] whose entry satisfies [keep], in order, each with the same
      content; its error count is that of [r0] less one per deselected entry [r0] could not
      restore *)
  Theorem restore_select_is_filter p keep tr0 a' r0 :
    run pre (restore_prog p keep_all) a [] = (tr0, a', Done r0) ->
    exists tr r,
      run pre (restore_prog p keep) a [] = (tr, a, Done r)
      /\ r_ok r = r_ok r0
      /\ r_files r = filter (rf_keep keep) (r_files r0)
      /\ r_merr r + nfailed (filter (fun rf => negb (rf_keep keep rf)) (r_files r0)) = r_merr r0
      /\ r_merr r <= r_merr r0.
  Proof.
    intros E. apply run_fin in E.
    destruct (restore_select_fin p keep) as (r0' & r & m & E0 & E1 & A & B & C0 & C1).
    rewrite E0 in E. inversion E; subst r0' a'.
    destruct (fin_run pre _ _ _ _ E1) as [tr R]. exists tr, r. split; [exact R|].
    split; [exact A|]. split; [exact B|].
    assert (X : r_merr r + nfailed (filter (fun rf => negb (rf_keep keep rf)) (r_files r0)) = r_merr r0).
    { rewrite C0, C1, B. unfold nfailed.
      rewrite (length_filter_split (rf_keep keep) rf_failed (r_files r0)). lia. }
    split; [exact X | lia].
  Qed.

  (** the error count of a restore, selected or not: the errors of the listing plus one per
      returned file without content *)
  Theorem restore_is_listing p keep tr a' r :
    run pre (restore_prog p keep) a [] = (tr, a', Done r) -> r_ok r = true ->
    exists trl rl,
      run pre (list_prog p keep) a [] = (trl, a, Done rl)
      /\ l_ok rl = true
      /\ r_files r = map (restored_in a) (l_entries rl)
      /\ r_merr r = l_merr rl + nfailed (r_files r).
  Proof.
    intros E Hok. apply run_fin in E.
    destruct (restore_fin_listing p keep) as (r' & rl & E0 & E1 & H1 & _).
    rewrite E0 in E. inversion E; subst r' a'.
    destruct (fin_run pre _ _ _ _ E1) as [trl R]. exists trl, rl. split; [exact R|]. apply H1. exact Hok.
  Qed.
End ProgFilter.

(* ------------------------------------------------------------------------- *)
(** * 3. Where listed entries come from (any state)                            *)
(* ------------------------------------------------------------------------- *)
(* [e] stands in some index hunk that decodes *)
Definition in_some_hunk (a : arch) (e : entry) : Prop :=
  exists b h es, get a (PHunk b h) = Some (Good (PlHunk es)) /\ In e es.

Lemma drop_le_incl x (es : list entry) e :
  In e (drop_le str apath_cmp entry e_apath x es) -> In e es.
Proof.
  induction es as [|y es IH]; cbn [drop_le]; [auto|].
  destruct (kleb str apath_cmp (e_apath y) x); [intros H; right; exact (IH H) | auto].
Qed.

Lemma hstep_incl es after out after' e :
  phstep (Some es) after = (Some out, after') -> In e out -> In e es.
Proof.
  unfold hunk_step. destruct after as [x|].
  - destruct (last_key str entry e_apath es) as [l|].
    + destruct (kleb str apath_cmp l x); [discriminate|].
      destruct (first_key str entry e_apath es) as [f|].
      * destruct (kltb str apath_cmp x f); intros E; inversion E; subst; auto. apply drop_le_incl.
      * intros E; inversion E; subst. apply drop_le_incl.
    + intros E; inversion E; subst. apply drop_le_incl.
  - destruct es; intros E; inversion E; subst; auto.
Qed.

Section Origin.
  Variable pre : bytes -> N.
  Variable keep : entry -> bool.
  Variable a : arch.

  Lemma hl_pure_from n hs : forall after last acc merr e,
    In e (snd (fst (hl_pure keep a n hs after last acc merr))) -> In e acc \/ in_some_hunk a e.
  Proof.
    induction hs as [|h hs IH]; intros after last acc merr e; cbn [hl_pure]; [cbn; auto|].
    unfold rd at 1. destruct (get a (PHunk (N.of_nat n) h)) as [c|] eqn:G; [|cbn; auto].
    destruct c as [p| |]; try apply IH. destruct p as [|v|t|es|c]; try apply IH.
    destruct (phstep (Some es) after) as [[out|] after'] eqn:Es; [|apply IH].
    intros H. apply IH in H. destruct H as [H|H]; [|auto].
    apply in_app_or in H. destruct H as [H|H]; [auto|]. right.
    apply filter_In in H. destruct H as [H _].
    exists (N.of_nat n), h, es. split; [exact G | exact (hstep_incl _ _ _ _ _ Es H)].
  Qed.

  Lemma ob_pure_from n last acc merr e :
    In e (snd (fst (ob_pure pre keep a n last acc merr))) -> In e acc \/ in_some_hunk a e.
  Proof.
    unfold ob_pure. destruct (head_status (rd a (PHead (N.of_nat n)))); try (cbn; auto).
    destruct (ls pre a (DIndex (N.of_nat n))); try (cbn; auto). apply hl_pure_from.
  Qed.

  Lemma below_pure_from n : forall last acc merr e,
    In e (snd (fst (below_pure pre keep a n last acc merr))) -> In e acc \/ in_some_hunk a e.
  Proof.
    induction n as [|m IH]; intros last acc merr e; cbn [below_pure]; [cbn; auto|].
    destruct (meta_is_file (mt a (PHead (N.of_nat m)))); [|apply IH].
    pose proof (ob_pure_from m last acc merr e) as Hob.
    destruct (ob_pure pre keep a m last acc merr) as [[l ac] me]. cbn [fst snd] in Hob.
    destruct (closed a (N.of_nat m)); [exact Hob|].
    intros H. apply IH in H. destruct H as [H|H]; auto.
  Qed.

  (** whatever the state, every entry the stitched reader yields stands in a decodable hunk *)
  Theorem stitch_pure_from n e :
    In e (snd (fst (stitch_pure pre keep a n))) -> in_some_hunk a e.
  Proof.
    unfold stitch_pure. pose proof (ob_pure_from n None [] 0 e) as Hob.
    destruct (ob_pure pre keep a n None [] 0) as [[l ac] me]. cbn [fst snd] in Hob.
    destruct (closed a (N.of_nat n)).
    - intros H. destruct (Hob H) as [[]|H']; exact H'.
    - intros H. apply below_pure_from in H. destruct H as [H|H]; [|exact H].
      destruct (Hob H) as [[]|H']; exact H'.
  Qed.

  Theorem listed_from p tr a' r :
    run pre (list_prog p keep) a [] = (tr, a', Done r) -> Forall (in_some_hunk a) (l_entries r).
  Proof.
    intros E. apply run_fin in E. destruct (read_cases pre a p) as (o & HL & _).
    rewrite HL in E. inversion E; subst a' r. apply Forall_forall. intros e He.
    destruct o as [b|]; [|destruct He]. cbn [list_of l_entries] in He. exact (stitch_pure_from _ _ He).
  Qed.
End Origin.

(* every entry of every decodable hunk has a valid apath *)
Definition HunksValid (a : arch) : Prop := forall e, in_some_hunk a e -> is_valid (e_apath e) = true.

(* a state that conforms to the format (what every operation maintains under every fault:
   [Conf], part of [RInv] and of [Ready]) has it *)
Lemma Conf_HunksValid a : Conf a -> HunksValid a.
Proof.
  intros HC e (b & h & es & G & He). destruct (HC b) as (_ & _ & HE & _).
  pose proof (HE h es G) as F. rewrite Forall_forall in F. exact (proj1 (F e He)).
Qed.

(* ... and damage to a file (removed, truncated, garbage) keeps it *)
Lemma damaged_HunksValid a f a' : HunksValid a -> damaged a f a' -> HunksValid a'.
Proof.
  intros HV Hd e (b & h & es & G & He).
  destruct (damaged_inv a f a' Hd) as (_ & _ & Hother & Hf).
  destruct (fpath_eqb_spec (PHunk b h) f) as [E|NE].
  - exfalso. subst f. destruct Hf as [Hn | (x & Hx & Hbad)]; [congruence|].
    rewrite G in Hx. inversion Hx; subst x. destruct Hbad as [Hb | [Hb | []]]; discriminate Hb.
  - apply HV. exists b, h, es. rewrite <- (Hother _ NE). auto.
Qed.

Lemma valid_hunks_b_sound a : valid_hunks_b a = true -> HunksValid a.
Proof.
  unfold valid_hunks_b. rewrite forallb_forall. intros H e (b & h & es & G & He).
  specialize (H _ (get_In_files a _ _ G)). cbn [snd] in H.
  rewrite forallb_forall in H. exact (H e He).
Qed.

Lemma listed_valid pre keep a p tr a' r :
  HunksValid a -> run pre (list_prog p keep) a [] = (tr, a', Done r) ->
  Forall (fun e => is_valid (e_apath e) = true) (l_entries r).
Proof.
  intros HC E. pose proof (listed_from pre keep a p tr a' r E) as F.
  rewrite Forall_forall in *. intros e He. exact (HC e (F e He)).
Qed.

(* ------------------------------------------------------------------------- *)
(** * 4. C12: the subtree filter                                               *)
(* ------------------------------------------------------------------------- *)
Lemma subtree_keep_spec S e :
  is_valid S = true -> is_valid (e_apath e) = true -> subtree_keep S e = at_or_below S e.
Proof. intros VS Ve. exact (is_prefix_of_spec S (e_apath e) VS Ve). Qed.

Lemma lsel_ext f g r : (forall e, In e (l_entries r) -> f e = g e) -> lsel f r = lsel g r.
Proof. intros H. unfold lsel. rewrite (filter_ext_in f g (l_entries r) H). reflexivity. Qed.

Section Subtree.
  Variable pre : bytes -> N.
  Variable a : arch.
  Variable S : str.
  Hypothesis VS : is_valid S = true.

  (** C12, LISTING: for any version (complete, interrupted, damaged) and any band policy,
      listing with subtree [S] selected returns exactly the entries of the full listing that
      lie at or below [S] by whole path components, in the same order, with the same error
      count -- provided the listed paths are valid apaths *)
  Theorem list_subtree_exact p tr0 a' r0 :
    run pre (list_prog p keep_all) a [] = (tr0, a', Done r0) ->
    Forall (fun e => is_valid (e_apath e) = true) (l_entries r0) ->
    exists tr, run pre (list_prog p (subtree_keep S)) a [] = (tr, a, Done (lsel (at_or_below S) r0)).
  Proof.
    intros E F. destruct (list_select_is_filter pre a p (subtree_keep S) tr0 a' r0 E) as [tr R].
    exists tr. rewrite R. f_equal. f_equal. apply lsel_ext. intros e He.
    rewrite Forall_forall in F. exact (subtree_keep_spec S e VS (F e He)).
  Qed.

  (** ... which holds whenever the hunks that decode hold valid paths: in every state that
      conforms to the format ([Conf_HunksValid]) and in every damaged copy of one
      ([damaged_HunksValid]) *)
  Corollary list_subtree_exact_valid p tr0 a' r0 :
    HunksValid a ->
    run pre (list_prog p keep_all) a [] = (tr0, a', Done r0) ->
    exists tr, run pre (list_prog p (subtree_keep S)) a [] = (tr, a, Done (lsel (at_or_below S) r0)).
  Proof.
    intros HC E. apply (list_subtree_exact p tr0 a' r0 E). exact (listed_valid pre keep_all a p tr0 a' r0 HC E).
  Qed.

  (** membership form: [e] is listed under the selection iff it is listed in full and lies
      at or below [S] *)
  Corollary list_subtree_In p tr0 a' r0 tr a'' r e :
    HunksValid a ->
    run pre (list_prog p keep_all) a [] = (tr0, a', Done r0) ->
    run pre (list_prog p (subtree_keep S)) a [] = (tr, a'', Done r) ->
    (In e (l_entries r) <-> In e (l_entries r0) /\ comp_prefix (comps S) (comps (e_apath e)) = true).
  Proof.
    intros HC E0 E. destruct (list_subtree_exact_valid p tr0 a' r0 HC E0) as [tr' R].
    rewrite R in E. inversion E; subst. cbn [lsel l_entries]. rewrite filter_In. reflexivity.
  Qed.

  (** C12, RESTORE: the selected restore returns exactly the files of the full restore whose
      entry lies at or below [S], in order, each with the same content; it reports no more
      errors than the full restore *)
  Theorem restore_subtree_exact p tr0 a' r0 :
    run pre (restore_prog p keep_all) a [] = (tr0, a', Done r0) ->
    Forall (fun rf => is_valid (e_apath (entry_of rf)) = true) (r_files r0) ->
    exists tr r,
      run pre (restore_prog p (subtree_keep S)) a [] = (tr, a, Done r)
      /\ r_ok r = r_ok r0
      /\ r_files r = filter (rf_keep (at_or_below S)) (r_files r0)
      /\ r_merr r + nfailed (filter (fun rf => negb (rf_keep (at_or_below S) rf)) (r_files r0)) = r_merr r0
      /\ r_merr r <= r_merr r0.
  Proof.
    intros E F.
    destruct (restore_select_is_filter pre a p (subtree_keep S) tr0 a' r0 E) as (tr & r & R & A & B & C & D).
    assert (X : forall rf, In rf (r_files r0) -> rf_keep (subtree_keep S) rf = rf_keep (at_or_below S) rf).
    { intros rf Hrf. rewrite Forall_forall in F. exact (subtree_keep_spec S (entry_of rf) VS (F rf Hrf)). }
    exists tr, r. split; [exact R|]. split; [exact A|].
    split; [rewrite B; apply filter_ext_in; exact X|]. split; [|exact D].
    rewrite <- C. f_equal. f_equal. apply filter_ext_in. intros rf Hrf. rewrite (X rf Hrf). reflexivity.
  Qed.

  Corollary restore_subtree_exact_valid p tr0 a' r0 :
    HunksValid a ->
    run pre (restore_prog p keep_all) a [] = (tr0, a', Done r0) ->
    exists tr r,
      run pre (restore_prog p (subtree_keep S)) a [] = (tr, a, Done r)
      /\ r_ok r = r_ok r0
      /\ r_files r = filter (rf_keep (at_or_below S)) (r_files r0)
      /\ r_merr r + nfailed (filter (fun rf => negb (rf_keep (at_or_below S) rf)) (r_files r0)) = r_merr r0
      /\ r_merr r <= r_merr r0.
  Proof.
    intros HC E. apply (restore_subtree_exact p tr0 a' r0 E).
    destruct (r_ok r0) eqn:Hok.
    - destruct (restore_is_listing pre a p keep_all tr0 a' r0 E Hok) as (trl & rl & RL & _ & Hf & _).
      pose proof (listed_valid pre keep_all a p trl a rl HC RL) as F.
      rewrite Hf. apply Forall_forall. intros rf Hrf. apply in_map_iff in Hrf.
      destruct Hrf as [e [<- He]]. rewrite Forall_forall in F. exact (F e He).
    - apply run_fin in E. destruct (restore_fin_listing pre a p keep_all) as (r' & rl & E0 & _ & _ & H0).
      rewrite E0 in E. inversion E; subst. destruct (H0 Hok) as [-> _]. constructor.
  Qed.
End Subtree.

(* ------------------------------------------------------------------------- *)
(** * 5. C15: exclusions at backup time = exclusions at list / restore time     *)
(* ------------------------------------------------------------------------- *)
Lemma item_restored_path c a0 it rf : item_restored c a0 it rf -> e_apath (entry_of rf) = spath it.
Proof. intros (e & d & -> & Hm & _). exact (meta_of_apath c it e Hm). Qed.

Lemma Forall2_restored_paths c a0 its rfs :
  Forall2 (item_restored c a0) its rfs -> map (fun rf => e_apath (entry_of rf)) rfs = map spath its.
Proof.
  induction 1 as [|it rf its rfs H _ IH]; [reflexivity|]. cbn [map].
  rewrite (item_restored_path c a0 it rf H), IH. reflexivity.
Qed.

Section Excl.
  Variable x : str -> bool.

  Lemma known_items_excl src : known_items (src_excl x src) = src_excl x (known_items src).
  Proof. unfold known_items, src_excl. apply filter_filter_comm. Qed.

  Lemma src_excl_sorted src : SrcSorted src -> SrcSorted (src_excl x src).
  Proof. unfold SrcSorted, src_excl. apply SS_map_filter. Qed.

  Lemma src_excl_valid src : SrcValid src -> SrcValid (src_excl x src).
  Proof.
    unfold SrcValid, src_excl. rewrite !Forall_forall. intros H it Hit. apply filter_In in Hit. apply H. tauto.
  Qed.

  Lemma src_excl_wf src : SrcWF src -> SrcWF (src_excl x src).
  Proof.
    unfold SrcWF, src_excl. rewrite !Forall_forall. intros H it Hit. apply filter_In in Hit. apply H. tauto.
  Qed.

  (* the walk never tests the root; when the root is not excluded anyway, that is the filter *)
  Lemma src_excl_walk_eq root rest :
    x (spath root) = false -> src_excl_walk x (root :: rest) = src_excl x (root :: rest).
  Proof. intros H. unfold src_excl_walk, src_excl. cbn [filter]. rewrite H. reflexivity. Qed.

  (* restored items filtered on both sides *)
  Lemma restored_excl c a0 src rfs :
    Forall2 (item_restored c a0) (known_items src) rfs ->
    Forall2 (item_restored c a0) (known_items (src_excl x src)) (filter (rf_keep (excl_keep x)) rfs).
  Proof.
    intros F. rewrite known_items_excl. unfold src_excl. apply Forall2_filter; [exact F|].
    intros it rf _ H. unfold rf_keep, excl_keep. rewrite (item_restored_path c a0 it rf H). reflexivity.
  Qed.

  Variable pre : bytes -> N.

  (** C15, OPERATIONAL.  From any [Ready] archive state, for any sorted, valid, well-formed
      source, any configuration and ANY exclusion predicate [x], without faults:
      (i)  backing up the source items that are not excluded and restoring the new version
           in full, and
      (ii) backing up the full source and restoring the new version with the exclusion as the
           reader's filter
      both succeed without error and return -- in source order -- one restored file per
      recorded, not excluded source item, carrying that item's metadata and content (the
      block addresses may differ: the statement is about what is restored). *)
  Theorem exclusions_agree c src a0 :
    Ready pre a0 -> SrcSorted src -> SrcValid src -> SrcWF src -> cfg_ok c ->
    (exists trE aE rE,
       run pre (backup_prog pre c (src_excl x src)) a0 [] = (trE, aE, Done rE)
       /\ b_ok rE = true /\ b_errors rE = 0 /\ b_band rE = Some (new_band a0)
       /\ exists tr' rrE,
            run pre (restore_prog (Specified (new_band a0)) keep_all) aE [] = (tr', aE, Done rrE)
            /\ r_ok rrE = true /\ r_merr rrE = 0
            /\ Forall2 (item_restored c a0) (known_items (src_excl x src)) (r_files rrE))
    /\
    (exists trF aF rF,
       run pre (backup_prog pre c src) a0 [] = (trF, aF, Done rF)
       /\ b_ok rF = true /\ b_errors rF = 0 /\ b_band rF = Some (new_band a0)
       /\ exists tr' rrF,
            run pre (restore_prog (Specified (new_band a0)) (excl_keep x)) aF [] = (tr', aF, Done rrF)
            /\ r_ok rrF = true /\ r_merr rrF = 0
            /\ Forall2 (item_restored c a0) (known_items (src_excl x src)) (r_files rrF)).
  Proof.
    intros HR Hs Hv Hw Hc. split.
    - exact (backup_then_restore_exact pre c (src_excl x src) a0 HR
               (src_excl_sorted src Hs) (src_excl_valid src Hv) (src_excl_wf src Hw) Hc).
    - destruct (backup_then_restore_exact pre c src a0 HR Hs Hv Hw Hc)
        as (tr & a1 & r & E & Rok & Rerr & Rband & tr0 & rr0 & E0 & R1 & R2 & R3).
      exists tr, a1, r. repeat (split; [assumption|]).
      destruct (restore_select_is_filter pre a1 (Specified (new_band a0)) (excl_keep x) tr0 a1 rr0 E0)
        as (tr' & rr & E' & A & B & _ & D).
      exists tr', rr. split; [exact E'|]. split; [congruence|]. split; [lia|].
      rewrite B. apply restored_excl. exact R3.
  Qed.

  (** ... and the listings: the paths listed in full from (i), and with the exclusion from
      (ii), are the paths of the recorded, not excluded source items, in source order, with
      no error *)
  Theorem exclusions_agree_listing c src a0 :
    Ready pre a0 -> SrcSorted src -> SrcValid src -> SrcWF src -> cfg_ok c ->
    let aE := snd (fst (run pre (backup_prog pre c (src_excl x src)) a0 [])) in
    let aF := snd (fst (run pre (backup_prog pre c src) a0 [])) in
    exists trE lE trF lF,
      run pre (list_prog (Specified (new_band a0)) keep_all) aE [] = (trE, aE, Done lE)
      /\ run pre (list_prog (Specified (new_band a0)) (excl_keep x)) aF [] = (trF, aF, Done lF)
      /\ l_ok lE = true /\ l_ok lF = true /\ l_merr lE = 0 /\ l_merr lF = 0
      /\ map e_apath (l_entries lE) = map spath (known_items (src_excl x src))
      /\ map e_apath (l_entries lF) = map spath (known_items (src_excl x src)).
  Proof.
    intros HR Hs Hv Hw Hc aE aF.
    destruct (exclusions_agree c src a0 HR Hs Hv Hw Hc) as [HE HF].
    destruct HE as (tE & aE' & rE & EE & _ & _ & _ & tE' & rrE & EE' & OE & ME & FE).
    destruct HF as (tF & aF' & rF & EF & _ & _ & _ & tF' & rrF & EF' & OF & MF & FF).
    assert (XE : aE = aE') by (unfold aE; rewrite EE; reflexivity).
    assert (XF : aF = aF') by (unfold aF; rewrite EF; reflexivity).
    rewrite XE, XF.
    destruct (restore_is_listing pre aE' _ _ _ _ _ EE' OE) as (trE & lE & LE & OlE & FlE & MlE).
    destruct (restore_is_listing pre aF' _ _ _ _ _ EF' OF) as (trF & lF & LF & OlF & FlF & MlF).
    exists trE, lE, trF, lF. split; [exact LE|]. split; [exact LF|].
    split; [exact OlE|]. split; [exact OlF|]. split; [lia|]. split; [lia|].
    apply Forall2_restored_paths in FE, FF.
    split; [rewrite <- FE, FlE | rewrite <- FF, FlF]; rewrite map_map; reflexivity.
  Qed.

  (** the form with the root set aside, as the source walk does it: the first source item
      (the root "/") is never tested at backup time; if the exclusions do not match it, the
      source read by a backup with exclusions is [src_excl x] of the full source *)
  Corollary exclusions_agree_walk c root rest a0 :
    x (spath root) = false ->
    Ready pre a0 -> SrcSorted (root :: rest) -> SrcValid (root :: rest) -> SrcWF (root :: rest) -> cfg_ok c ->
    (exists trE aE rE,
       run pre (backup_prog pre c (src_excl_walk x (root :: rest))) a0 [] = (trE, aE, Done rE)
       /\ b_ok rE = true /\ b_errors rE = 0 /\ b_band rE = Some (new_band a0)
       /\ exists tr' rrE,
            run pre (restore_prog (Specified (new_band a0)) keep_all) aE [] = (tr', aE, Done rrE)
            /\ r_ok rrE = true /\ r_merr rrE = 0
            /\ Forall2 (item_restored c a0) (known_items (src_excl_walk x (root :: rest))) (r_files rrE))
    /\
    (exists trF aF rF,
       run pre (backup_prog pre c (root :: rest)) a0 [] = (trF, aF, Done rF)
       /\ b_ok rF = true /\ b_errors rF = 0 /\ b_band rF = Some (new_band a0)
       /\ exists tr' rrF,
            run pre (restore_prog (Specified (new_band a0)) (excl_keep x)) aF [] = (tr', aF, Done rrF)
            /\ r_ok rrF = true /\ r_merr rrF = 0
            /\ Forall2 (item_restored c a0) (known_items (src_excl_walk x (root :: rest))) (r_files rrF)).
  Proof.
    intros Hroot. rewrite (src_excl_walk_eq root rest Hroot). apply exclusions_agree.
  Qed.
End Excl.

(* ---- the source walk with text exclusions reads [src_excl_walk] of the full walk ---- *)
Lemma map_tl {A B} (f : A -> B) l : map f (tl l) = tl (map f l).
Proof. destruct l; reflexivity. Qed.

(** whatever turns a walk item into a source item (reading metadata and bytes), keeping its
    path: the items a backup with exclusion patterns [pats] reads are the root followed by the
    not-excluded items of the full walk *)
Theorem walk_source_excl {M} (mk : item M -> sitem) (pats : list str) (t : tree M) :
  WFtree t -> (forall it, spath (mk it) = path it) ->
  map mk (walk_rec (excl_text pats) t)
  = src_excl_walk (excl_text pats) (map mk (walk_rec (fun _ => false) t)).
Proof.
  intros Hwf Hp.
  pose proof (walk_excl_text_eq_filter pats t Hwf) as E.
  unfold walk_rec in *. cbn [tl map src_excl_walk] in *. rewrite E. f_equal.
  unfold src_excl. rewrite filter_map_comm. f_equal. apply filter_ext. intros it. rewrite Hp. reflexivity.
Qed.

(* ------------------------------------------------------------------------- *)
(** * 6. Examples (non-vacuity), by computation and as instances               *)
(* ------------------------------------------------------------------------- *)
Module SelectExamples.
  Import SafeExamples FrameExamples E2EExamples.

  Definition s_a : str := [47;97].        (* "/a" *)
  Definition s_f : str := [47;102].       (* "/f" *)

  (* the state after the third backup of E2EExamples (bands 0, 1, 2; band 2 holds "/", "/a",
     "/b" | "/c", "/e", "/f" | "/f/x"), then DAMAGED and made to look INTERRUPTED: hunk 0 of
     band 2 is garbage, the blocks of "/e" and of the tail of "/f/x" are gone, the BANDTAIL is
     gone *)
  Definition a5 : arch := final (backup_prog ex_pre e5_cfg (e5_src other_b)) ex_a3 [].
  Definition a5d : arch :=
    remove_path (remove_path (remove_path (replace_path a5 (PHunk 2 0) Garbage) (PBlock [3])) (PBlock [2;1])) (PTail 2).

  Definition showl (o : outcome lres) : bool * list str * N :=
    match o with Done r => (l_ok r, map e_apath (l_entries r), l_merr r) | _ => (false, [], 99) end.
  Definition showr (o : outcome rres) : bool * list (str * option bytes) * N :=
    match o with
    | Done r => (r_ok r, map (fun rf => match rf with RFile e d => (e_apath e, d) end) (r_files r), r_merr r)
    | _ => (false, [], 99)
    end.

  (* 1. the filter is applied at yield time only, pure level, computed: the interrupted
     band 1 of [ex_crash] (stitched into band 0), the damaged band 2 of [a5d], a filter that
     is neither a subtree nor an exclusion *)
  Example ex_pure_filter_computed :
    stitch_pure ex_pre (subtree_keep s_a) ex_crash 1 = sel3 (subtree_keep s_a) (stitch_pure ex_pre keep_all ex_crash 1)
    /\ stitch_pure ex_pre (subtree_keep s_f) a5d 2 = sel3 (subtree_keep s_f) (stitch_pure ex_pre keep_all a5d 2)
    /\ (let odd e := N.odd (N.of_nat (length (e_apath e))) in
        stitch_pure ex_pre odd a5d 2 = sel3 odd (stitch_pure ex_pre keep_all a5d 2))
    /\ map e_apath (snd (fst (stitch_pure ex_pre keep_all a5d 2))) = [[47;99]; [47;101]; s_f; [47;102;47;120]]
    /\ snd (stitch_pure ex_pre keep_all a5d 2) = 1.
  Proof. vm_compute. repeat split; reflexivity. Qed.

  (* 2. C12 on the interrupted version of FrameExamples: computed, and as an instance *)
  Example ex_crash_subtree_computed :
    showl (outcome_of (list_prog (Specified 1) keep_all) ex_crash) = (true, [[47]; s_a; [47;98]], 1)
    /\ showl (outcome_of (list_prog (Specified 1) (subtree_keep s_a)) ex_crash) = (true, [s_a], 1)
    /\ showl (outcome_of (list_prog Latest (subtree_keep s_a)) ex_crash) = (true, [s_a], 1)
    /\ showl (outcome_of (list_prog LatestClosed (subtree_keep s_a)) ex_crash) = (true, [s_a], 0).
  Proof. vm_compute. repeat split; reflexivity. Qed.

  Example ex_crash_valid : HunksValid ex_crash /\ HunksValid a5d /\ is_valid s_a = true /\ is_valid s_f = true.
  Proof.
    split; [apply valid_hunks_b_sound; vm_compute; reflexivity|].
    split; [apply valid_hunks_b_sound; vm_compute; reflexivity|]. vm_compute. split; reflexivity.
  Qed.

  Example ex_crash_subtree_thm : forall p,
    exists tr0 r0 tr,
      run ex_pre (list_prog p keep_all) ex_crash [] = (tr0, ex_crash, Done r0)
      /\ run ex_pre (list_prog p (subtree_keep s_a)) ex_crash [] = (tr, ex_crash, Done (lsel (at_or_below s_a) r0)).
  Proof.
    intros p. destruct (list_always_done ex_pre ex_crash p keep_all) as (_ & r0 & tr0 & R0 & _).
    destruct (list_subtree_exact_valid ex_pre ex_crash s_a (proj1 (proj2 (proj2 ex_crash_valid))) p tr0 ex_crash r0
                (proj1 ex_crash_valid) R0) as [tr R].
    exists tr0, r0, tr. auto.
  Qed.

  (* 3. restore from the damaged, interrupted version: the full restore reports 3 errors
     (the garbage hunk, "/e", "/f/x"); with "/f" selected 2 (the hunk, "/f/x"): the
     unrestorable "/e" is not selected, hence not reported *)
  Example ex_damaged_restore_computed :
    showr (outcome_of (restore_prog (Specified 2) keep_all) a5d)
    = (true, [([47;99], Some []); ([47;101], None); (s_f, Some []); ([47;102;47;120], None)], 3)
    /\ showr (outcome_of (restore_prog (Specified 2) (subtree_keep s_f)) a5d)
       = (true, [(s_f, Some []); ([47;102;47;120], None)], 2)
    /\ showr (outcome_of (restore_prog Latest (subtree_keep s_f)) a5d)
       = (true, [(s_f, Some []); ([47;102;47;120], None)], 2)
    /\ showr (outcome_of (restore_prog LatestClosed (subtree_keep s_f)) a5d) = (true, [], 0).
  Proof. vm_compute. repeat split; reflexivity. Qed.

  Example ex_damaged_restore_thm : forall p,
    exists tr0 r0 tr r,
      run ex_pre (restore_prog p keep_all) a5d [] = (tr0, a5d, Done r0)
      /\ run ex_pre (restore_prog p (subtree_keep s_f)) a5d [] = (tr, a5d, Done r)
      /\ r_ok r = r_ok r0
      /\ r_files r = filter (rf_keep (at_or_below s_f)) (r_files r0)
      /\ r_merr r + nfailed (filter (fun rf => negb (rf_keep (at_or_below s_f) rf)) (r_files r0)) = r_merr r0.
  Proof.
    intros p. destruct (restore_select_fin ex_pre a5d p keep_all) as (r0 & _ & _ & E0 & _).
    destruct (fin_run ex_pre _ _ _ _ E0) as [tr0 R0].
    destruct (restore_subtree_exact_valid ex_pre a5d s_f (proj2 (proj2 (proj2 ex_crash_valid))) p tr0 a5d r0
                (proj1 (proj2 ex_crash_valid)) R0) as (tr & r & R & A & B & C & _).
    exists tr0, r0, tr, r. auto.
  Qed.

  (* 4. C15 on the source of E2EExamples, patterns "/f" and "/b": "/b", "/f" and "/f/x" are
     excluded, the root is not *)
  Definition ex_pats : list str := [s_f; [47;98]].
  Definition ex_x : str -> bool := excl_text ex_pats.

  Example ex_excl_computed :
    map ex_x (map spath (e5_src other_b)) = [false; false; true; false; false; false; true; true]
    /\ map spath (known_items (src_excl ex_x (e5_src other_b))) = [[47]; s_a; [47;99]; [47;101]]
    /\ src_excl_walk ex_x (e5_src other_b) = src_excl ex_x (e5_src other_b)
    /\ (let aE := final (backup_prog ex_pre e5_cfg (src_excl_walk ex_x (e5_src other_b))) ex_a3 [] in
        let aF := final (backup_prog ex_pre e5_cfg (e5_src other_b)) ex_a3 [] in
        showr (outcome_of (restore_prog (Specified 2) keep_all) aE)
        = (true, [([47], Some []); (s_a, Some [1;2]); ([47;99], Some []); ([47;101], Some [3])], 0)
        /\ showr (outcome_of (restore_prog (Specified 2) (excl_keep ex_x)) aF)
           = showr (outcome_of (restore_prog (Specified 2) keep_all) aE)
        /\ showl (outcome_of (list_prog (Specified 2) (excl_keep ex_x)) aF)
           = showl (outcome_of (list_prog (Specified 2) keep_all) aE)).
  Proof. vm_compute. repeat split; reflexivity. Qed.

  Example ex_excl_thm :
    (exists trE aE rE,
       run ex_pre (backup_prog ex_pre e5_cfg (src_excl_walk ex_x (e5_src other_b))) ex_a3 [] = (trE, aE, Done rE)
       /\ b_ok rE = true /\ b_errors rE = 0 /\ b_band rE = Some (new_band ex_a3)
       /\ exists tr' rrE,
            run ex_pre (restore_prog (Specified (new_band ex_a3)) keep_all) aE [] = (tr', aE, Done rrE)
            /\ r_ok rrE = true /\ r_merr rrE = 0
            /\ Forall2 (item_restored e5_cfg ex_a3) (known_items (src_excl_walk ex_x (e5_src other_b))) (r_files rrE))
    /\
    (exists trF aF rF,
       run ex_pre (backup_prog ex_pre e5_cfg (e5_src other_b)) ex_a3 [] = (trF, aF, Done rF)
       /\ b_ok rF = true /\ b_errors rF = 0 /\ b_band rF = Some (new_band ex_a3)
       /\ exists tr' rrF,
            run ex_pre (restore_prog (Specified (new_band ex_a3)) (excl_keep ex_x)) aF [] = (tr', aF, Done rrF)
            /\ r_ok rrF = true /\ r_merr rrF = 0
            /\ Forall2 (item_restored e5_cfg ex_a3) (known_items (src_excl_walk ex_x (e5_src other_b))) (r_files rrF)).
  Proof.
    destruct (e5_src_ok other_b eq_refl) as (H1 & H2 & H3).
    apply (exclusions_agree_walk ex_x ex_pre e5_cfg _ _ ex_a3); try assumption;
      [vm_compute; reflexivity | exact ex_ready_a3 | exact e5_cfg_ok].
  Qed.

  (* the source walk with the pattern "/a" on the tree of TreeP's examples: what the backup
     reads is [src_excl_walk] of the full walk *)
  Definition ex_mk (it : item N) : sitem := {| si_e := mk_s (path it) (ikind it) 0 0; si_data := [] |}.
  Example ex_walk_thm :
    map ex_mk (walk_rec (excl_text [s_a]) ex_tree)
    = src_excl_walk (excl_text [s_a]) (map ex_mk (walk_rec (fun _ => false) ex_tree))
    /\ length (walk_rec (excl_text [s_a]) ex_tree) = 10%nat
    /\ length (walk_rec (fun _ => false) ex_tree) = 16%nat.
  Proof.
    split; [apply walk_source_excl; [exact TreeP.ex_wf | reflexivity]|]. vm_compute. split; reflexivity.
  Qed.
End SelectExamples.

(* ------------------------------------------------------------------------- *)
(** * 7. The root is the one place where the two meanings differ               *)
(* ------------------------------------------------------------------------- *)
(* Without [x (spath root) = false] the statement of [exclusions_agree_walk] is FALSE:
     forall x c root rest a0, Ready pre a0 -> SrcSorted (root :: rest) -> ... ->
       (the two restores return the restored forms of the same source items).
   The pattern "/" matches the root alone.  A backup with it stores the root (the walk never
   tests the root) and everything else; listing or restoring a full backup with it leaves
   the root out. *)
Theorem exclusions_agree_root_refuted :
  exists pre c root rest a0 pats,
    Ready pre a0 /\ SrcSorted (root :: rest) /\ SrcValid (root :: rest) /\ SrcWF (root :: rest) /\ cfg_ok c
    /\ excl_text pats (spath root) = true
    /\ let x := excl_text pats in
       let aE := snd (fst (run pre (backup_prog pre c (src_excl_walk x (root :: rest))) a0 [])) in
       let aF := snd (fst (run pre (backup_prog pre c (root :: rest)) a0 [])) in
       forall trE rrE trF rrF,
         run pre (restore_prog (Specified (new_band a0)) keep_all) aE [] = (trE, aE, Done rrE) ->
         run pre (restore_prog (Specified (new_band a0)) (excl_keep x)) aF [] = (trF, aF, Done rrF) ->
         length (r_files rrE) = 7%nat /\ length (r_files rrF) = 6%nat.
Proof.
  exists SafeExamples.ex_pre, E2EExamples.e5_cfg,
    {| si_e := SafeExamples.mk_s [47] KDir 0 1000000000; si_data := [] |},
    (tl (E2EExamples.e5_src E2EExamples.other_b)), SafeExamples.ex_a3, [[47]].
  destruct (E2EExamples.e5_src_ok E2EExamples.other_b eq_refl) as (H1 & H2 & H3).
  split; [exact E2EExamples.ex_ready_a3|]. split; [exact H1|]. split; [exact H2|]. split; [exact H3|].
  split; [exact E2EExamples.e5_cfg_ok|]. split; [vm_compute; reflexivity|].
  intros x aE aF trE rrE trF rrF EE EF.
  assert (XE : match snd (run SafeExamples.ex_pre (restore_prog (Specified (new_band SafeExamples.ex_a3)) keep_all) aE []) with
               | Done rr => length (r_files rr) | _ => 0%nat end = 7%nat) by (vm_compute; reflexivity).
  assert (XF : match snd (run SafeExamples.ex_pre (restore_prog (Specified (new_band SafeExamples.ex_a3)) (excl_keep x)) aF []) with
               | Done rr => length (r_files rr) | _ => 0%nat end = 6%nat) by (vm_compute; reflexivity).
  rewrite EE in XE. rewrite EF in XF. cbn [snd] in XE, XF. auto.
Qed.

(* ------------------------------------------------------------------------- *)
(** * 8. The main statements, in full                                          *)
(* ------------------------------------------------------------------------- *)

(* 1a. pure level, every state *)
Theorem Select_stitch_pure_filter : forall (pre : bytes -> N) (keep : entry -> bool) (a : arch) (n : nat),
  snd (fst (stitch_pure pre keep a n)) = filter keep (snd (fst (stitch_pure pre keep_all a n)))
  /\ snd (stitch_pure pre keep a n) = snd (stitch_pure pre keep_all a n)
  /\ fst (fst (stitch_pure pre keep a n)) = fst (fst (stitch_pure pre keep_all a n)).
Proof. exact stitch_pure_filter. Qed.

(* 1b. listing with a filter = the filter of the listing; every state, every policy *)
Theorem Select_list_select_is_filter :
  forall (pre : bytes -> N) (a : arch) (p : policy) (keep : entry -> bool) tr0 a' r0,
    run pre (list_prog p keep_all) a [] = (tr0, a', Done r0) ->
    exists tr,
      run pre (list_prog p keep) a []
      = (tr, a, Done {| l_ok := l_ok r0; l_entries := filter keep (l_entries r0); l_merr := l_merr r0 |}).
Proof. exact list_select_is_filter. Qed.

Theorem Select_list_always_done :
  forall (pre : bytes -> N) (a : arch) (p : policy) (keep : entry -> bool),
    exists tr r0 tr0,
      run pre (list_prog p keep_all) a [] = (tr0, a, Done r0)
      /\ run pre (list_prog p keep) a [] = (tr, a, Done (lsel keep r0)).
Proof. exact list_always_done. Qed.

(* 1c. restore with a filter = the filter of the restore; every state, every policy *)
Theorem Select_restore_select_is_filter :
  forall (pre : bytes -> N) (a : arch) (p : policy) (keep : entry -> bool) tr0 a' r0,
    run pre (restore_prog p keep_all) a [] = (tr0, a', Done r0) ->
    exists tr r,
      run pre (restore_prog p keep) a [] = (tr, a, Done r)
      /\ r_ok r = r_ok r0
      /\ r_files r = filter (fun rf => keep (entry_of rf)) (r_files r0)
      /\ r_merr r + nfailed (filter (fun rf => negb (keep (entry_of rf))) (r_files r0)) = r_merr r0
      /\ r_merr r <= r_merr r0.
Proof. exact restore_select_is_filter. Qed.

(* 1d. the error count of a restore = the listing's errors + the files without content *)
Theorem Select_restore_is_listing :
  forall (pre : bytes -> N) (a : arch) (p : policy) (keep : entry -> bool) tr a' r,
    run pre (restore_prog p keep) a [] = (tr, a', Done r) -> r_ok r = true ->
    exists trl rl,
      run pre (list_prog p keep) a [] = (trl, a, Done rl)
      /\ l_ok rl = true
      /\ r_files r = map (restored_in a) (l_entries rl)
      /\ r_merr r = l_merr rl + nfailed (r_files r).
Proof. exact restore_is_listing. Qed.

(* 2. C12 *)
Theorem Select_list_subtree_exact :
  forall (pre : bytes -> N) (a : arch) (S : str), is_valid S = true ->
  forall (p : policy) tr0 a' r0,
    run pre (list_prog p keep_all) a [] = (tr0, a', Done r0) ->
    Forall (fun e => is_valid (e_apath e) = true) (l_entries r0) ->
    exists tr,
      run pre (list_prog p (fun e => is_prefix_of S (e_apath e))) a []
      = (tr, a, Done {| l_ok := l_ok r0;
                        l_entries := filter (fun e => comp_prefix (comps S) (comps (e_apath e))) (l_entries r0);
                        l_merr := l_merr r0 |}).
Proof. exact list_subtree_exact. Qed.

Theorem Select_list_subtree_exact_valid :
  forall (pre : bytes -> N) (a : arch) (S : str), is_valid S = true ->
  forall (p : policy) tr0 a' r0,
    HunksValid a ->
    run pre (list_prog p keep_all) a [] = (tr0, a', Done r0) ->
    exists tr, run pre (list_prog p (subtree_keep S)) a [] = (tr, a, Done (lsel (at_or_below S) r0)).
Proof. exact list_subtree_exact_valid. Qed.

Theorem Select_list_subtree_In :
  forall (pre : bytes -> N) (a : arch) (S : str), is_valid S = true ->
  forall (p : policy) tr0 a' r0 tr a'' r e,
    HunksValid a ->
    run pre (list_prog p keep_all) a [] = (tr0, a', Done r0) ->
    run pre (list_prog p (subtree_keep S)) a [] = (tr, a'', Done r) ->
    (In e (l_entries r) <-> In e (l_entries r0) /\ comp_prefix (comps S) (comps (e_apath e)) = true).
Proof. exact list_subtree_In. Qed.

Theorem Select_restore_subtree_exact_valid :
  forall (pre : bytes -> N) (a : arch) (S : str), is_valid S = true ->
  forall (p : policy) tr0 a' r0,
    HunksValid a ->
    run pre (restore_prog p keep_all) a [] = (tr0, a', Done r0) ->
    exists tr r,
      run pre (restore_prog p (subtree_keep S)) a [] = (tr, a, Done r)
      /\ r_ok r = r_ok r0
      /\ r_files r = filter (rf_keep (at_or_below S)) (r_files r0)
      /\ r_merr r + nfailed (filter (fun rf => negb (rf_keep (at_or_below S) rf)) (r_files r0)) = r_merr r0
      /\ r_merr r <= r_merr r0.
Proof. exact restore_subtree_exact_valid. Qed.

Theorem Select_HunksValid_sources :
  (forall a, Conf a -> HunksValid a)
  /\ (forall a f a', HunksValid a -> damaged a f a' -> HunksValid a')
  /\ (forall a, valid_hunks_b a = true -> HunksValid a).
Proof. split; [exact Conf_HunksValid | split; [exact damaged_HunksValid | exact valid_hunks_b_sound]]. Qed.

(* 3. C15 *)
Theorem Select_exclusions_agree :
  forall (x : str -> bool) (pre : bytes -> N) (c : cfg) (src : list sitem) (a0 : arch),
    Ready pre a0 -> SrcSorted src -> SrcValid src -> SrcWF src -> cfg_ok c ->
    (exists trE aE rE,
       run pre (backup_prog pre c (src_excl x src)) a0 [] = (trE, aE, Done rE)
       /\ b_ok rE = true /\ b_errors rE = 0 /\ b_band rE = Some (new_band a0)
       /\ exists tr' rrE,
            run pre (restore_prog (Specified (new_band a0)) keep_all) aE [] = (tr', aE, Done rrE)
            /\ r_ok rrE = true /\ r_merr rrE = 0
            /\ Forall2 (item_restored c a0) (known_items (src_excl x src)) (r_files rrE))
    /\
    (exists trF aF rF,
       run pre (backup_prog pre c src) a0 [] = (trF, aF, Done rF)
       /\ b_ok rF = true /\ b_errors rF = 0 /\ b_band rF = Some (new_band a0)
       /\ exists tr' rrF,
            run pre (restore_prog (Specified (new_band a0)) (excl_keep x)) aF [] = (tr', aF, Done rrF)
            /\ r_ok rrF = true /\ r_merr rrF = 0
            /\ Forall2 (item_restored c a0) (known_items (src_excl x src)) (r_files rrF)).
Proof. exact exclusions_agree. Qed.

Theorem Select_exclusions_agree_listing :
  forall (x : str -> bool) (pre : bytes -> N) (c : cfg) (src : list sitem) (a0 : arch),
    Ready pre a0 -> SrcSorted src -> SrcValid src -> SrcWF src -> cfg_ok c ->
    let aE := snd (fst (run pre (backup_prog pre c (src_excl x src)) a0 [])) in
    let aF := snd (fst (run pre (backup_prog pre c src) a0 [])) in
    exists trE lE trF lF,
      run pre (list_prog (Specified (new_band a0)) keep_all) aE [] = (trE, aE, Done lE)
      /\ run pre (list_prog (Specified (new_band a0)) (excl_keep x)) aF [] = (trF, aF, Done lF)
      /\ l_ok lE = true /\ l_ok lF = true /\ l_merr lE = 0 /\ l_merr lF = 0
      /\ map e_apath (l_entries lE) = map spath (known_items (src_excl x src))
      /\ map e_apath (l_entries lF) = map spath (known_items (src_excl x src)).
Proof. exact exclusions_agree_listing. Qed.

Theorem Select_walk_source_excl :
  forall (M : Type) (mk : item M -> sitem) (pats : list str) (t : tree M),
    WFtree t -> (forall it, spath (mk it) = path it) ->
    map mk (walk_rec (excl_text pats) t)
    = src_excl_walk (excl_text pats) (map mk (walk_rec (fun _ => false) t)).
Proof. exact (@walk_source_excl). Qed.

Print Assumptions Select_stitch_pure_filter.
Print Assumptions Select_list_select_is_filter.
Print Assumptions Select_list_always_done.
Print Assumptions Select_restore_select_is_filter.
Print Assumptions Select_restore_is_listing.
Print Assumptions listed_from.
Print Assumptions Select_list_subtree_exact.
Print Assumptions Select_list_subtree_exact_valid.
Print Assumptions Select_list_subtree_In.
Print Assumptions restore_subtree_exact.
Print Assumptions Select_restore_subtree_exact_valid.
Print Assumptions Select_HunksValid_sources.
Print Assumptions Select_exclusions_agree.
Print Assumptions Select_exclusions_agree_listing.
Print Assumptions exclusions_agree_walk.
Print Assumptions Select_walk_source_excl.
Print Assumptions exclusions_agree_root_refuted.
Print Assumptions SelectExamples.ex_crash_subtree_thm.
Print Assumptions SelectExamples.ex_damaged_restore_thm.
Print Assumptions SelectExamples.ex_excl_thm.
