(* C09, the healthy side: "on any archive produced by fault-free operations (completed
   backups, backups interrupted after their band header was written, deletes, gc) validation
   reports no error".  Model file: executable definitions and predicates only (lemmas and
   theorems: HealthyP.v).

   [Valid.Healthy] is what validation is proved silent on ([ValidP.validate_healthy_silent]).
   Here: the state a backup killed BEFORE its band header was written can leave
   ([HealthyUH]: the newest band directory has no file at all), fault lists, and histories
   of operations. *)
From Coq Require Import List NArith Bool.
From CV Require Import Base.Str Apath Entry Store Stitch StitchProg Codec Tree Backup Ops Delete Read Inv Valid Truth.
Import ListNotations.
Local Open Scope N_scope.

Section HealthyDefs.
  Variable pre : bytes -> N.

  (* band [b] has no file at all: no head, no index hunk, no tail *)
  Definition band_clear (a : arch) (b : N) : Prop :=
    get a (PHead b) = None /\ (forall h, get a (PHunk b h) = None) /\ get a (PTail b) = None.

  (* ... and it is the newest band *)
  Definition HeadlessTop (a : arch) (b : N) : Prop :=
    band_clear a b /\ forall b', In (DBand b') (dirs a) -> b' <= b.

  (* [Valid.WFdirs] without its last clause (a band directory has its index directory) *)
  Definition WFdirs0 (a : arch) : Prop :=
    NoDup (dirs a)
    /\ In DRoot (dirs a) /\ In DBlocks (dirs a)
    /\ (forall f x, In (f, x) (files a) -> In (parent_f pre f) (dirs a))
    /\ (forall d p, In d (dirs a) -> parent_d d = Some p -> In p (dirs a)).

  (* healthy, except that the newest band directory may be the leftover of a backup killed
     (or failed) before its BANDHEAD was written: a directory b<newest>, perhaps with its
     index directory i/, and no file in it.  [Valid.Healthy] is the special case where every
     band directory takes the left alternative. *)
  Definition HealthyUH (a : arch) : Prop :=
    WFdirs0 a /\ AInv a /\ get a PHeader = Some (Good PlJson)
    /\ forall b, In (DBand b) (dirs a) ->
         (In (DIndex b) (dirs a) /\ BandHealthy a b) \/ HeadlessTop a b.

  (* ---- fault lists ---- *)
  (* killed after [k] operations: the first k operations are performed, the next is not *)
  Definition killed (k : nat) : list fault := repeat NoFault k ++ [Crash].

  (* no kill that leaves a zero-length file (storage failures and plain kills allowed) *)
  Definition no_torn (phi : list fault) : Prop := Forall (fun f => f <> CrashEmpty) phi.

  Definition final {R} (p : prog R) (a : arch) (phi : list fault) : arch := snd (fst (run pre p a phi)).

  (* ---- histories ---- *)
  Inductive hop :=
  | HBackup (c : cfg) (src : list sitem)                       (* a backup run to its end *)
  | HBackupKilled (c : cfg) (src : list sitem) (k : nat)       (* a backup killed after k operations *)
  | HDelete (ids : list N) (dry brk : bool) (hint : list bytes). (* delete / gc (ids = []) *)

  Definition run_hop (a : arch) (o : hop) : arch :=
    match o with
    | HBackup c src => final (backup_prog pre c src) a []
    | HBackupKilled c src k => final (backup_prog pre c src) a (killed k)
    | HDelete ids dry brk hint => final (delete_prog ids dry brk hint) a []
    end.

  Definition run_history (a : arch) (l : list hop) : arch := fold_left run_hop l a.

  (* every state reached along the way, the start included *)
  Fixpoint history_states (a : arch) (l : list hop) : list arch :=
    match l with
    | [] => [a]
    | o :: l' => a :: history_states (run_hop a o) l'
    end.

  (* the side condition of one step taken in state [a]: a kill happens after the header of
     the new band was written (the new band has its BANDHEAD in the state the kill leaves) or
     before anything was created (the state is unchanged).  Nothing is required of the
     sources, the configurations, the band ids or the iteration-order hints. *)
  Definition hop_ok (a : arch) (o : hop) : Prop :=
    match o with
    | HBackupKilled c src k => get (run_hop a o) (PHead (new_band a)) <> None \/ run_hop a o = a
    | _ => True
    end.

  Fixpoint history_ok (a : arch) (l : list hop) : Prop :=
    match l with
    | [] => True
    | o :: l' => hop_ok a o /\ history_ok (run_hop a o) l'
    end.

  (* the archive a fault-free [init] creates in an empty place *)
  Definition init_state : arch := final init_prog arch0 [].

  (* ---- boolean checker of [HealthyUH] (sound: HealthyP.v) ---- *)
  Definition wfdirs0_b (a : arch) : bool :=
    nodup_dirs (dirs a)
    && has_dir a DRoot && has_dir a DBlocks
    && forallb (fun p => has_dir a (parent_f pre (fst p))) (files a)
    && forallb (fun d => match parent_d d with Some p => has_dir a p | None => true end) (dirs a).

  Definition band_clear_b (a : arch) (b : N) : bool :=
    forallb (fun p => match fst p with
                      | PHead n | PTail n | PHunk n _ => negb (N.eqb n b)
                      | _ => true
                      end) (files a).

  Definition headless_top_b (a : arch) (b : N) : bool :=
    band_clear_b a b
    && forallb (fun d => match d with DBand b' => b' <=? b | _ => true end) (dirs a).

  Definition healthy_uh_b (a : arch) : bool :=
    wfdirs0_b a && ainv_b a
    && match get a PHeader with Some (Good PlJson) => true | _ => false end
    && forallb (fun d => match d with
                         | DBand b => (has_dir a (DIndex b) && band_healthy_b a b) || headless_top_b a b
                         | _ => true
                         end) (dirs a).
End HealthyDefs.
