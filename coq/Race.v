(* Two actors on one archive, interleaved at storage-operation granularity.
   Model file: definitions only. *)
From CV Require Import Base.Str Apath Entry Store.
Local Open Scope N_scope.

Section Race.
  Variable pre : bytes -> N.

  Definition tag {A} (b : bool) (l : list A) : list (bool * A) := map (fun x => (b, x)) l.

  (* [sigma] names, step by step, the actor whose next operation runs (false = first actor,
     true = second); an actor that has returned is skipped; when [sigma] is exhausted the first
     actor runs to completion, then the second: every sigma is a total schedule.  No storage
     faults here: failures are the subject of other properties. *)
  Fixpoint run2 {R S} (p : prog R) (q : prog S) (a : arch) (sigma : list bool)
    : list (bool * (op * reply)) * arch * outcome R * outcome S :=
    match sigma with
    | [] =>
        let '(t1, a1, o1) := run pre p a [] in
        let '(t2, a2, o2) := run pre q a1 [] in
        (tag false t1 ++ tag true t2, a2, o1, o2)
    | false :: s' =>
        match p with
        | Do o k =>
            let (a', r) := exec pre a o NoFault in
            let '(t, af, o1, o2) := run2 (k r) q a' s' in
            ((false, (o, r)) :: t, af, o1, o2)
        | _ => run2 p q a s'
        end
    | true :: s' =>
        match q with
        | Do o k =>
            let (a', r) := exec pre a o NoFault in
            let '(t, af, o1, o2) := run2 p (k r) a' s' in
            ((true, (o, r)) :: t, af, o1, o2)
        | _ => run2 p q a s'
        end
    end.
End Race.
