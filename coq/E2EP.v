(* C01, the composition: "backup then restore reproduces the source tree exactly".
   Definitions: E2E.v.

   A. The fault-free weakest precondition [nf]: rules and soundness.
   B. A backup started in a [Startable] state, without faults, SUCCEEDS: every storage
      operation it issues is answered with success ([backup_succeeds]).
   C. The pure reading of a closed band all of whose hunks are good: the hunks 0..n-1 in
      order, no error ([stitch_pure_closed_band]).
   D. Two strictly sorted lists with the same paths (as multisets) are the same list.
   E. The end-to-end theorem [backup_then_restore_exact] and its corollaries.
   F. Examples and refutations by computation. *)
From Coq Require Import Lia Sorted Permutation.
From CV Require Import Base.Str Base.StrP Base.Order Apath ApathP Entry Stitch Tree Codec Store
  StitchProg Backup Ops Delete Read SafeP Inv RefIntP FrameP Valid ValidP Truth TruthP Conf ConfP E2E.
Local Open Scope N_scope.

(* ------------------------------------------------------------------------- *)
(** * A. The fault-free logic                                                  *)
(* ------------------------------------------------------------------------- *)
Section NFLogic.
  Variable pre : bytes -> N.
  Notation nf := (E2E.nf pre).

  Lemma nf_weaken {R} (Q Q' : R -> arch -> Prop) (p : prog R) :
    (forall r a, Q r a -> Q' r a) -> forall a, nf Q p a -> nf Q' p a.
  Proof. intros H. induction p as [r|o k IH|]; intros a; cbn [E2E.nf]; auto. Qed.

  Lemma nf_bind {A B} (Q : A -> arch -> Prop) (Q' : B -> arch -> Prop) (p : prog A) (g : A -> prog B) :
    (forall r a, Q r a -> nf Q' (g r) a) -> forall a, nf Q p a -> nf Q' (bind p g) a.
  Proof. intros Hg. induction p as [r|o k IH|]; intros a H; cbn [E2E.nf bind] in *; auto. Qed.

  (* soundness: the run without faults ends with a result satisfying the postcondition *)
  Lemma nf_sound {R} (Q : R -> arch -> Prop) (p : prog R) : forall a,
    nf Q p a -> exists tr a' r, run pre p a [] = (tr, a', Done r) /\ Q r a'.
  Proof.
    induction p as [r|o k IH|]; intros a H; cbn [E2E.nf] in H.
    - exists [], a, r. split; [reflexivity | exact H].
    - destruct (IH _ _ H) as (tr & a' & r & E & HQ).
      exists ((o, snd (exec_ok pre a o)) :: tr), a', r. split; [|exact HQ].
      rewrite run_Do. cbn [hdf tl exec]. rewrite E. reflexivity.
    - destruct H.
  Qed.

  (* a reading program that cannot panic: it ends, in the same state *)
  Lemma nf_reads {R} (Q : R -> arch -> Prop) (p : prog R) a :
    emits_only reads_only p -> Valid.no_panic p -> (forall r, Q r a) -> nf Q p a.
  Proof.
    intros He Hn HQ. induction Hn as [r|o k Hk IH]; cbn [E2E.nf]; [apply HQ|].
    pose proof (eo_inv _ _ He) as [Ho Hk']. rewrite (exec_ok_read_same pre a o Ho). apply IH. apply Hk'.
  Qed.

  (* ---- one operation ---- *)
  Lemma nf_read {R} (Q : R -> arch -> Prop) f (k : reply -> prog R) a :
    nf Q (k (rd a f)) a -> nf Q (Do (OpRead f) k) a.
  Proof. cbn [E2E.nf exec_ok]. unfold rd. destruct (get a f); auto. Qed.

  Lemma nf_meta {R} (Q : R -> arch -> Prop) f (k : reply -> prog R) a :
    nf Q (k (mt a f)) a -> nf Q (Do (OpMeta f) k) a.
  Proof. cbn [E2E.nf exec_ok]. unfold mt. destruct (get a f); auto. Qed.

  Lemma nf_list {R} (Q : R -> arch -> Prop) d (k : reply -> prog R) a :
    nf Q (k (ls pre a d)) a -> nf Q (Do (OpList d) k) a.
  Proof. cbn [E2E.nf exec_ok]. unfold ls. destruct (has_dir a d); auto. Qed.

  Lemma has_dir_snoc (a : arch) d x :
    has_dir {| dirs := dirs a ++ [d]; files := files a |} x = has_dir a x || dpath_eqb x d.
  Proof. unfold has_dir. cbn [dirs]. rewrite existsb_app. cbn [existsb]. rewrite orb_false_r. reflexivity. Qed.

  (* mkdir below an existing directory succeeds: same files, no directory lost, [d] there *)
  Lemma nf_mkdir {R} (Q : R -> arch -> Prop) d p (k : reply -> prog R) a :
    parent_d d = Some p -> has_dir a p = true ->
    (forall a', files a' = files a -> (forall x, has_dir a x = true -> has_dir a' x = true) ->
                has_dir a' d = true -> nf Q (k ROk) a') ->
    nf Q (Do (OpMkdir d) k) a.
  Proof.
    intros Hp Hd H. cbn [E2E.nf exec_ok]. destruct (has_dir a d) eqn:E; cbn [fst snd].
    - apply H; auto.
    - rewrite Hp, Hd. cbn [fst snd]. apply H; [reflexivity | |].
      + intros x Hx. rewrite has_dir_snoc, Hx. reflexivity.
      + rewrite has_dir_snoc. destruct (dpath_eqb_spec d d) as [_|N]; [apply orb_true_r | congruence].
  Qed.

  (* creating a file that is not there (or is a zero-length leftover) in an existing
     directory succeeds *)
  Lemma nf_write_new {R} (Q : R -> arch -> Prop) f p (k : reply -> prog R) a :
    has_dir a (parent_f pre f) = true -> (get a f = None \/ get a f = Some Empty) ->
    nf Q (k ROk) {| dirs := dirs a; files := set_file f (Good p) (files a) |} ->
    nf Q (Do (OpWrite f p CreateNew) k) a.
  Proof. intros Hd Hg H. cbn [E2E.nf exec_ok]. rewrite Hd. destruct Hg as [-> | ->]; exact H. Qed.
End NFLogic.

(* ------------------------------------------------------------------------- *)
(** * B. A fault-free backup succeeds                                          *)
(* ------------------------------------------------------------------------- *)

Lemma div_succ_same s : (s + 1) mod HUNKS_PER_SUBDIR <> 0 -> (s + 1) / HUNKS_PER_SUBDIR = s / HUNKS_PER_SUBDIR.
Proof.
  unfold HUNKS_PER_SUBDIR. intros H.
  assert (Hm : 10000 <> 0) by discriminate.
  pose proof (N.div_mod s 10000 Hm) as E. pose proof (N.mod_lt s 10000 Hm) as L.
  destruct (N.eq_dec (s mod 10000 + 1) 10000) as [Eq|Ne].
  - exfalso. apply H. symmetry. apply (N.mod_unique (s + 1) 10000 (s / 10000 + 1) 0); lia.
  - symmetry. apply (N.div_unique (s + 1) 10000 (s / 10000) (s mod 10000 + 1)); lia.
Qed.

Lemma WI_ext a w w' :
  w_band w' = w_band w -> w_seq w' = w_seq w -> w_exists w' = w_exists w -> w_errors w' = w_errors w ->
  WI a w -> WI a w'.
Proof. unfold WI. intros -> -> -> ->. auto. Qed.

(* more directories, the same files *)
Lemma WI_dirs a a' w :
  files a' = files a -> (forall x, has_dir a x = true -> has_dir a' x = true) -> WI a w -> WI a' w.
Proof.
  intros Hf Hm (H1 & H2 & H3 & H4 & H5 & H6 & H7 & H8 & H9 & H10).
  assert (G : forall f, get a' f = get a f) by (intros f; unfold get; rewrite Hf; reflexivity).
  unfold WI. rewrite !G. repeat split; auto.
  - intros h Hh. rewrite G. auto.
  - intros c x. rewrite G. apply H7.
Qed.

Lemma mem_bytes_cons' c d l : mem_bytes c (d :: l) = str_eqb c d || mem_bytes c l.
Proof. reflexivity. Qed.

Lemma WI_block_written a w c wr :
  WI a w ->
  WI {| dirs := dirs a; files := set_file (PBlock c) (Good (PlBlock c)) (files a) |}
     (upd_blocks w (c :: w_exists w) wr).
Proof.
  intros (H1 & H2 & H3 & H4 & H5 & H6 & H7 & H8 & H9 & H10). unfold WI. cbn [w_band w_seq w_exists w_errors upd_blocks].
  repeat split; auto.
  - intros h Hh. rewrite get_set_other by discriminate. auto.
  - rewrite get_set_other by discriminate. exact H6.
  - intros c' x G Hx. rewrite mem_bytes_cons'. rewrite get_set_file in G.
    destruct (fpath_eqb_spec (PBlock c') (PBlock c)) as [E|N].
    + inversion E; subst. rewrite str_eqb_refl. reflexivity.
    + rewrite (H7 c' x G Hx). apply orb_true_r.
  - rewrite get_set_other by discriminate. exact H9.
  - rewrite get_set_other by discriminate. exact H10.
Qed.

Lemma WI_hunk_written a w es :
  WI a w -> has_dir a (DHunkSub (w_band w) (w_seq w / HUNKS_PER_SUBDIR)) = true ->
  WI {| dirs := dirs a; files := set_file (PHunk (w_band w) (w_seq w)) (Good (PlHunk es)) (files a) |}
     (upd_index w [] (w_seq w + 1) (w_hunks w + 1)).
Proof.
  intros (H1 & H2 & H3 & H4 & H5 & H6 & H7 & H8 & H9 & H10) Hd. unfold WI. cbn [w_band w_seq w_exists w_errors upd_index].
  repeat split; auto.
  - intros Hm. rewrite (div_succ_same _ Hm). exact Hd.
  - intros h Hh. rewrite get_set_other by (intros E; inversion E; lia). apply H5. lia.
  - rewrite get_set_other by discriminate. exact H6.
  - intros c x G Hx. rewrite get_set_other in G by discriminate. eauto.
  - rewrite get_set_other by discriminate. exact H9.
  - rewrite get_set_other by discriminate. exact H10.
Qed.

Section Succeeds.
  Variable pre : bytes -> N.
  Notation nf := (E2E.nf pre).

  (* the sub-programs of the writer: success, the invariant, the same band *)
  Definition OKQ {A} (w : wst) (rw : A * wst) (a' : arch) : Prop :=
    WI a' (snd rw) /\ w_band (snd rw) = w_band w.
  Definition OKB (w : wst) (rw : bool * wst) (a' : arch) : Prop := fst rw = true /\ OKQ w rw a'.

  Lemma store_block_nf w c a : WI a w -> nf (OKB w) (store_block pre w c) a.
  Proof.
    intros HW. unfold store_block. destruct (mem_bytes c (w_exists w)) eqn:Em.
    - cbn [E2E.nf]. split; [reflexivity|]. split; [exact HW | reflexivity].
    - pose proof HW as (H1 & _ & _ & _ & _ & _ & H7 & _ & _ & _).
      apply (nf_mkdir pre _ _ DBlocks); [reflexivity | exact H1|].
      intros a1 Hf Hm Hd. cbn [is_ok].
      pose proof (WI_dirs a a1 w Hf Hm HW) as HW1.
      apply nf_write_new; [exact Hd | |].
      + pose proof HW1 as (_ & _ & _ & _ & _ & _ & H7' & _ & _ & _).
        destruct (get a1 (PBlock c)) as [x|] eqn:G; [|left; reflexivity].
        destruct x as [p| |]; [|right; reflexivity|];
          (rewrite (H7' c _ G eq_refl) in Em; discriminate).
      + cbn [is_ok E2E.nf]. split; [reflexivity|]. split; [|reflexivity]. cbn [snd].
        apply WI_block_written. exact HW1.
  Qed.

  Lemma comb_flush_nf w a : WI a w -> nf (OKB w) (comb_flush pre w) a.
  Proof.
    intros HW. unfold comb_flush. destruct (w_queue w) as [|q0 q] eqn:Eq.
    - cbn [E2E.nf]. split; [reflexivity|]. split; [exact HW | reflexivity].
    - eapply nf_bind; [|apply store_block_nf; eapply WI_ext; [| | | |exact HW]; reflexivity].
      intros [ok w'] a' (Hok & HW' & Hb). cbn [fst snd] in *. subst ok. cbn [E2E.nf].
      split; [reflexivity|]. split; cbn [snd]; [|exact Hb].
      eapply WI_ext; [| | | |exact HW']; reflexivity.
  Qed.

  Lemma comb_push_nf c w e data a : WI a w -> nf (OKB w) (comb_push pre c w e data) a.
  Proof.
    intros HW. unfold comb_push. destruct data as [|x data].
    - cbn [E2E.nf]. split; [reflexivity|]. split; cbn [snd]; [|reflexivity].
      eapply WI_ext; [| | | |exact HW]; reflexivity.
    - match goal with |- E2E.nf _ _ (if ?x then _ else _) _ => destruct x end.
      + eapply nf_weaken; [|apply comb_flush_nf; eapply WI_ext; [| | | |exact HW]; reflexivity].
        intros rw a' H. exact H.
      + cbn [E2E.nf]. split; [reflexivity|]. split; cbn [snd]; [|reflexivity].
        eapply WI_ext; [| | | |exact HW]; reflexivity.
  Qed.

  Lemma finish_hunk_nf w a : WI a w -> nf (OKB w) (finish_hunk w) a.
  Proof.
    intros HW. unfold finish_hunk. destruct (w_entries w) as [|e0 es0] eqn:Ee.
    - cbn [E2E.nf]. split; [reflexivity|]. split; [exact HW | reflexivity].
    - pose proof HW as (H1 & H2 & H3 & H4 & H5 & H6 & H7 & H8 & H9 & H10).
      assert (Hwrite : forall a1, files a1 = files a -> (forall x, has_dir a x = true -> has_dir a1 x = true) ->
                has_dir a1 (DHunkSub (w_band w) (w_seq w / HUNKS_PER_SUBDIR)) = true ->
                nf (OKB w)
                  (Do (OpWrite (PHunk (w_band w) (w_seq w)) (PlHunk (sort_entries (e0 :: es0))) CreateNew)
                      (fun r => if is_ok r then Ret (true, upd_index w [] (w_seq w + 1) (w_hunks w + 1))
                                else Ret (false, w))) a1).
      { intros a1 Hf Hm Hd. pose proof (WI_dirs a a1 w Hf Hm HW) as HW1.
        apply nf_write_new; [exact Hd | |].
        - left. destruct HW1 as (_ & _ & _ & _ & H5' & _). apply H5'. lia.
        - cbn [is_ok E2E.nf]. split; [reflexivity|]. split; [|reflexivity]. cbn [snd].
          apply WI_hunk_written; assumption. }
      destruct (N.eqb (w_seq w mod HUNKS_PER_SUBDIR) 0) eqn:Em.
      + apply (nf_mkdir pre _ _ (DIndex (w_band w))); [reflexivity | exact H3|].
        intros a1 Hf Hm Hd. cbn [is_ok]. apply Hwrite; assumption.
      + apply Hwrite; auto. apply H4. apply N.eqb_neq. exact Em.
  Qed.

  Lemma flush_group_nf w a : WI a w -> nf (OKB w) (flush_group pre w) a.
  Proof.
    intros HW. unfold flush_group.
    eapply nf_bind; [|apply comb_flush_nf; exact HW].
    intros [ok w1] a1 (Hok & HW1 & Hb). cbn [fst snd] in *. subst ok.
    eapply nf_weaken; [|apply finish_hunk_nf; eapply WI_ext; [| | | |exact HW1]; reflexivity].
    intros [ok2 w2] a2 (Hok2 & HW2 & Hb2). cbn [fst snd] in *. split; [exact Hok2|]. split; [exact HW2|].
    cbn [snd]. rewrite Hb2. cbn [w_band upd_comb upd_index]. exact Hb.
  Qed.

  Lemma store_chunks_nf cs : forall w acc a,
    WI a w ->
    nf (fun rw a' => (exists addrs, fst rw = Some addrs) /\ OKQ w rw a') (store_chunks pre w cs acc) a.
  Proof.
    induction cs as [|c cs IH]; intros w acc a HW; cbn [store_chunks].
    - cbn [E2E.nf]. split; [eexists; reflexivity|]. split; [exact HW | reflexivity].
    - eapply nf_bind; [|apply store_block_nf; exact HW].
      intros [ok w1] a1 (Hok & HW1 & Hb). cbn [fst snd] in *. subst ok.
      eapply nf_weaken; [|apply IH; exact HW1].
      intros rw a2 (Ha & HW2 & Hb2). split; [exact Ha|]. split; [exact HW2 | congruence].
  Qed.

  Lemma copy_entry_nf c w basis it a : WI a w -> nf (OKB w) (copy_entry pre c w basis it) a.
  Proof.
    intros HW. unfold copy_entry.
    assert (Hpush : forall e, nf (OKB w) (Ret (true, push_entry w e)) a).
    { intros e. cbn [E2E.nf]. split; [reflexivity|]. split; cbn [snd]; [|reflexivity].
      eapply WI_ext; [| | | |exact HW]; reflexivity. }
    destruct (s_kind (si_e it)); try apply Hpush.
    - match goal with |- E2E.nf _ _ (match ?x with _ => _ end) _ => destruct x as [addrs|] end; [apply Hpush|].
      destruct (N.eqb (s_size (si_e it)) 0); [apply Hpush|].
      destruct (s_size (si_e it) <=? c_sfc c); [apply comb_push_nf; exact HW|].
      eapply nf_bind; [|apply store_chunks_nf; exact HW].
      intros [o w1] a1 ([addrs Ha] & HW1 & Hb). cbn [fst snd] in *. subst o. cbn [E2E.nf].
      split; [reflexivity|]. split; cbn [snd]; [|exact Hb].
      eapply WI_ext; [| | | |exact HW1]; reflexivity.
    - cbn [E2E.nf]. split; [reflexivity|]. split; [exact HW | reflexivity].
  Qed.

  Lemma snext_nf keep skip st last merr a (Q : sres -> arch -> Prop) :
    (forall r, Q r a) -> nf Q (snext keep skip st last merr) a.
  Proof.
    intros HQ. apply nf_reads; [|apply ValidP.snext_np | exact HQ].
    apply snext_eo. intros o Ho. exact Ho.
  Qed.

  Definition SUCC (b : N) (r : bres) (a' : arch) : Prop :=
    b_ok r = true /\ b_errors r = 0 /\ b_band r = Some b
    /\ get a' (PHead b) = Some (Good (PlHead HvOk)) /\ has_dir a' (DIndex b) = true
    /\ get a' PLock = None.

  Lemma merge_loop_nf c src : forall peek st last w a,
    WI a w -> nf (SUCC (w_band w)) (merge_loop pre c src peek st last w) a.
  Proof.
    induction src as [|it src IH]; intros peek st last w a HW; cbn [merge_loop].
    - apply (nf_bind pre (fun _ a' => a' = a)); [|apply snext_nf; intros r; reflexivity].
      intros [[[[skipped na] st'] last'] merr] a' ->.
      eapply nf_bind; [|apply flush_group_nf; eapply WI_ext; [| | | |exact HW]; reflexivity].
      intros [ok w2] a2 (Hok & HW2 & Hb). cbn [fst snd] in *. subst ok.
      pose proof HW2 as (_ & H2 & H3 & _ & _ & H6 & _ & H8 & H9 & H10).
      apply nf_write_new; [exact H2 | left; exact H6 |].
      cbn [is_ok E2E.nf]. unfold SUCC. cbn [b_ok b_errors b_band].
      split; [reflexivity|]. split; [exact H8|]. rewrite Hb in *. split; [reflexivity|].
      split; [rewrite get_set_other by discriminate; exact H9|].
      split; [exact H3 | rewrite get_set_other by discriminate; exact H10].
    - (* the continuation after the basis has been advanced *)
      assert (Hk : forall (skipped : list entry) na st' last' merr,
        nf (SUCC (w_band w))
          (let w0 := upd_counts w (w_errors w) merr (w_deleted w + N.of_nat (length skipped)) in
           let '(basis, na') :=
             match na with
             | Some e => match apath_cmp (e_apath e) (s_apath (si_e it)) with
                         | Eq => (Some e, None) | _ => (None, na) end
             | None => (None, None)
             end in
           bind (copy_entry pre c w0 basis it) (fun rw =>
             let '(ok, w1) := rw in
             let w2 := if ok then w1 else upd_counts w1 (w_errors w1 + 1) (w_merr w1 + 1) (w_deleted w1) in
             if ok && (c_meph c <=? N.of_nat (length (w_entries w2)) + N.of_nat (length (w_queue w2))) then
               bind (flush_group pre w2) (fun rw2 =>
                 let '(ok2, w3) := rw2 in
                 if ok2 then merge_loop pre c src na' st' last' w3 else Ret (fail w3))
             else merge_loop pre c src na' st' last' w2)) a).
      { intros skipped na st' last' merr. cbv zeta.
        match goal with |- E2E.nf _ _ (let '(_, _) := ?x in _) _ => destruct x as [basis na'] end.
        eapply nf_bind; [|apply copy_entry_nf; eapply WI_ext; [| | | |exact HW]; reflexivity].
        intros [ok w1] a1 (Hok & HW1 & Hb1). cbn [fst snd w_band upd_counts] in *. subst ok. cbn [andb].
        match goal with |- E2E.nf _ _ (if ?x then _ else _) _ => destruct x end.
        - eapply nf_bind; [|apply flush_group_nf; exact HW1].
          intros [ok2 w3] a2 (Hok2 & HW3 & Hb3). cbn [fst snd] in *. subst ok2.
          eapply nf_weaken; [|apply IH; exact HW3]. intros r a3 H. rewrite Hb3, Hb1 in H. exact H.
        - eapply nf_weaken; [|apply IH; exact HW1]. intros r a3 H. rewrite Hb1 in H. exact H. }
      destruct peek as [e|].
      + match goal with |- E2E.nf _ _ (if ?x then _ else _) _ => destruct x end.
        * apply (nf_bind pre (fun _ a' => a' = a)); [|apply snext_nf; intros r; reflexivity].
          intros [[[[skipped na] st'] last'] merr] a' ->. apply Hk.
        * exact (Hk [] (Some e) st last (w_merr w)).
      + apply (nf_bind pre (fun _ a' => a' = a)); [|apply snext_nf; intros r; reflexivity].
        intros [[[[skipped na] st'] last'] merr] a' ->. apply Hk.
  Qed.

  (* listing the block directory: every sub-directory listed exists *)
  Lemma list_blocks_nf (Q : bres -> arch -> Prop) subs : forall acc k a,
    (forall s, In s subs -> has_dir a (DBlockSub s) = true) ->
    nf Q (k (Some (acc ++ flat_map (fun s => Valid.listed_blocks (children_files pre a (DBlockSub s))) subs))) a ->
    nf Q (list_blocks subs acc false k) a.
  Proof.
    induction subs as [|s subs IH]; intros acc k a Hs H; cbn [list_blocks flat_map] in *.
    - rewrite app_nil_r in H. exact H.
    - apply nf_list. unfold ls. rewrite (Hs s (or_introl eq_refl)).
      apply IH; [intros s' Hs'; apply Hs; right; exact Hs'|].
      rewrite <- app_assoc. exact H.
  Qed.

  (* a non-empty block file in an existing sub-directory of d/ is listed *)
  Lemma block_listed (a : arch) c x :
    get a (PBlock c) = Some x -> nonempty x = true -> has_dir a (DBlockSub (pre c)) = true ->
    In c (present0 pre a).
  Proof.
    intros G Hx Hd. unfold present0. apply in_flat_map. exists (pre c). split.
    - unfold block_subdirs. apply in_isort_Nv. apply in_flat_map. exists (DBlockSub (pre c)).
      split; [|left; reflexivity]. unfold children_dirs. apply filter_In.
      split; [apply has_dir_In; exact Hd | reflexivity].
    - unfold Valid.listed_blocks. apply in_flat_map. exists (PBlock c, true). split; [|left; reflexivity].
      unfold children_files. apply in_map_iff. exists (PBlock c, x). cbn [fst snd]. rewrite Hx.
      split; [reflexivity|]. apply filter_In. split; [apply get_In_files; exact G|].
      cbn [fst parent_f]. destruct (dpath_eqb_spec (DBlockSub (pre c)) (DBlockSub (pre c))); congruence.
  Qed.

  (* no GC_LOCK file: the listing of the archive directory shows none *)
  Lemma no_lock_listed (a : arch) :
    get a PLock = None -> existsb (fun p => fpath_eqb (fst p) PLock) (children_files pre a DRoot) = false.
  Proof.
    intros G. destruct (existsb _ _) eqn:E; [|reflexivity]. exfalso.
    apply existsb_exists in E. destruct E as [[f ne] [Hin Hf]]. cbn [fst] in Hf.
    destruct (fpath_eqb_spec f PLock) as [->|]; [|discriminate].
    unfold children_files in Hin. apply in_map_iff in Hin. destruct Hin as [[g x] [E Hg]].
    cbn [fst snd] in E. inversion E; subst g. apply filter_In in Hg. destruct Hg as [Hg _].
    apply (keys_get_v a PLock); [|exact G]. apply in_map_iff. exists (PLock, x). auto.
  Qed.

  (* in a state whose files lie in existing directories the band about to be created has
     no file at all *)
  Lemma new_band_fresh a0 :
    WFparents pre a0 ->
    has_dir a0 (DBand (new_band a0)) = false
    /\ get a0 (PHead (new_band a0)) = None
    /\ get a0 (PTail (new_band a0)) = None
    /\ forall h, get a0 (PHunk (new_band a0) h) = None.
  Proof.
    intros [HF HD].
    assert (Hfresh : has_dir a0 (DBand (new_band a0)) = false).
    { destruct (has_dir a0 (DBand (new_band a0))) eqn:Hd; [|reflexivity]. exfalso.
      assert (Hin : In (DBand (new_band a0)) (children_dirs a0 DRoot)).
      { unfold children_dirs. apply filter_In. split; [apply has_dir_In; exact Hd | reflexivity]. }
      pose proof (next_id_fresh _ _ Hin) as Hlt. fold (new_band a0) in Hlt. lia. }
    split; [exact Hfresh|].
    split; [|split; [|intros h]].
    - destruct (get a0 (PHead (new_band a0))) as [x|] eqn:G; [|reflexivity].
      pose proof (HF _ _ G) as H1. cbn [parent_f] in H1. congruence.
    - destruct (get a0 (PTail (new_band a0))) as [x|] eqn:G; [|reflexivity].
      pose proof (HF _ _ G) as H1. cbn [parent_f] in H1. congruence.
    - destruct (get a0 (PHunk (new_band a0) h)) as [x|] eqn:G; [|reflexivity].
      pose proof (HF _ _ G) as H1. cbn [parent_f] in H1.
      pose proof (HD _ _ (proj1 (has_dir_In _ _) H1) eq_refl) as H2.
      pose proof (HD _ _ (proj1 (has_dir_In _ _) H2) eq_refl) as H3. congruence.
  Qed.

  Lemma backup_nf c src a0 :
    Startable pre a0 -> nf (SUCC (new_band a0)) (backup_prog pre c src) a0.
  Proof.
    intros (Hh & Hl & Hb & HW). pose proof HW as [HF HD].
    assert (Hroot : has_dir a0 DRoot = true) by (apply (HF PHeader _ Hh)).
    destruct (new_band_fresh a0 HW) as (Hfresh & Hhead & Htail & Hhunks).
    unfold backup_prog, open_archive.
    apply nf_read. unfold rd. rewrite Hh.
    apply nf_meta. unfold mt. rewrite Hl.
    apply nf_list. unfold ls at 1. rewrite Hroot.
    apply nf_list. unfold ls at 1. rewrite Hroot. cbv zeta. fold (new_band a0).
    set (id := new_band a0) in *.
    apply (nf_mkdir pre _ _ DRoot); [reflexivity | exact Hroot|].
    intros a3 Hf3 Hm3 Hd3. cbn [is_ok].
    apply (nf_mkdir pre _ _ (DBand id)); [reflexivity | exact Hd3|].
    intros a4 Hf4 Hm4 Hd4. cbn [is_ok].
    assert (G4 : forall f, get a4 f = get a0 f) by (intros f; unfold get; rewrite Hf4, Hf3; reflexivity).
    apply nf_write_new; [cbn [parent_f]; apply Hm4; exact Hd3 | left; rewrite G4; exact Hhead |].
    cbn [is_ok].
    set (a5 := {| dirs := dirs a4; files := set_file (PHead id) (Good (PlHead HvOk)) (files a4) |}).
    assert (G5 : forall f, f <> PHead id -> get a5 f = get a0 f).
    { intros f Hf. unfold a5. rewrite get_set_other by exact Hf. apply G4. }
    assert (D5 : forall x, has_dir a0 x = true -> has_dir a5 x = true).
    { intros x Hx. change (has_dir a4 x = true). auto. }
    apply nf_list. unfold ls at 1. rewrite (D5 _ Hroot).
    rewrite no_lock_listed by (rewrite G5 by discriminate; exact Hl).
    apply nf_list. unfold ls at 1. rewrite (D5 _ Hb).
    apply list_blocks_nf; [intros s Hs; apply (ValidP.block_subdir_listed a5 s Hs)|]. cbn [app].
    eapply nf_weaken; [|apply merge_loop_nf].
    - intros r a H. exact H.
    - unfold WI. cbn [w_band w_seq w_exists w_errors].
      split; [apply D5; exact Hb|]. split; [change (has_dir a4 (DBand id) = true); auto|].
      split; [exact Hd4|]. split; [intros H; exfalso; apply H; reflexivity|].
      split; [intros h _; rewrite G5 by discriminate; apply Hhunks|].
      split; [rewrite G5 by discriminate; exact Htail|].
      split; [|split; [reflexivity | split; [unfold a5; apply get_set_same | rewrite G5 by discriminate; exact Hl]]].
      intros c0 x G Hx. apply In_mem_bytes.
      apply (block_listed a5 c0 x G Hx). apply D5. rewrite G5 in G by discriminate.
      exact (HF _ _ G).
  Qed.

  (** FAULT-FREE SUCCESS.  From a state with the archive header, no GC_LOCK file, the block
      directory, and every file and directory inside an existing directory, a backup of ANY
      source under ANY configuration, when no storage operation fails, runs to the end and
      reports success: no error, the new band. *)
  Theorem backup_succeeds c src a0 :
    Startable pre a0 ->
    exists tr a1 r,
      run pre (backup_prog pre c src) a0 [] = (tr, a1, Done r)
      /\ b_ok r = true /\ b_errors r = 0 /\ b_band r = Some (new_band a0)
      /\ get a1 (PHead (new_band a0)) = Some (Good (PlHead HvOk))
      /\ has_dir a1 (DIndex (new_band a0)) = true
      /\ get a1 PLock = None.
  Proof. intros H. exact (nf_sound pre _ _ a0 (backup_nf c src a0 H)). Qed.
End Succeeds.

(* ------------------------------------------------------------------------- *)
(** * C. Reading a closed band all of whose hunks are good                     *)
(* ------------------------------------------------------------------------- *)

Lemma flat_map_map' {A B C} (f : B -> list C) (g : A -> B) l :
  flat_map f (map g l) = flat_map (fun x => f (g x)) l.
Proof. induction l as [|x l IH]; cbn [map flat_map]; [reflexivity | rewrite IH; reflexivity]. Qed.

Lemma consecutive_seq hs : forall i,
  consecutive hs i = true -> hs = map N.of_nat (seq (N.to_nat i) (length hs)).
Proof.
  induction hs as [|h hs IH]; intros i C; cbn [consecutive length seq map] in *; [reflexivity|].
  apply andb_true_iff in C. destruct C as [E C]. apply N.eqb_eq in E. subst h.
  rewrite N2Nat.id. f_equal. rewrite (IH _ C) at 1. rewrite N.add_1_r, N2Nat.inj_succ. reflexivity.
Qed.

Section ClosedBand.
  Variable pre : bytes -> N.
  Variable a : arch.
  Variable keep : entry -> bool.

  (* with no [after] position, every good hunk is taken whole *)
  Lemma hl_pure_all nb hs : forall last acc merr,
    (forall h, In h hs -> exists es, get a (PHunk (N.of_nat nb) h) = Some (Good (PlHunk es))) ->
    exists last',
      hl_pure keep a nb hs None last acc merr
      = (last', acc ++ filter keep (flat_map (hunk_es a (N.of_nat nb)) hs), merr).
  Proof.
    induction hs as [|h hs IH]; intros last acc merr Hg; cbn [hl_pure flat_map].
    - exists last. cbn [filter]. rewrite app_nil_r. reflexivity.
    - destruct (Hg h (or_introl eq_refl)) as [es G]. unfold rd. rewrite G.
      assert (Hg' : forall h', In h' hs -> exists es, get a (PHunk (N.of_nat nb) h') = Some (Good (PlHunk es)))
        by (intros h' Hh'; apply Hg; right; exact Hh').
      unfold hunk_es at 1. rewrite G. cbn [hunk_step].
      destruct es as [|e es].
      + cbn [app]. apply IH. exact Hg'.
      + destruct (IH (pnlast (e :: es) last) (acc ++ filter keep (e :: es)) merr Hg') as [l' E].
        exists l'. rewrite E, filter_app, app_assoc. reflexivity.
  Qed.

  Hypothesis NDd : NoDup (dirs a).
  Hypothesis NDf : FilesND a.
  Hypothesis HF : forall f x, get a f = Some x -> has_dir a (parent_f pre f) = true.
  Variables (b n : N).
  Hypothesis Hopen : opens_b a b = true.
  Hypothesis Hidx : has_dir a (DIndex b) = true.
  Hypothesis Htail : get a (PTail b) = Some (Good (PlTail (Some n))).
  Hypothesis Hlt : forall h, get a (PHunk b h) <> None -> h < n.
  Hypothesis Hgood : forall h, h < n -> exists es, get a (PHunk b h) = Some (Good (PlHunk es)).

  Lemma closed_band_listed :
    consecutive (hunks_listed pre a b) 0 = true /\ N.of_nat (length (hunks_listed pre a b)) = n.
  Proof.
    assert (Hin : forall h, In h (hunks_listed pre a b) <-> 0 <= h < n).
    { intros h. split.
      - intros Hh. apply hunks_listed_exist in Hh. apply Hlt in Hh. lia.
      - intros [_ Hh]. destruct (Hgood h Hh) as [es G].
        apply hunk_file_listed; [congruence|].
        apply has_dir_In. apply (HF (PHunk b h) _ G). }
    destruct (sorted_range _ 0 n (hunks_listed_sorted pre a NDd NDf b) Hin) as [C L].
    split; [exact C | lia].
  Qed.

  (** the stitched reading of the band: its hunks 0..n-1 in order, no error *)
  Theorem stitch_pure_closed_band :
    exists last,
      stitch_pure pre keep a (N.to_nat b) = (last, filter keep (rec_upto a b (N.to_nat n)), 0).
  Proof.
    destruct closed_band_listed as [C L].
    unfold stitch_pure, ob_pure. rewrite N2Nat.id.
    apply opens_b_status in Hopen. rewrite Hopen.
    unfold ls. rewrite Hidx.
    assert (Hbad : numbers_bad (hunks_listed pre a b) (tail_count a b) = false).
    { unfold numbers_bad, tail_count, rd. rewrite Htail, C, L, N.eqb_refl. reflexivity. }
    rewrite Hbad.
    destruct (hl_pure_all (N.to_nat b) (hunks_listed pre a b) None [] 0) as [l' E].
    { intros h Hh. rewrite N2Nat.id. apply Hgood. apply Hlt. apply (hunks_listed_exist pre a b h Hh). }
    rewrite E. rewrite N2Nat.id in *.
    assert (Hc : closed a b = true) by (unfold closed, mt; rewrite Htail; reflexivity).
    rewrite Hc. exists l'. cbn [app]. f_equal. f_equal.
    rewrite (consecutive_seq _ _ C) at 1. rewrite flat_map_map'.
    unfold rec_upto. rewrite <- L, Nat2N.id. reflexivity.
  Qed.
End ClosedBand.

(* ------------------------------------------------------------------------- *)
(** * D. Sorted lists                                                          *)
(* ------------------------------------------------------------------------- *)

Lemma plt_irrefl x : ~ plt x x.
Proof. exact (co_lt_irrefl apath_cmp apath_order x). Qed.
Lemma plt_trans x y z : plt x y -> plt y z -> plt x z.
Proof. exact (co_trans apath_cmp apath_order x y z). Qed.

(* two strictly sorted lists with the same elements are the same list *)
Lemma sorted_perm_eq (l : list str) : forall m,
  StronglySorted plt l -> StronglySorted plt m -> Permutation l m -> l = m.
Proof.
  induction l as [|x l IH]; intros m Sl Sm P.
  - apply Permutation_nil in P. subst. reflexivity.
  - destruct m as [|y m]; [apply Permutation_sym, Permutation_nil in P; discriminate|].
    inversion Sl as [|? ? Sl' Fl]; subst. inversion Sm as [|? ? Sm' Fm]; subst.
    rewrite Forall_forall in Fl, Fm.
    assert (E : x = y).
    { assert (Hx : In x (y :: m)) by (eapply Permutation_in; [exact P | left; reflexivity]).
      assert (Hy : In y (x :: l)) by (eapply Permutation_in; [apply Permutation_sym; exact P | left; reflexivity]).
      destruct Hx as [->|Hx]; [reflexivity|]. destruct Hy as [->|Hy]; [reflexivity|].
      exfalso. apply (plt_irrefl x). eapply plt_trans; [apply Fl; exact Hy | apply Fm; exact Hx]. }
    subst y. f_equal. apply IH; auto. eapply Permutation_cons_inv; exact P.
Qed.

Lemma SS_app {A} (R : A -> A -> Prop) l m :
  StronglySorted R l -> StronglySorted R m -> (forall x y, In x l -> In y m -> R x y) ->
  StronglySorted R (l ++ m).
Proof.
  induction l as [|x l IH]; intros Sl Sm H; cbn [app]; [exact Sm|].
  inversion Sl as [|? ? Sl' Fl]; subst. constructor.
  - apply IH; auto. intros u v Hu Hv. apply H; [right; exact Hu | exact Hv].
  - apply Forall_app. split; [exact Fl|]. apply Forall_forall. intros v Hv. apply H; [left; reflexivity | exact Hv].
Qed.

Lemma SS_map {A B} (R : B -> B -> Prop) (f : A -> B) l :
  StronglySorted (fun x y => R (f x) (f y)) l -> StronglySorted R (map f l).
Proof.
  induction 1 as [|x l _ IH F]; cbn [map]; constructor; [exact IH|].
  rewrite Forall_forall in *. intros y Hy. apply in_map_iff in Hy. destruct Hy as [z [<- Hz]]. auto.
Qed.

Lemma SS_map_filter {A B} (R : B -> B -> Prop) (f : A -> B) (p : A -> bool) l :
  StronglySorted R (map f l) -> StronglySorted R (map f (filter p l)).
Proof.
  induction l as [|x l IH]; cbn [map filter]; intros S; [constructor|].
  inversion S as [|? ? S' F]; subst. destruct (p x); [|auto]. cbn [map]. constructor; [auto|].
  rewrite Forall_forall in *. intros y Hy. apply F. apply in_map_iff in Hy. destruct Hy as [z [<- Hz]].
  apply filter_In in Hz. apply in_map. tauto.
Qed.

Lemma sorted_paths_NoDup (l : list str) : StronglySorted plt l -> NoDup l.
Proof.
  induction 1 as [|x l _ IH F]; constructor; [|exact IH].
  intros Hin. rewrite Forall_forall in F. exact (plt_irrefl x (F x Hin)).
Qed.

(* the entries of hunks 0..k-1 of a band with sorted hunks are strictly sorted *)
Lemma rec_upto_sorted a b : HunksSorted a b -> forall k, StronglySorted elt (rec_upto a b k).
Proof.
  intros [S1 S2] k. induction k as [|k IH]; [constructor|].
  rewrite rec_upto_S. apply SS_app; [exact IH | |].
  - unfold hunk_es. destruct (get a (PHunk b (N.of_nat k))) as [[[| | |es|]| |]|] eqn:G; try constructor.
    eapply S1; eauto.
  - intros x y Hx Hy. apply rec_upto_In in Hx. destruct Hx as (i & es & Hi & G & Hin).
    unfold hunk_es in Hy. destruct (get a (PHunk b (N.of_nat k))) as [[[| | |es'|]| |]|] eqn:G'; try destruct Hy.
    apply (S2 (N.of_nat i) (N.of_nat k) es es' x y); auto. lia.
Qed.

Lemma filter_all {A} (l : list A) : filter (fun _ => true) l = l.
Proof. induction l as [|x l IH]; cbn [filter]; [reflexivity | rewrite IH; reflexivity]. Qed.

(* two lists with the same keys, position by position *)
Lemma Forall2_same_keys {A B C D} (f : A -> C) (g : B -> C) (h : A -> D) (P : B -> D -> Prop) :
  forall K L, map g K = map f L ->
  (forall it e, In it K -> In e L -> g it = f e -> P it (h e)) ->
  Forall2 P K (map h L).
Proof.
  induction K as [|it K IH]; intros [|e L] E H; cbn [map] in *; try discriminate; constructor.
  - inversion E. apply H; [left; reflexivity | left; reflexivity | assumption].
  - inversion E. apply IH; [assumption|]. intros it' e' Hi He. apply H; right; assumption.
Qed.

(* ------------------------------------------------------------------------- *)
(** * E. Backup then restore                                                   *)
(* ------------------------------------------------------------------------- *)

(* a strictly sorted, well-formed source is what TruthP calls [SrcOK] *)
Lemma SrcSorted_SrcOK src : SrcSorted src -> SrcWF src -> SrcOK src.
Proof.
  intros Hs Hw. split.
  - intros it Hin Hk. unfold SrcWF in Hw. rewrite Forall_forall in Hw. apply (proj2 (Hw it Hin) Hk).
  - apply sorted_paths_NoDup. exact Hs.
Qed.

Lemma WFparents_DirsWF pre a : WFparents pre a -> DirsWF pre a.
Proof.
  intros [HF HD]. split; [exact HF|]. intros d p Hd Hp. apply (HD d p); [apply has_dir_In; exact Hd | exact Hp].
Qed.

(* with every block where its address says, reading through the block directory gives what
   [content_of] says *)
Lemma entry_ok_read_content a e :
  entry_ok a e -> read_addrs (fun h => Some h) (e_addrs e) = content_of a e.
Proof.
  unfold entry_ok, content_of. induction (e_addrs e) as [|ad l IH]; intros H; cbn [read_addrs]; [reflexivity|].
  inversion H as [|? ? [Hb _] H']; subst. rewrite (IH H'). unfold read_address.
  rewrite (block_ok_blk _ _ Hb). reflexivity.
Qed.

(* no directory is listed twice: kept by every operation *)
Section NoDupDirs.
  Variable pre : bytes -> N.

  Lemma exec_ok_NoDup_dirs (a : arch) o : NoDup (dirs a) -> NoDup (dirs (fst (exec_ok pre a o))).
  Proof.
    intros ND. destruct o as [f|f p m|d|d|f|f|d]; cbn [exec_ok].
    - destruct (get a f); exact ND.
    - destruct (has_dir a (parent_f pre f)); [|exact ND].
      destruct (get a f) as [[q| |]|]; destruct m; exact ND.
    - destruct (has_dir a d); exact ND.
    - destruct (has_dir a d) eqn:Hd; [exact ND|].
      assert (ND' : NoDup (dirs a ++ [d])).
      { apply NoDup_app_intro; [exact ND | constructor; [intros [] | constructor] |].
        intros x Hx [<-|[]]. apply has_dir_In in Hx. congruence. }
      destruct (parent_d d) as [p|]; [destruct (has_dir a p); [exact ND' | exact ND] | exact ND'].
    - destruct (get a f); exact ND.
    - destruct (get a f); exact ND.
    - destruct (has_dir a d); [|exact ND]. cbn [fst dirs]. apply NoDup_filter. exact ND.
  Qed.

  Lemma exec_NoDup_dirs (a : arch) o flt : NoDup (dirs a) -> NoDup (dirs (fst (exec pre a o flt))).
  Proof. intros ND. destruct flt; cbn [exec fst]; auto using exec_ok_NoDup_dirs. Qed.

  Lemma exec_empty_NoDup_dirs (a : arch) o : NoDup (dirs a) -> NoDup (dirs (exec_empty pre a o)).
  Proof.
    intros ND. destruct o as [f|f p m|d|d|f|f|d]; cbn [exec_empty]; auto.
    destruct (has_dir a (parent_f pre f)); [|exact ND]. destruct (get a f); exact ND.
  Qed.

  Theorem any_run_NoDup_dirs {R} (p : prog R) (a : arch) phi :
    NoDup (dirs a) ->
    Forall (fun x => NoDup (dirs x)) (run_states pre p a phi) /\ NoDup (dirs (snd (fst (run pre p a phi)))).
  Proof.
    apply (run_invariant pre (fun _ => True) (fun x => NoDup (dirs x))).
    - intros x o f _. apply exec_NoDup_dirs.
    - intros x o _. apply exec_empty_NoDup_dirs.
    - apply emits_anything.
  Qed.
End NoDupDirs.

Lemma filter_keep_all (l : list entry) : filter keep_all l = l.
Proof. apply filter_all. Qed.

Lemma entry_ok_readable_b a e : entry_ok a e -> readable_b a e = true.
Proof. intros H. apply entry_ok_b_iff. exact H. Qed.

(* what the state after a fault-free backup looks like, and how the new band reads *)
Section After.
  Variable pre : bytes -> N.
  Variables (c : cfg) (src : list sitem) (a0 a1 : arch) (r : bres).
  Hypothesis HR : Ready pre a0.
  Hypothesis Hs : SrcSorted src.
  Hypothesis Hv : SrcValid src.
  Hypothesis Hw : SrcWF src.
  Hypothesis Hc : cfg_ok c.
  Hypothesis Ea1 : snd (fst (run pre (backup_prog pre c src) a0 [])) = a1.
  Hypothesis Er : snd (run pre (backup_prog pre c src) a0 []) = Done r.
  Hypothesis Rok : b_ok r = true.
  Hypothesis Rerr : b_errors r = 0.
  Hypothesis Hhead1 : get a1 (PHead (new_band a0)) = Some (Good (PlHead HvOk)).
  Hypothesis Hidx1 : has_dir a1 (DIndex (new_band a0)) = true.

  Let b := new_band a0.
  Let HS : Startable pre a0 := proj1 HR.
  Let NDd : NoDup (dirs a0) := proj1 (proj2 HR).
  Let HA : AInv a0 := proj1 (proj2 (proj2 HR)).
  Let HCo : Conf a0 := proj2 (proj2 (proj2 HR)).
  Let Hh : get a0 PHeader = Some (Good PlJson) := proj1 HS.
  Let Hb : has_dir a0 DBlocks = true := proj1 (proj2 (proj2 HS)).
  Let HWF : WFparents pre a0 := proj2 (proj2 (proj2 HS)).
  Let HOK : SrcOK src := SrcSorted_SrcOK src Hs Hw.
  Let HDW : DirsWF pre a0 := WFparents_DirsWF pre a0 HWF.

  Lemma after_invariants :
    Conf a1 /\ AInv a1 /\ WFparents pre a1 /\ NoDup (dirs a1) /\ Old a0 a1 /\ NewFromSrc a0 c src a1.
  Proof.
    destruct (backup_conf_ainv pre c src a0 [] Hs Hv Hw HCo HA HWF) as (_ & HCo1 & HA1 & HWF1).
    destruct (backup_conf_full pre c src a0 [] Hs Hv Hw HCo (WFparents_NoOrphans pre a0 HWF)) as (_ & _ & HNew).
    destruct (any_run_NoDup_dirs pre (backup_prog pre c src) a0 [] NDd) as (_ & NDd1).
    destruct (backup_write_once pre c src a0 []) as (_ & HOld).
    rewrite Ea1 in *. auto 10.
  Qed.

  Lemma after_header : get a1 PHeader = Some (Good PlJson) /\ has_dir a1 DBlocks = true.
  Proof.
    destruct after_invariants as (_ & _ & _ & _ & [HOd HOf] & _). split.
    - apply HOf; [exact Hh | discriminate].
    - apply HOd. apply has_dir_In. exact Hb.
  Qed.

  (* the new band is closed by a truthful tail; its hunks 0..n-1, in order, are strictly
     sorted and carry exactly the paths of the recorded source items, in source order *)
  Lemma after_new_band :
    exists n,
      get a1 (PTail b) = Some (Good (PlTail (Some n)))
      /\ (forall h, get a1 (PHunk b h) <> None -> h < n)
      /\ (forall h, h < n -> exists es, get a1 (PHunk b h) = Some (Good (PlHunk es)))
      /\ map e_apath (rec_upto a1 b (N.to_nat n)) = map spath (known_items src).
  Proof.
    destruct after_invariants as (HCo1 & _).
    destruct (backup_success_complete_wf pre c src a0 [] r HDW Er Rok Rerr) as [HComp _].
    rewrite Ea1 in HComp. fold b in HComp. destruct HComp as (n & Htail & Hhunks & Hperm).
    destruct (HCo1 b) as (_ & HSo & _ & HTT).
    exists n. split; [exact Htail|]. split; [|split].
    - intros h Hne. destruct (N.lt_ge_cases h n) as [L|L]; [exact L|].
      exfalso. apply Hne. apply (proj2 (HTT n Htail h) L).
    - intros h L. apply (proj1 (HTT n Htail h) L).
    - apply sorted_perm_eq; [| |exact Hperm].
      + apply SS_map. exact (rec_upto_sorted a1 b HSo (N.to_nat n)).
      + unfold kpaths. apply (SS_map_filter plt spath). exact Hs.
  Qed.

  (* the entry recorded for source item [it] restores to [it] *)
  Lemma after_entry_restored n it e :
    In it (known_items src) -> In e (rec_upto a1 b n) -> spath it = e_apath e ->
    item_restored c a0 it (restored_in a1 e) /\ not_restored a1 e = false.
  Proof.
    intros Hit He Hpath.
    destruct after_invariants as (HCo1 & HA1 & _ & _ & HOld & HNew).
    apply filter_In in Hit. destruct Hit as [Hin Hk].
    apply rec_upto_In in He. destruct He as (i & es & Hi & G & Hine).
    assert (HRec : Recorded a1 b e) by (exists (N.of_nat i), es; auto).
    destruct (new_band_fresh pre a0 HWF) as (Hfresh & _).
    (* the metadata *)
    pose proof (HNew b (N.of_nat i) es Hfresh G) as HFS. rewrite Forall_forall in HFS.
    destruct (HFS e Hine) as (it' & Hin' & Hmeta & _).
    assert (Hm : meta_of c it' e) by exact Hmeta.
    assert (Eit : it' = it).
    { apply (NoDup_map_unique (fun it => s_apath (si_e it)) src it' it (proj2 HOK) Hin' Hin).
      rewrite <- (meta_of_apath c it' e Hm). symmetry. exact Hpath. }
    subst it'.
    pose proof (meta_of_kind c it e Hm) as Hkind.
    (* the entry can be read *)
    assert (Hok : entry_ok a1 e).
    { pose proof (proj1 HA1 _ _ _ G) as F. rewrite Forall_forall in F. apply F. exact Hine. }
    unfold item_restored, restored_in, not_restored.
    destruct (s_kind (si_e it)) eqn:Ek; rewrite Hkind; try discriminate Hk.
    - (* a file *)
      rewrite (entry_ok_readable_b a1 e Hok), (entry_ok_read_content a1 e Hok). split; [|reflexivity].
      destruct (backup_recorded_truthful pre c src a0 [] HA HDW HOK Hc a1 (or_intror (eq_sym Ea1)) e HRec Hkind)
        as (it2 & Hin2 & Hp2 & Hk2 & Hm2 & Hne & Hcase).
      assert (Eit : it2 = it).
      { apply (NoDup_map_unique (fun it => s_apath (si_e it)) src it2 it (proj2 HOK) Hin2 Hin).
        rewrite Hp2. symmetry. exact Hpath. }
      subst it2.
      destruct Hcase as [HF | (be & Hib & Hpb & Hu & Hadd)].
      + exists e, (si_data it). split; [rewrite HF; reflexivity|]. split; [exact Hm | left; reflexivity].
      + pose proof Hib as (b' & h' & es' & _ & G' & Hinb).
        pose proof (proj1 HA _ _ _ G') as F. rewrite Forall_forall in F.
        pose proof (entry_ok_content _ _ (F _ Hinb)) as Hne'.
        destruct (content_of a0 be) as [d|] eqn:Ed; [|contradiction].
        pose proof (same_addrs_same_content a0 a1 e be d HOld Hadd Ed) as Ec.
        exists e, d. split; [rewrite Ec; reflexivity|]. split; [exact Hm|].
        right. exists be. split; [split; [exact Hib | split; [exact Hpb | exact Hu]]|]. split; [exact Hadd | exact Ed].
    - split; [|reflexivity]. exists e, []. split; [reflexivity|]. split; [exact Hm | reflexivity].
    - split; [|reflexivity]. exists e, []. split; [reflexivity|]. split; [exact Hm | reflexivity].
  Qed.

  (* restoring the new band *)
  Lemma after_restore :
    exists tr' rr,
      run pre (restore_prog (Specified b) keep_all) a1 [] = (tr', a1, Done rr)
      /\ r_ok rr = true /\ r_merr rr = 0
      /\ Forall2 (item_restored c a0) (known_items src) (r_files rr).
  Proof.
    destruct after_invariants as (HCo1 & HA1 & HWF1 & NDd1 & HOld & HNew).
    destruct after_header as [Hh1 Hb1].
    destruct after_new_band as (n & Htail & Hlt & Hgood & Hpaths).
    assert (Hopen : opens_b a1 b = true) by (unfold opens_b, rd; fold b in Hhead1; rewrite Hhead1; reflexivity).
    destruct (stitch_pure_closed_band pre a1 keep_all NDd1 (proj2 (proj2 HA1)) (proj1 HWF1) b n
                Hopen Hidx1 Htail Hlt Hgood) as [last Est].
    destruct (restore_accounts pre a1 b keep_all Hh1 Hopen (proj1 (has_dir_In _ _) Hb1))
      as (tr' & rr & Erun & R1 & R2 & R3).
    rewrite Est in R2, R3. cbn [fst snd] in R2, R3. rewrite filter_keep_all in R2, R3.
    exists tr', rr. split; [exact Erun|]. split; [exact R1|].
    set (L := rec_upto a1 b (N.to_nat n)) in *.
    assert (Hall : forall it e, In it (known_items src) -> In e L -> spath it = e_apath e ->
                     item_restored c a0 it (restored_in a1 e) /\ not_restored a1 e = false)
      by (intros it e; apply after_entry_restored).
    split.
    - rewrite R3. rewrite filter_none; [reflexivity|].
      intros e He.
      assert (Hp : In (e_apath e) (map spath (known_items src))) by (rewrite <- Hpaths; apply in_map; exact He).
      apply in_map_iff in Hp. destruct Hp as [it [Ep Hit]].
      exact (proj2 (Hall it e Hit He Ep)).
    - rewrite R2. apply (Forall2_same_keys e_apath spath); [symmetry; exact Hpaths|].
      intros it e Hit He Ep. exact (proj1 (Hall it e Hit He Ep)).
  Qed.
End After.

(* ---- the checkers are sound ---- *)
Lemma startable_b_sound pre a : startable_b pre a = true -> Startable pre a.
Proof.
  unfold startable_b. rewrite !andb_true_iff. intros [[[H1 H2] H3] H4].
  split; [|split; [|split; [exact H3 | apply wfparents_b_sound; exact H4]]].
  - destruct (get a PHeader) as [[[| | | |]| |]|]; try discriminate. reflexivity.
  - destruct (get a PLock); [discriminate | reflexivity].
Qed.

Lemma ready_b_sound pre a : ready_b pre a = true -> Ready pre a.
Proof.
  unfold ready_b. rewrite !andb_true_iff. intros [[[H1 H2] H3] H4].
  split; [apply startable_b_sound; exact H1|].
  split; [apply nodup_dirs_sound; exact H2|].
  split; [apply ainv_b_sound; exact H3 | apply conf_b_sound; exact H4].
Qed.

Lemma Ready_WFidx pre a : Ready pre a -> WFidx a.
Proof.
  intros ((_ & _ & _ & [HF HD]) & NDd & (_ & _ & NDf) & _).
  split; [exact NDd|]. split; [exact NDf|]. split; [|split].
  - intros n h Hne. destruct (get a (PHunk n h)) as [x|] eqn:G; [|congruence]. exact (HF _ _ G).
  - intros n s Hd. apply (HD (DHunkSub n s) (DIndex n)); [apply has_dir_In; exact Hd | reflexivity].
  - intros n. split; intros Hne.
    + destruct (get a (PHead n)) as [x|] eqn:G; [|congruence]. exact (HF _ _ G).
    + destruct (get a (PTail n)) as [x|] eqn:G; [|congruence]. exact (HF _ _ G).
Qed.

Lemma Forall2_impl_In {A B} (P Q : A -> B -> Prop) l m :
  Forall2 P l m -> (forall x y, In x l -> P x y -> Q x y) -> Forall2 Q l m.
Proof.
  induction 1 as [|x y l m Hxy _ IH]; intros H; constructor.
  - apply H; [left; reflexivity | exact Hxy].
  - apply IH. intros x' y' Hx'. apply H. right. exact Hx'.
Qed.

(* ------------------------------------------------------------------------- *)
(** * The theorems                                                             *)
(* ------------------------------------------------------------------------- *)

(** C01, END TO END.  Start from any archive state [a0] that is [Ready] (header, no GC_LOCK,
    block directory, files and directories inside existing directories, no directory listed
    twice, referential integrity, format conformance: all of it maintained by every
    operation).  Back up ANY strictly sorted, valid, well-formed source under ANY
    configuration with max_block_size >= 1, no storage fault.  Then
    (i)  the backup runs to the end and reports success, no error, the new band;
    (ii) restoring that band from the state reached, no storage fault, runs to the end,
         reports no error, and returns -- IN SOURCE ORDER -- exactly one restored file per
         source item that is a file, directory or symlink, carrying that item's path, kind,
         mtime, mode, owner and link target; a directory or symlink with no content; a file
         with exactly the bytes read from the source, or, when the backup reused the
         addresses of the previous version's entry of the same path because kind, mtime
         and size were unchanged, exactly what that entry restored to before the backup. *)
Theorem backup_then_restore_exact : forall pre c src a0,
  Ready pre a0 -> SrcSorted src -> SrcValid src -> SrcWF src -> cfg_ok c ->
  exists tr a1 r,
    run pre (backup_prog pre c src) a0 [] = (tr, a1, Done r)
    /\ b_ok r = true /\ b_errors r = 0 /\ b_band r = Some (new_band a0)
    /\ exists tr' rr,
         run pre (restore_prog (Specified (new_band a0)) keep_all) a1 [] = (tr', a1, Done rr)
         /\ r_ok rr = true /\ r_merr rr = 0
         /\ Forall2 (item_restored c a0) (known_items src) (r_files rr).
Proof.
  intros pre c src a0 HR Hs Hv Hw Hc.
  destruct (backup_succeeds pre c src a0 (proj1 HR)) as (tr & a1 & r & E & Rok & Rerr & Rband & Hhead1 & Hidx1 & _).
  exists tr, a1, r. split; [exact E|]. split; [exact Rok|]. split; [exact Rerr|]. split; [exact Rband|].
  apply (after_restore pre c src a0 a1 r HR Hs Hv Hw Hc); try assumption; rewrite E; reflexivity.
Qed.

(** ... and the state reached is [Ready] again: backups chain. *)
Theorem backup_keeps_ready : forall pre c src a0,
  Ready pre a0 -> SrcSorted src -> SrcValid src -> SrcWF src ->
  Ready pre (snd (fst (run pre (backup_prog pre c src) a0 []))).
Proof.
  intros pre c src a0 HR Hs Hv Hw.
  destruct (backup_succeeds pre c src a0 (proj1 HR)) as (tr & a1 & r & E & Rok & Rerr & Rband & Hhead1 & Hidx1 & Hl1).
  assert (Ea1 : snd (fst (run pre (backup_prog pre c src) a0 [])) = a1) by (rewrite E; reflexivity).
  destruct (after_invariants pre c src a0 a1 HR Hs Hv Hw Ea1) as (HCo1 & HA1 & HWF1 & NDd1 & [HOd HOf] & _).
  rewrite Ea1. pose proof HR as ((Hh & _ & Hb & _) & _).
  split; [|auto]. split; [apply HOf; [exact Hh | discriminate]|]. split; [exact Hl1|].
  split; [apply HOd; apply has_dir_In; exact Hb | exact HWF1].
Qed.

(** No reuse, exact bytes: if no entry of an earlier band has the path, kind, mtime and size
    of a source file, every file restores to exactly the bytes read from the source. *)
Theorem backup_then_restore_exact_fresh : forall pre c src a0,
  Ready pre a0 -> SrcSorted src -> SrcValid src -> SrcWF src -> cfg_ok c ->
  (forall it be, In it src -> s_kind (si_e it) = KFile -> ~ basis_match a0 it be) ->
  exists tr a1 r,
    run pre (backup_prog pre c src) a0 [] = (tr, a1, Done r)
    /\ b_ok r = true /\ b_errors r = 0 /\ b_band r = Some (new_band a0)
    /\ exists tr' rr,
         run pre (restore_prog (Specified (new_band a0)) keep_all) a1 [] = (tr', a1, Done rr)
         /\ r_ok rr = true /\ r_merr rr = 0
         /\ Forall2 (item_restored_exact c) (known_items src) (r_files rr).
Proof.
  intros pre c src a0 HR Hs Hv Hw Hc Hno.
  destruct (backup_then_restore_exact pre c src a0 HR Hs Hv Hw Hc)
    as (tr & a1 & r & E & Rok & Rerr & Rband & tr' & rr & E' & R1 & R2 & R3).
  exists tr, a1, r. repeat (split; [assumption|]). exists tr', rr. repeat (split; [assumption|]).
  eapply Forall2_impl_In; [exact R3|].
  intros it rf Hit (e & d & -> & Hm & Hd). apply filter_In in Hit. destruct Hit as [Hin _].
  exists e. split; [|exact Hm]. destruct (s_kind (si_e it)) eqn:Ek; try (subst d; reflexivity).
  destruct Hd as [->|(be & Hbm & _)]; [reflexivity|]. exfalso. exact (Hno it be Hin Ek Hbm).
Qed.

(** The first backup into an archive without any band: every file restores to exactly the
    bytes read from the source. *)
Corollary backup_then_restore_exact_first : forall pre c src a0,
  Ready pre a0 -> SrcSorted src -> SrcValid src -> SrcWF src -> cfg_ok c ->
  (forall b, has_dir a0 (DBand b) = false) ->
  exists tr a1 r,
    run pre (backup_prog pre c src) a0 [] = (tr, a1, Done r)
    /\ b_ok r = true /\ b_errors r = 0 /\ b_band r = Some (new_band a0)
    /\ exists tr' rr,
         run pre (restore_prog (Specified (new_band a0)) keep_all) a1 [] = (tr', a1, Done rr)
         /\ r_ok rr = true /\ r_merr rr = 0
         /\ Forall2 (item_restored_exact c) (known_items src) (r_files rr).
Proof.
  intros pre c src a0 HR Hs Hv Hw Hc Hnb.
  apply backup_then_restore_exact_fresh; auto.
  intros it be _ _ ((b' & h' & es' & _ & G & _) & _).
  pose proof HR as ((_ & _ & _ & [HF HD]) & _).
  pose proof (HF _ _ G) as H1. cbn [parent_f] in H1.
  pose proof (HD _ _ (proj1 (has_dir_In _ _) H1) eq_refl) as H2.
  pose proof (HD _ _ (proj1 (has_dir_In _ _) H2) eq_refl) as H3.
  rewrite Hnb in H3. discriminate.
Qed.

(** Earlier versions: every band that existed before the backup restores, from the state
    after it, to exactly what it restored to before (same entries, same contents, same
    error count); for a complete band that is its own index, entry by entry. *)
Theorem backup_then_restore_older : forall pre c src a0 keep b,
  Ready pre a0 -> has_dir a0 (DBand b) = true ->
  let a1 := snd (fst (run pre (backup_prog pre c src) a0 [])) in
  snd (run pre (restore_prog (Specified b) keep) a1 [])
  = snd (run pre (restore_prog (Specified b) keep) a0 []).
Proof.
  intros pre c src a0 keep b (_ & _ & HA & _) Hb a1.
  apply (restore_stable pre c src keep a0 b HA Hb []).
  unfold backup_states. apply in_or_app. right. left. reflexivity.
Qed.

Theorem backup_then_restore_older_complete : forall pre c src a0 keep b,
  Ready pre a0 -> complete a0 b ->
  let a1 := snd (fst (run pre (backup_prog pre c src) a0 [])) in
  exists merr,
    snd (run pre (restore_prog (Specified b) keep) a1 [])
    = Done {| r_ok := true; r_files := map restored (filter keep (FrameP.band_entries a0 b)); r_merr := merr |}
    /\ snd (run pre (restore_prog (Specified b) keep) a0 [])
       = snd (run pre (restore_prog (Specified b) keep) a1 []).
Proof.
  intros pre c src a0 keep b HR Hcb a1.
  pose proof HR as ((Hh & _ & Hb & _) & _ & HA & _).
  destruct (complete_band_restore_stable pre c src keep a0 b Hh Hb (Ready_WFidx pre a0 HR) HA Hcb [] a1)
    as [E [merr Em]].
  - unfold backup_states. apply in_or_app. right. left. reflexivity.
  - exists merr. split; [exact Em | symmetry; exact E].
Qed.

Print Assumptions backup_succeeds.
Print Assumptions backup_then_restore_exact.
Print Assumptions backup_keeps_ready.
Print Assumptions backup_then_restore_exact_fresh.
Print Assumptions backup_then_restore_exact_first.
Print Assumptions backup_then_restore_older.
Print Assumptions backup_then_restore_older_complete.

(* ------------------------------------------------------------------------- *)
(** * F. Examples (non-vacuity) and refutations, by computation                *)
(* ------------------------------------------------------------------------- *)
Lemma Forall2_nth_error {A B} (P : A -> B -> Prop) l m : Forall2 P l m ->
  forall i x y, nth_error l i = Some x -> nth_error m i = Some y -> P x y.
Proof.
  induction 1 as [|x0 y0 l m H0 _ IH]; intros [|i] x y Hx Hy; cbn [nth_error] in *; try discriminate.
  - inversion Hx; inversion Hy; subst. exact H0.
  - eapply IH; eauto.
Qed.

Module E2EExamples.
  Import SafeExamples.

  (* the states of SafeP.SafeExamples: after init, after one backup, after two *)
  Example ex_ready_b : ready_b ex_pre ex_a1 = true /\ ready_b ex_pre ex_a2 = true /\ ready_b ex_pre ex_a3 = true.
  Proof. vm_compute. repeat split; reflexivity. Qed.
  Example ex_ready_a1 : Ready ex_pre ex_a1.
  Proof. apply ready_b_sound. vm_compute. reflexivity. Qed.
  Example ex_ready_a3 : Ready ex_pre ex_a3.
  Proof. apply ready_b_sound. vm_compute. reflexivity. Qed.

  (* a third backup on top of ex_a3 (bands 0 and 1), three entries per hunk: "/" a directory;
     "/a" unchanged since band 1 (reused); "/b" with the mtime and size it has in band 1
     (reused, whatever its bytes); "/c" a symlink; "/d" neither file, directory nor symlink
     (not recorded); "/e" a small file; "/f" a directory; "/f/x" a file of two blocks with a
     pre-1970 mtime *)
  Definition mk_l (path target : str) : sentry :=
    {| s_apath := path; s_kind := KSymlink; s_size := 0; s_target := Some target; s_mtime := 5;
       s_mode := 511; s_user := None; s_group := None |}.
  Definition e5_cfg : cfg := {| c_meph := 3; c_mbs := 4; c_sfc := 2; c_owner := false |}.
  Definition e5_src (bdata : bytes) : list sitem :=
    [ {| si_e := mk_s [47] KDir 0 1000000000; si_data := [] |};
      {| si_e := mk_s [47;97] KFile 2 1000000000; si_data := [1;2] |};
      {| si_e := mk_s [47;98] KFile 6 1000000007; si_data := bdata |};
      {| si_e := mk_l [47;99] [97]; si_data := [] |};
      {| si_e := mk_s [47;100] KUnknown 0 2000000000; si_data := [] |};
      {| si_e := mk_s [47;101] KFile 1 2000000000; si_data := [3] |};
      {| si_e := mk_s [47;102] KDir 0 2000000000; si_data := [] |};
      {| si_e := mk_s [47;102;47;120] KFile 6 (-1500000000); si_data := [6;5;4;3;2;1] |} ].
  Definition same_b : bytes := [1;2;3;4;5;7].       (* what "/b" holds in band 1 *)
  Definition other_b : bytes := [9;9;9;9;9;9].      (* same length, same mtime, other bytes *)

  Example e5_src_ok d : length d = 6%nat -> SrcSorted (e5_src d) /\ SrcValid (e5_src d) /\ SrcWF (e5_src d).
  Proof.
    intros Hd. split; [apply srcsorted_b_sound; vm_compute; reflexivity|].
    split; [apply srcvalid_b_sound; vm_compute; reflexivity|].
    apply srcwf_b_sound. unfold srcwf_b, e5_src, itemwf_b. cbn. rewrite Hd. reflexivity.
  Qed.
  Example e5_cfg_ok : cfg_ok e5_cfg.
  Proof. unfold cfg_ok. cbn. lia. Qed.

  Definition show (rr : rres) : list (str * kind * option bytes) :=
    map (fun rf => match rf with RFile e d => (e_apath e, e_kind e, d) end) (r_files rr).

  (* the runs, computed: the backup succeeds into band 2 (three hunks); the restore returns
     the seven recorded items in source order; "/b" comes back as it was in band 1 *)
  Example e5_computed :
    let a1 := final (backup_prog ex_pre e5_cfg (e5_src other_b)) ex_a3 [] in
    snd (run ex_pre (backup_prog ex_pre e5_cfg (e5_src other_b)) ex_a3 [])
    = Done {| b_ok := true; b_errors := 0; b_merr := 0; b_written := 3; b_deleted := 0; b_band := Some 2 |}
    /\ new_band ex_a3 = 2
    /\ get a1 (PTail 2) = Some (Good (PlTail (Some 3)))
    /\ match snd (run ex_pre (restore_prog (Specified 2) keep_all) a1 []) with
       | Done rr =>
           r_ok rr = true /\ r_merr rr = 0
           /\ show rr = [([47], KDir, Some []); ([47;97], KFile, Some [1;2]); ([47;98], KFile, Some same_b);
                         ([47;99], KSymlink, Some []); ([47;101], KFile, Some [3]); ([47;102], KDir, Some []);
                         ([47;102;47;120], KFile, Some [6;5;4;3;2;1])]
       | _ => False
       end
    /\ e2e_check ex_pre e5_cfg (e5_src same_b) ex_a3 = true
    /\ e2e_check ex_pre e5_cfg (e5_src other_b) ex_a3 = false
    /\ e2e_check ex_pre e5_cfg (e5_src other_b) ex_a1 = true.
  Proof. vm_compute. repeat split; reflexivity. Qed.

  (* the same as an instance of the theorem *)
  Example e5_thm :
    exists tr a1 r,
      run ex_pre (backup_prog ex_pre e5_cfg (e5_src other_b)) ex_a3 [] = (tr, a1, Done r)
      /\ b_ok r = true /\ b_errors r = 0 /\ b_band r = Some 2
      /\ exists tr' rr,
           run ex_pre (restore_prog (Specified 2) keep_all) a1 [] = (tr', a1, Done rr)
           /\ r_ok rr = true /\ r_merr rr = 0
           /\ Forall2 (item_restored e5_cfg ex_a3) (known_items (e5_src other_b)) (r_files rr).
  Proof.
    destruct (e5_src_ok other_b eq_refl) as (H1 & H2 & H3).
    exact (backup_then_restore_exact ex_pre e5_cfg (e5_src other_b) ex_a3 ex_ready_a3 H1 H2 H3 e5_cfg_ok).
  Qed.

  (* the first backup into the empty archive: exact bytes *)
  Example e5_first_thm :
    exists tr a1 r,
      run ex_pre (backup_prog ex_pre e5_cfg (e5_src other_b)) ex_a1 [] = (tr, a1, Done r)
      /\ b_ok r = true /\ b_errors r = 0 /\ b_band r = Some 0
      /\ exists tr' rr,
           run ex_pre (restore_prog (Specified 0) keep_all) a1 [] = (tr', a1, Done rr)
           /\ r_ok rr = true /\ r_merr rr = 0
           /\ Forall2 (item_restored_exact e5_cfg) (known_items (e5_src other_b)) (r_files rr).
  Proof.
    destruct (e5_src_ok other_b eq_refl) as (H1 & H2 & H3).
    apply (backup_then_restore_exact_first ex_pre e5_cfg (e5_src other_b) ex_a1 ex_ready_a1 H1 H2 H3 e5_cfg_ok).
    intros b. vm_compute. reflexivity.
  Qed.

  (* the earlier versions restore from the state after the third backup as before *)
  Example e5_older_thm : forall b, b = 0 \/ b = 1 ->
    snd (run ex_pre (restore_prog (Specified b) keep_all) (final (backup_prog ex_pre e5_cfg (e5_src other_b)) ex_a3 []) [])
    = snd (run ex_pre (restore_prog (Specified b) keep_all) ex_a3 []).
  Proof.
    intros b Hb. apply (backup_then_restore_older ex_pre e5_cfg (e5_src other_b) ex_a3 keep_all b ex_ready_a3).
    destruct Hb as [-> | ->]; vm_compute; reflexivity.
  Qed.

  (* the checker is not trivially true: a GC_LOCK file, a missing block directory *)
  Definition ex_locked : arch := fst (exec ex_pre ex_a3 (OpWrite PLock PlJson CreateNew) NoFault).
  Example ex_locked_not_ready :
    startable_b ex_pre ex_locked = false
    /\ snd (run ex_pre (backup_prog ex_pre e5_cfg (e5_src other_b)) ex_locked []) = Done fail0.
  Proof. vm_compute. split; reflexivity. Qed.
  Definition ex_noblocks : arch := {| dirs := [DRoot]; files := [(PHeader, Good PlJson)] |}.
  Example ex_noblocks_not_ready :
    startable_b ex_pre ex_noblocks = false
    /\ snd (run ex_pre (backup_prog ex_pre e5_cfg (e5_src other_b)) ex_noblocks []) = Done fail0.
  Proof. vm_compute. split; reflexivity. Qed.
End E2EExamples.

(** THE STRICT STATEMENT IS FALSE.  "Every file restores to exactly the bytes read from the
    source" does not hold of the code: a file whose kind, mtime and size are those of the
    previous version's entry is not read at all (content_heuristically_unchanged); its
    restored content is the previous version's.  Witness: "/b" above, with other bytes of
    the same length and the same mtime.  The true statement is
    [backup_then_restore_exact]; the strict one needs the hypothesis of
    [backup_then_restore_exact_fresh]. *)
(* Theorem backup_then_restore_strict : forall pre c src a0,
     Ready pre a0 -> SrcSorted src -> SrcValid src -> SrcWF src -> cfg_ok c ->
     exists tr a1 r, run pre (backup_prog pre c src) a0 [] = (tr, a1, Done r) /\ ... /\
       exists tr' rr, run pre (restore_prog (Specified (new_band a0)) keep_all) a1 [] = (tr', a1, Done rr) /\ ...
         /\ Forall2 (item_restored_exact c) (known_items src) (r_files rr). *)
Theorem backup_then_restore_strict_refuted :
  exists pre c src a0,
    Ready pre a0 /\ SrcSorted src /\ SrcValid src /\ SrcWF src /\ cfg_ok c
    /\ forall tr a1 r tr' rr,
         run pre (backup_prog pre c src) a0 [] = (tr, a1, Done r) ->
         run pre (restore_prog (Specified (new_band a0)) keep_all) a1 [] = (tr', a1, Done rr) ->
         ~ Forall2 (item_restored_exact c) (known_items src) (r_files rr).
Proof.
  exists SafeExamples.ex_pre, E2EExamples.e5_cfg, (E2EExamples.e5_src E2EExamples.other_b), SafeExamples.ex_a3.
  destruct (E2EExamples.e5_src_ok E2EExamples.other_b eq_refl) as (H1 & H2 & H3).
  split; [exact E2EExamples.ex_ready_a3|]. split; [exact H1|]. split; [exact H2|]. split; [exact H3|].
  split; [exact E2EExamples.e5_cfg_ok|].
  intros tr a1 r tr' rr E1 E2 HF.
  assert (Ea : a1 = snd (fst (run SafeExamples.ex_pre
                 (backup_prog SafeExamples.ex_pre E2EExamples.e5_cfg (E2EExamples.e5_src E2EExamples.other_b))
                 SafeExamples.ex_a3 []))) by (rewrite E1; reflexivity).
  subst a1.
  assert (Er : Some rr = match snd (run SafeExamples.ex_pre (restore_prog (Specified (new_band SafeExamples.ex_a3)) keep_all)
                 (snd (fst (run SafeExamples.ex_pre
                   (backup_prog SafeExamples.ex_pre E2EExamples.e5_cfg (E2EExamples.e5_src E2EExamples.other_b))
                   SafeExamples.ex_a3 []))) []) with Done x => Some x | _ => None end)
    by (rewrite E2; reflexivity).
  clear E1 E2. vm_compute in Er. inversion Er; subst rr. clear Er.
  pose proof (Forall2_nth_error _ _ _ HF 2%nat) as Hn.
  specialize (Hn _ _ eq_refl eq_refl). destruct Hn as (e & Heq & _).
  vm_compute in Heq. discriminate Heq.
Qed.
Print Assumptions backup_then_restore_strict_refuted.
