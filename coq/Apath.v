(* Model of src/apath.rs: validity, the Ord implementation, append, is_prefix_of.
   Model file: executable definitions only. *)
From CV Require Export Base.Str.

(* ---- impl Ord for Apath (verbatim loop over two `split('/')` iterators) ---- *)
Fixpoint cmp_loop (oa ob : str) (ra rb : list str) : comparison :=
  match ra, rb with
  | [], [] => str_cmp oa ob
  | [], _ :: _ => Lt
  | _ :: _, [] => Gt
  | ac :: ra', bc :: rb' =>
      match str_cmp oa ob with
      | Eq => cmp_loop ac bc ra' rb'
      | c => c
      end
  end.

Definition apath_cmp (a b : str) : comparison :=
  match split_on SLASH a, split_on SLASH b with
  | oa :: ra, ob :: rb => cmp_loop oa ob ra rb
  | _, _ => Eq                                    (* unreachable: split is never empty *)
  end.

Definition apath_ltb (a b : str) : bool :=
  match apath_cmp a b with Lt => true | _ => false end.
Definition apath_leb (a b : str) : bool :=
  match apath_cmp a b with Gt => false | _ => true end.

(* ---- Apath::is_valid ---- *)
Definition part_ok (p : str) : bool :=
  negb (str_eqb p []) && negb (str_eqb p [DOT]) && negb (str_eqb p [DOT; DOT])
  && negb (mem_byte 0 p).

Definition is_valid (a : str) : bool :=
  match a with
  | c :: rest =>
      if N.eqb c SLASH then
        match rest with
        | [] => true
        | _ => forallb part_ok (split_on SLASH rest)
        end
      else false
  | [] => false
  end.

(* ---- Apath::append ---- *)
Definition append (a child : str) : str :=
  if str_eqb a [SLASH] then a ++ child else a ++ SLASH :: child.

(* ---- Apath::is_prefix_of, as written in the source.
   [by_chars = true] is the code at the pinned commit: `a.chars().nth(self.len())`,
   a character index fed with a byte length.  [by_chars = false] indexes bytes
   (`a.as_bytes().get(self.len())`), which is what the repaired code does. ---- *)
Definition is_prefix_of_gen (by_chars : bool) (self a : str) : bool :=
  match Nat.compare (length self) (length a) with
  | Gt => false
  | Eq => str_eqb self a
  | Lt =>
      starts_with a self
      && (ends_with_byte self SLASH
          || (if by_chars then opt_N_eqb (nth_char_lead a (length self)) SLASH
              else opt_N_eqb (nth_error a (length self)) SLASH))
  end.

(* ---- The documented rule (doc/format.md): compare the directory parts
   component-wise (a proper prefix first), then the final names. ---- *)
Fixpoint lex_cmp (l m : list str) : comparison :=
  match l, m with
  | [], [] => Eq
  | [], _ :: _ => Lt
  | _ :: _, [] => Gt
  | x :: l', y :: m' =>
      match str_cmp x y with Eq => lex_cmp l' m' | c => c end
  end.

Definition spec_cmp (l m : list str) : comparison :=
  match lex_cmp (removelast l) (removelast m) with
  | Eq => str_cmp (last l []) (last m [])
  | c => c
  end.

(* Components of a path: "/" has none, "/a/b" has ["a";"b"]. *)
Definition comps (a : str) : list str :=
  match a with
  | c :: rest =>
      if N.eqb c SLASH then match rest with [] => [] | _ => split_on SLASH rest end
      else split_on SLASH a
  | [] => split_on SLASH a
  end.

Fixpoint comp_prefix (p q : list str) : bool :=   (* p is a prefix of q, by whole components *)
  match p, q with
  | [], _ => true
  | _ :: _, [] => false
  | x :: p', y :: q' => str_eqb x y && comp_prefix p' q'
  end.

(* The implementation at the current commit (after "fix: is_prefix_of ...") indexes bytes. *)
Definition is_prefix_of : str -> str -> bool := is_prefix_of_gen false.
