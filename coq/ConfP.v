(* C13 "everything written conforms to the documented archive format".

   At every point of a backup -- every crash point, every sequence of storage failures --
   every band of the archive has consecutive hunk numbers, strictly increasing apaths inside
   and across its hunks, well-formed entries, and a tail that tells the truth.

   The proof reuses the state-dependent weakest-precondition predicate [Inv.safe] with the
   conformance predicate as its invariant; one lemma per sub-program of the backup describes
   how the pending entries of the writer state change ([Trans]); the loop invariant [CInv]
   relates the pending entries to what is already in the hunks of the new band and to the
   source entries still to come. *)
From Coq Require Import Lia Permutation Sorted.
From CV Require Import Base.Str Base.StrP Base.Order Apath ApathP Entry Stitch Tree Codec CodecP Store
  StitchProg Backup Ops Delete Read SafeP Inv RefIntP Conf.
Local Open Scope N_scope.

(* ------------------------------------------------------------------------- *)
(** * 1. The logic [safe] for an arbitrary invariant                          *)
(* ------------------------------------------------------------------------- *)
Section Logic.
  Variable pre : bytes -> N.
  Variable J : arch -> Prop.
  Notation safe := (Inv.safe pre J).

  Lemma isafe_weaken {R} (Q Q' : R -> arch -> Prop) (p : prog R) :
    (forall r a, J a -> Q r a -> Q' r a) -> forall a, J a -> safe Q p a -> safe Q' p a.
  Proof.
    intros HQ. induction p as [r|o k IH|]; intros a Ha H; cbn [Inv.safe] in *; auto.
    destruct H as [H1 H2]. split; [|exact H2].
    intros f. destruct (H1 f) as [Hi Hs]. split; [exact Hi|]. apply IH; assumption.
  Qed.

  (* the continuation may assume the invariant of the state it starts in *)
  Lemma isafe_bind {A B} (Q : A -> arch -> Prop) (Q' : B -> arch -> Prop) (p : prog A) (g : A -> prog B) :
    (forall r a, J a -> Q r a -> safe Q' (g r) a) -> forall a, J a -> safe Q p a -> safe Q' (bind p g) a.
  Proof.
    intros Hg. induction p as [r|o k IH|]; intros a Ha H; cbn [Inv.safe bind] in *; auto.
    destruct H as [H1 H2]. split; [|exact H2].
    intros f. destruct (H1 f) as [Hi Hs]. split; [exact Hi|]. apply IH; assumption.
  Qed.

  Lemma isafe_sound {R} (Q : R -> arch -> Prop) (p : prog R) :
    forall a phi, J a -> safe Q p a ->
      Forall J (run_states pre p a phi)
      /\ J (snd (fst (run pre p a phi)))
      /\ (forall r, snd (run pre p a phi) = Done r -> Q r (snd (fst (run pre p a phi)))).
  Proof.
    induction p as [r|o k IH|]; intros a phi Ha H.
    - cbn. split; [constructor|]. split; [exact Ha|]. intros r' E. inversion E; subst. exact H.
    - cbn [Inv.safe] in H. destruct H as [H1 H2].
      rewrite run_Do, run_states_Do.
      destruct (hdf phi) as [|e| |]; cbn [fst snd].
      + destruct (H1 NoFault) as [Hi Hs].
        destruct (IH _ _ (tl phi) Hi Hs) as (F1 & F2 & F3). split; [constructor; assumption|]. split; assumption.
      + destruct (H1 (Fail e)) as [Hi Hs].
        destruct (IH _ _ (tl phi) Hi Hs) as (F1 & F2 & F3). split; [constructor; assumption|]. split; assumption.
      + split; [constructor|]. split; [exact Ha|]. intros r E. discriminate E.
      + split; [constructor; [exact H2|constructor]|]. split; [exact H2|]. intros r E. discriminate E.
    - cbn. split; [constructor|]. split; [exact Ha|]. intros r E. discriminate E.
  Qed.

  (* reads: the state does not change; the reply is the one [exec] gives *)
  Lemma isafe_read_raw {R} (Q : R -> arch -> Prop) o (k : reply -> prog R) (a : arch) :
    reads_only o -> J a ->
    (forall flt, safe Q (k (snd (exec pre a o flt))) a) ->
    safe Q (Do o k) a.
  Proof.
    intros Ho Ha Hk. cbn [Inv.safe]. split.
    - intros f. rewrite (exec_read_same pre a o f Ho). split; [exact Ha | apply Hk].
    - rewrite (exec_empty_read_same pre a o Ho). exact Ha.
  Qed.

  Lemma isafe_read {R} (Q : R -> arch -> Prop) o (k : reply -> prog R) (a : arch) :
    reads_only o -> J a ->
    (forall rep, reply_ok pre a o rep -> safe Q (k rep) a) ->
    safe Q (Do o k) a.
  Proof.
    intros Ho Ha Hk. apply isafe_read_raw; auto.
    intros flt. apply Hk. apply exec_read_reply. exact Ho.
  Qed.

  (* a program that only reads leaves the state alone *)
  Lemma isafe_reads_only {R} (p : prog R) :
    emits_only reads_only p -> forall a, J a -> safe (fun _ a' => a' = a) p a.
  Proof.
    intros H. induction H as [r| |o k Ho _ IH]; intros a Ha; cbn [Inv.safe]; auto.
    split.
    - intros f. rewrite (exec_read_same pre a o f Ho). split; [exact Ha | apply IH; exact Ha].
    - rewrite (exec_empty_read_same pre a o Ho). exact Ha.
  Qed.
End Logic.

(* ------------------------------------------------------------------------- *)
(** * 2. Conformance depends on the index files only (frame)                  *)
(* ------------------------------------------------------------------------- *)

Lemma BandEq_refl a : BandEq a a.
Proof. intros b. split; reflexivity. Qed.

Lemma BandEq_trans a b c : BandEq a b -> BandEq b c -> BandEq a c.
Proof.
  intros H1 H2 x. destruct (H1 x) as [A1 B1]. destruct (H2 x) as [A2 B2].
  split; [intros h; rewrite A2; apply A1 | rewrite B2; exact B1].
Qed.

(* the conformance of band [b] only depends on the hunks and the tail of band [b] *)
Lemma ConfBand_frame a a' b :
  (forall h, get a' (PHunk b h) = get a (PHunk b h)) -> get a' (PTail b) = get a (PTail b) ->
  ConfBand a b -> ConfBand a' b.
Proof.
  intros Hh Ht ((C1 & C2) & (S1 & S2) & W & T).
  split; [split|split; [split|split]].
  - intros h. rewrite !Hh. apply C1.
  - intros h x. rewrite Hh. apply C2.
  - intros h es. rewrite Hh. apply S1.
  - intros h h' es es' e e'. rewrite !Hh. apply S2.
  - intros h es. rewrite Hh. apply W.
  - intros n. rewrite Ht. intros E h. rewrite Hh. apply T. exact E.
Qed.

Lemma Conf_BandEq a a' : BandEq a a' -> Conf a -> Conf a'.
Proof.
  intros HB HC b. destruct (HB b) as [Hh Ht]. apply (ConfBand_frame a a' b Hh Ht). apply HC.
Qed.

Lemma NewFromSrc_BandEq a0 c src a a' : BandEq a a' -> NewFromSrc a0 c src a -> NewFromSrc a0 c src a'.
Proof.
  intros HB H b h es Hb G. destruct (HB b) as [Hh _]. rewrite Hh in G. eapply H; eauto.
Qed.

Lemma get_set_file (a : arch) f x g :
  get {| dirs := dirs a; files := set_file f x (files a) |} g = if fpath_eqb g f then Some x else get a g.
Proof. unfold get. cbn [files]. apply lookup_set_file. Qed.

Lemma get_set_other (a : arch) f x g :
  g <> f -> get {| dirs := dirs a; files := set_file f x (files a) |} g = get a g.
Proof. intros H. rewrite get_set_file. destruct (fpath_eqb_spec g f); congruence. Qed.

Lemma get_set_same (a : arch) f x :
  get {| dirs := dirs a; files := set_file f x (files a) |} f = Some x.
Proof. rewrite get_set_file, RefIntP.fpath_eqb_refl. reflexivity. Qed.

Lemma BandEq_set_file (a : arch) f x :
  (forall b h, f <> PHunk b h) -> (forall b, f <> PTail b) ->
  BandEq a {| dirs := dirs a; files := set_file f x (files a) |}.
Proof.
  intros H1 H2 b. split; [intros h|]; apply get_set_other; auto.
Qed.

Lemma BandEq_files (a a' : arch) : files a' = files a -> BandEq a a'.
Proof. intros E b. unfold get. rewrite E. split; reflexivity. Qed.

Section ExecFacts.
  Variable pre : bytes -> N.

  Lemma exec_ok_neutral_BandEq a o : neutral o -> BandEq a (fst (exec_ok pre a o)).
  Proof.
    intros Ho. destruct o as [f|f p m|d|d|f|f|d]; cbn in Ho; try contradiction; cbn [exec_ok].
    - destruct (get a f); apply BandEq_refl.
    - destruct (has_dir a (parent_f pre f)); [|apply BandEq_refl].
      assert (HB : BandEq a {| dirs := dirs a; files := set_file f (Good p) (files a) |}).
      { apply BandEq_set_file; intros; intros E; subst f; exact Ho. }
      destruct (get a f) as [[q| |]|]; destruct m; cbn [fst]; auto using BandEq_refl.
    - destruct (has_dir a d); apply BandEq_refl.
    - apply BandEq_files. apply (exec_mkdir_files pre a d NoFault).
    - destruct (get a f); apply BandEq_refl.
  Qed.

  Lemma exec_neutral_BandEq a o flt : neutral o -> BandEq a (fst (exec pre a o flt)).
  Proof.
    intros Ho. destruct flt; cbn [exec fst]; auto using BandEq_refl, exec_ok_neutral_BandEq.
  Qed.

  Lemma exec_empty_neutral_BandEq a o : neutral o -> BandEq a (exec_empty pre a o).
  Proof.
    intros Ho. destruct o as [f|f p m|d|d|f|f|d]; cbn [exec_empty]; try apply BandEq_refl.
    cbn in Ho. destruct (has_dir a (parent_f pre f)); [|apply BandEq_refl].
    destruct (get a f); [apply BandEq_refl|].
    apply BandEq_set_file; intros; intros E; subst f; exact Ho.
  Qed.

  (* a create-new write of a path that does not exist: nothing happens and the reply is an
     error, or the file is there and the reply is Ok *)
  Lemma exec_write_new a f p flt :
    get a f = None ->
    (fst (exec pre a (OpWrite f p CreateNew) flt) = a
     /\ is_ok (snd (exec pre a (OpWrite f p CreateNew) flt)) = false)
    \/ (fst (exec pre a (OpWrite f p CreateNew) flt)
        = {| dirs := dirs a; files := set_file f (Good p) (files a) |}
        /\ is_ok (snd (exec pre a (OpWrite f p CreateNew) flt)) = true).
  Proof.
    intros G.
    assert (H : (fst (exec_ok pre a (OpWrite f p CreateNew)) = a
                 /\ is_ok (snd (exec_ok pre a (OpWrite f p CreateNew))) = false)
                \/ (fst (exec_ok pre a (OpWrite f p CreateNew))
                    = {| dirs := dirs a; files := set_file f (Good p) (files a) |}
                    /\ is_ok (snd (exec_ok pre a (OpWrite f p CreateNew))) = true)).
    { cbn [exec_ok]. rewrite G. destruct (has_dir a (parent_f pre f)); cbn [fst snd is_ok]; auto. }
    destruct flt; cbn [exec]; auto.
  Qed.

  Lemma exec_empty_write_new a f p m :
    get a f = None ->
    exec_empty pre a (OpWrite f p m) = a
    \/ exec_empty pre a (OpWrite f p m) = {| dirs := dirs a; files := set_file f Empty (files a) |}.
  Proof.
    intros G. cbn [exec_empty]. rewrite G. destruct (has_dir a (parent_f pre f)); auto.
  Qed.
End ExecFacts.

(* ------------------------------------------------------------------------- *)
(** * 3. How the pending entries of the writer state change                   *)
(* ------------------------------------------------------------------------- *)

Lemma queued_entry_apath blk q : e_apath (queued_entry blk q) = e_apath (snd q).
Proof. destruct q as [[s l] e]. reflexivity. Qed.

Lemma map_queued_apath blk q :
  map e_apath (map (queued_entry blk) q) = map (fun x => e_apath (snd x)) q.
Proof. rewrite map_map. apply map_ext. intros x. apply queued_entry_apath. Qed.

Lemma NoDup_app_intro {A} (l m : list A) :
  NoDup l -> NoDup m -> (forall x, In x l -> ~ In x m) -> NoDup (l ++ m).
Proof.
  induction l as [|x l IH]; intros Hl Hm Hd; cbn [app]; [exact Hm|].
  inversion Hl as [|? ? Hx Hl']; subst. constructor.
  - intros Hin. apply in_app_or in Hin. destruct Hin as [Hin|Hin]; [auto|].
    apply (Hd x); [left; reflexivity | exact Hin].
  - apply IH; auto. intros y Hy. apply Hd. right. exact Hy.
Qed.

Lemma NoDup_app_l {A} (l m : list A) : NoDup (l ++ m) -> NoDup l.
Proof.
  induction l as [|x l IH]; cbn [app]; intros H; [constructor|].
  inversion H as [|? ? Hx H']; subst. constructor; [|auto].
  intros Hin. apply Hx. apply in_or_app. left. exact Hin.
Qed.

Lemma Trans_refl w : Trans nocand [] w w.
Proof.
  unfold Trans. split; [reflexivity|]. split; [reflexivity|]. split; [reflexivity|].
  split; [intros P H _; exact H|].
  exists []. cbn [app]. rewrite app_nil_r. apply Permutation_refl.
Qed.

Lemma SameIdx_refl w : SameIdx w w.
Proof. unfold SameIdx. repeat split; reflexivity. Qed.

Lemma SameIdx_trans w w1 w2 : SameIdx w w1 -> SameIdx w1 w2 -> SameIdx w w2.
Proof.
  intros (A1 & A2 & A3 & A4 & A5 & A6 & A7) (B1 & B2 & B3 & B4 & B5 & B6 & B7).
  unfold SameIdx. repeat split; congruence.
Qed.

Lemma SameIdx_Trans w w' : SameIdx w w' -> Trans nocand [] w w'.
Proof.
  intros (A1 & A2 & A3 & A4 & A5 & A6 & A7). unfold Trans.
  split; [exact A1|]. split; [exact A2|]. split; [exact A3|]. split.
  - intros P (H1 & H2 & H3) _. unfold EInv. rewrite A4, A5, A6. auto.
  - exists []. unfold ppaths. rewrite A4, A5, A6. cbn [app]. rewrite app_nil_r. apply Permutation_refl.
Qed.

Lemma Trans_trans (c1 : entry -> Prop) ps1 (c2 : entry -> Prop) ps2 (c3 : entry -> Prop) w w1 w2 :
  Trans c1 ps1 w w1 -> Trans c2 ps2 w1 w2 ->
  (forall x, c1 x -> c3 x) -> (forall x, c2 x -> c3 x) ->
  Trans c3 (ps2 ++ ps1) w w2.
Proof.
  intros (A1 & A2 & A3 & A4 & l1 & A5) (B1 & B2 & B3 & B4 & l2 & B5) H1 H2.
  unfold Trans. split; [congruence|]. split; [congruence|]. split; [congruence|]. split.
  - intros P HE HP. apply B4; [apply A4|]; auto.
  - exists (l2 ++ l1). rewrite <- app_assoc.
    eapply Permutation_trans; [apply Permutation_app_head; exact A5|].
    rewrite !app_assoc. apply Permutation_app_tail. exact B5.
Qed.

Lemma Trans_weaken (c c' : entry -> Prop) ps w w' :
  (forall x, c x -> c' x) -> Trans c ps w w' -> Trans c' ps w w'.
Proof.
  intros Hc (A1 & A2 & A3 & A4 & A5). unfold Trans.
  split; [exact A1|]. split; [exact A2|]. split; [exact A3|]. split; [|exact A5].
  intros P HE HP. apply A4; auto.
Qed.

(* a step that drops the new apaths altogether *)
Lemma Trans_drop (c : entry -> Prop) ps w w' : Trans nocand [] w w' -> Trans c ps w w'.
Proof.
  intros (A1 & A2 & A3 & A4 & l & A5). unfold Trans.
  split; [exact A1|]. split; [exact A2|]. split; [exact A3|]. split.
  - intros P HE _. apply A4; [exact HE | intros x []].
  - exists (l ++ ps). cbn [app] in A5. rewrite app_assoc.
    eapply Permutation_trans; [apply Permutation_app_comm|].
    apply Permutation_app_tail. exact A5.
Qed.

Lemma Written_BandEq a a' b x : BandEq a a' -> Written a b x -> Written a' b x.
Proof.
  intros HB (h & es & e & G & Hin & E). destruct (HB b) as [Hh _].
  exists h, es, e. rewrite Hh. auto.
Qed.

Lemma CInv_BandEq P U a a' w : BandEq a a' -> CInv P U a w -> CInv P U a' w.
Proof.
  intros HB (A & B & C & D & E & F & G & H & K).
  destruct (HB (w_band w)) as [Hh Ht].
  assert (HW : forall x, Written a' (w_band w) x -> Written a (w_band w) x).
  { intros x (h & es & e & G' & Hin & E'). exists h, es, e. rewrite <- Hh. auto. }
  unfold CInv. split; [exact A|]. split; [intros h; rewrite Hh; apply B|].
  split; [intros h; rewrite Hh; apply C|]. split; [rewrite Ht; exact D|].
  split; [exact E|]. split.
  { intros p Hp. destruct (F p Hp) as [F1 F2]. split; auto. }
  split; [intros x u Hx; apply G; auto|]. split; [exact H|].
  intros h es. rewrite Hh. apply K.
Qed.

(* the pending entries change by [Trans]: the new apaths [ps] are source entries to come,
   the remaining source entries [U'] are all greater *)
Lemma CInv_Trans P cand ps U U' a w w' :
  Trans cand ps w w' -> CInv P U a w ->
  (forall x, cand x -> P x) ->
  incl U' U -> incl ps U -> NoDup ps ->
  (forall p u, In p ps -> In u U' -> plt p u) ->
  CInv P U' a w'.
Proof.
  intros (T1 & T2 & T3 & T4 & l & T5) (A & B & C & D & E & F & G & H & K) Hc HU Hps Hnd Hlt.
  assert (Hin : forall q, In q (ppaths w') -> In q (ps ++ ppaths w)).
  { intros q Hq. eapply Permutation_in; [apply Permutation_sym; exact T5|].
    apply in_or_app. left. exact Hq. }
  unfold CInv. rewrite T1, T2, T3.
  split; [exact A|]. split; [exact B|]. split; [exact C|]. split; [exact D|].
  split.
  { assert (ND : NoDup (ps ++ ppaths w)).
    { apply NoDup_app_intro; auto. intros x Hx Hx'.
      destruct (F x Hx') as [_ F2]. specialize (F2 x (Hps x Hx)).
      exact (co_lt_irrefl apath_cmp apath_order x F2). }
    eapply NoDup_app_l. eapply Permutation_NoDup; [exact T5 | exact ND]. }
  split.
  { intros q Hq. apply Hin in Hq. apply in_app_or in Hq. destruct Hq as [Hq|Hq].
    - split; [intros x Hx; apply G; auto | intros u Hu; apply Hlt; auto].
    - destruct (F q Hq) as [F1 F2]. split; auto. }
  split; [intros x u Hx Hu; apply G; auto|].
  split; [apply T4; auto | exact K].
Qed.

Lemma CInv_Trans0 P U a w w' : Trans nocand [] w w' -> CInv P U a w -> CInv P U a w'.
Proof.
  intros HT HC. apply (CInv_Trans P nocand [] U U a w w' HT HC).
  - intros x [].
  - apply incl_refl.
  - intros x [].
  - constructor.
  - intros p u [].
Qed.

(* ------------------------------------------------------------------------- *)
(** * 4. Writing the next hunk, writing the tail                              *)
(* ------------------------------------------------------------------------- *)

Lemma hunk_path_neq b h b' h' : (b, h) <> (b', h') -> PHunk b h <> PHunk b' h'.
Proof. intros H E. inversion E; subst. apply H. reflexivity. Qed.

Lemma ppaths_entries_only w :
  w_fin w = [] -> w_queue w = [] -> ppaths w = map e_apath (w_entries w).
Proof. intros E1 E2. unfold ppaths. rewrite E1, E2. cbn [map app]. apply app_nil_r. Qed.

Section NextHunk.
  Variables (P : entry -> Prop) (U : list str) (a : arch) (w : wst).
  Hypothesis HC : CInv P U a w.
  Hypothesis Hfin : w_fin w = [].
  Hypothesis Hq : w_queue w = [].
  Hypothesis Hne : w_entries w <> [].
  Hypothesis HPE : forall e, P e -> EWF e.

  Let id := w_band w.
  Let s := w_seq w.
  Let es := sort_entries (w_entries w).
  Let a2 : arch := {| dirs := dirs a; files := set_file (PHunk id s) (Good (PlHunk es)) (files a) |}.
  Let ae : arch := {| dirs := dirs a; files := set_file (PHunk id s) Empty (files a) |}.

  Lemma nh_perm : Permutation es (w_entries w).
  Proof. apply sort_entries_perm. Qed.

  Lemma nh_nonempty : es <> [].
  Proof.
    intros E. pose proof nh_perm as Hp. rewrite E in Hp. apply Permutation_nil in Hp. exact (Hne Hp).
  Qed.

  Lemma nh_in_pending e : In e es -> In (e_apath e) (ppaths w).
  Proof.
    intros Hin. rewrite (ppaths_entries_only w Hfin Hq). apply in_map.
    eapply Permutation_in; [apply nh_perm | exact Hin].
  Qed.

  Lemma nh_sorted : StronglySorted elt es.
  Proof.
    apply sort_entries_sorted. destruct HC as (_ & _ & _ & _ & E & _).
    rewrite (ppaths_entries_only w Hfin Hq) in E. exact E.
  Qed.

  Lemma nh_P : Forall P es.
  Proof.
    destruct HC as (_ & _ & _ & _ & _ & _ & _ & (H & _) & _).
    eapply Permutation_Forall; [apply Permutation_sym, nh_perm | exact H].
  Qed.

  Lemma nh_get_same : get a2 (PHunk id s) = Some (Good (PlHunk es)).
  Proof. apply get_set_same. Qed.
  Lemma nh_get_other f : f <> PHunk id s -> get a2 f = get a f.
  Proof. apply get_set_other. Qed.
  Lemma nh_get_hunk h : h <> s -> get a2 (PHunk id h) = get a (PHunk id h).
  Proof. intros H. apply nh_get_other. intros E. inversion E. contradiction. Qed.

  (* a hunk of the new band that exists is below the sequence number *)
  Lemma nh_exists_lt h : get a (PHunk id h) <> None -> h < s.
  Proof.
    intros H. destruct HC as (_ & B & _). destruct (N.lt_ge_cases h s) as [L|L]; [exact L|].
    exfalso. apply H. apply B. exact L.
  Qed.

  Lemma nh_ConfBand : ConfBand a id -> ConfBand a2 id.
  Proof.
    intros ((C1 & C2) & (S1 & S2) & W & T).
    destruct HC as (A & B & C & D & E & F & G & H & K). fold id s in A, B, C, D, F, G, K.
    split; [split|split; [split|split]].
    - (* a hunk with a successor is good and non-empty *)
      intros h Hs.
      assert (L : h < s).
      { destruct (N.eq_dec (h + 1) s) as [E1|N1]; [lia|].
        rewrite nh_get_hunk in Hs by exact N1. apply nh_exists_lt in Hs. lia. }
      rewrite nh_get_hunk by lia. apply C. exact L.
    - intros h x G2. destruct (N.eq_dec h s) as [->|Nh].
      + rewrite nh_get_same in G2. inversion G2; subst x. right. exists es. split; [reflexivity | apply nh_nonempty].
      + rewrite nh_get_hunk in G2 by exact Nh. eapply C2; eauto.
    - intros h es1 G2. destruct (N.eq_dec h s) as [->|Nh].
      + rewrite nh_get_same in G2. inversion G2; subst es1. apply nh_sorted.
      + rewrite nh_get_hunk in G2 by exact Nh. eapply S1; eauto.
    - intros h h' es1 es2 e e' L G1 G2 I1 I2.
      destruct (N.eq_dec h' s) as [->|Nh'].
      + rewrite nh_get_same in G2. inversion G2; subst es2.
        rewrite nh_get_hunk in G1 by lia.
        destruct (F _ (nh_in_pending _ I2)) as [F1 _]. apply F1.
        exists h, es1, e. auto.
      + rewrite nh_get_hunk in G2 by exact Nh'.
        assert (L' : h' < s) by (apply nh_exists_lt; congruence).
        rewrite nh_get_hunk in G1 by lia. exact (S2 h h' es1 es2 e e' L G1 G2 I1 I2).
    - intros h es1 G2. destruct (N.eq_dec h s) as [->|Nh].
      + rewrite nh_get_same in G2. inversion G2; subst es1.
        eapply Forall_impl; [exact HPE | apply nh_P].
      + rewrite nh_get_hunk in G2 by exact Nh. eapply W; eauto.
    - intros n G2. rewrite nh_get_other in G2 by discriminate. congruence.
  Qed.

  Lemma nh_Conf : Conf a -> Conf a2.
  Proof.
    intros HCo b. destruct (N.eq_dec b id) as [->|Nb]; [apply nh_ConfBand, HCo|].
    apply (ConfBand_frame a a2 b); [| |apply HCo].
    - intros h. apply nh_get_other. intros E. inversion E. contradiction.
    - apply nh_get_other. discriminate.
  Qed.

  Lemma nh_Written x : Written a2 id x -> Written a id x \/ In x (ppaths w).
  Proof.
    intros (h & es1 & e & G2 & Hin & Ex). destruct (N.eq_dec h s) as [->|Nh].
    - rewrite nh_get_same in G2. inversion G2; subst es1. right. subst x. apply nh_in_pending. exact Hin.
    - rewrite nh_get_hunk in G2 by exact Nh. left. exists h, es1, e. auto.
  Qed.

  Lemma nh_CInv : CInv P U a2 (upd_index w [] (s + 1) (w_hunks w + 1)).
  Proof.
    destruct HC as (A & B & C & D & E & F & G & H & K). fold id s in A, B, C, D, F, G, K.
    unfold CInv. wsimpl. fold id s.
    split; [lia|].
    split; [intros h L; rewrite nh_get_hunk by lia; apply B; lia|].
    split.
    { intros h L. destruct (N.eq_dec h s) as [->|Nh].
      - exists es. split; [apply nh_get_same | apply nh_nonempty].
      - rewrite nh_get_hunk by exact Nh. apply C. lia. }
    split; [rewrite nh_get_other by discriminate; exact D|].
    assert (Ep : ppaths (upd_index w [] (s + 1) (w_hunks w + 1)) = []).
    { unfold ppaths. wsimpl. rewrite Hfin, Hq. reflexivity. }
    rewrite Ep.
    split; [constructor|]. split; [intros p []|].
    split.
    { intros x u Hx Hu. destruct (nh_Written x Hx) as [Hx'|Hx'].
      - apply G; auto.
      - destruct (F x Hx') as [_ F2]. apply F2. exact Hu. }
    split.
    { unfold EInv. wsimpl. rewrite Hfin, Hq. repeat split; constructor. }
    intros h es1 G2. destruct (N.eq_dec h s) as [->|Nh].
    - rewrite nh_get_same in G2. inversion G2; subst es1. apply nh_P.
    - rewrite nh_get_hunk in G2 by exact Nh. eapply K; eauto.
  Qed.

  (* the state a killed hunk write leaves *)
  Lemma ne_get_other f : f <> PHunk id s -> get ae f = get a f.
  Proof. apply get_set_other. Qed.
  Lemma ne_get_hunk h : h <> s -> get ae (PHunk id h) = get a (PHunk id h).
  Proof. intros H. apply ne_get_other. intros E. inversion E. contradiction. Qed.
  Lemma ne_get_same : get ae (PHunk id s) = Some Empty.
  Proof. apply get_set_same. Qed.

  Lemma ne_good h es1 : get ae (PHunk id h) = Some (Good (PlHunk es1)) ->
    h <> s /\ get a (PHunk id h) = Some (Good (PlHunk es1)).
  Proof.
    intros G2. destruct (N.eq_dec h s) as [->|Nh].
    - rewrite ne_get_same in G2. discriminate.
    - rewrite ne_get_hunk in G2 by exact Nh. auto.
  Qed.

  Lemma ne_ConfBand : ConfBand a id -> ConfBand ae id.
  Proof.
    intros ((C1 & C2) & (S1 & S2) & W & T).
    destruct HC as (A & B & C & D & E & F & G & H & K). fold id s in A, B, C, D, F, G, K.
    split; [split|split; [split|split]].
    - intros h Hs.
      assert (L : h < s).
      { destruct (N.eq_dec (h + 1) s) as [E1|N1]; [lia|].
        rewrite ne_get_hunk in Hs by exact N1. apply nh_exists_lt in Hs. lia. }
      rewrite ne_get_hunk by lia. apply C. exact L.
    - intros h x G2. destruct (N.eq_dec h s) as [->|Nh].
      + rewrite ne_get_same in G2. inversion G2. left. reflexivity.
      + rewrite ne_get_hunk in G2 by exact Nh. eapply C2; eauto.
    - intros h es1 G2. apply ne_good in G2. destruct G2 as [_ G2]. eapply S1; eauto.
    - intros h h' es1 es2 e e' L G1 G2 I1 I2.
      apply ne_good in G1. apply ne_good in G2. destruct G1 as [_ G1]. destruct G2 as [_ G2].
      exact (S2 h h' es1 es2 e e' L G1 G2 I1 I2).
    - intros h es1 G2. apply ne_good in G2. destruct G2 as [_ G2]. eapply W; eauto.
    - intros n G2. rewrite ne_get_other in G2 by discriminate. congruence.
  Qed.

  Lemma ne_Conf : Conf a -> Conf ae.
  Proof.
    intros HCo b. destruct (N.eq_dec b id) as [->|Nb]; [apply ne_ConfBand, HCo|].
    apply (ConfBand_frame a ae b); [| |apply HCo].
    - intros h. apply ne_get_other. intros E. inversion E. contradiction.
    - apply ne_get_other. discriminate.
  Qed.

  Lemma nh_NewFromSrc a0 c src :
    (forall e, P e -> FromSrc c src e) -> NewFromSrc a0 c src a -> NewFromSrc a0 c src a2.
  Proof.
    intros HPF HN b h es1 Hb G2.
    destruct (fpath_eqb_spec (PHunk b h) (PHunk id s)) as [E|NE].
    - rewrite E, nh_get_same in G2. inversion G2; subst es1.
      eapply Forall_impl; [exact HPF | apply nh_P].
    - rewrite nh_get_other in G2 by exact NE. eapply HN; eauto.
  Qed.

  Lemma ne_NewFromSrc a0 c src : NewFromSrc a0 c src a -> NewFromSrc a0 c src ae.
  Proof.
    intros HN b h es1 Hb G2.
    destruct (fpath_eqb_spec (PHunk b h) (PHunk id s)) as [E|NE].
    - rewrite E, ne_get_same in G2. discriminate.
    - rewrite ne_get_other in G2 by exact NE. eapply HN; eauto.
  Qed.
End NextHunk.

Section WriteTail.
  Variables (P : entry -> Prop) (U : list str) (a : arch) (w : wst).
  Hypothesis HC : CInv P U a w.
  Variable x : fcontent.
  Hypothesis Hx : x = Empty \/ x = Good (PlTail (Some (w_hunks w))).

  Let id := w_band w.
  Let at' : arch := {| dirs := dirs a; files := set_file (PTail id) x (files a) |}.

  Lemma wt_get_hunk b h : get at' (PHunk b h) = get a (PHunk b h).
  Proof. apply get_set_other. discriminate. Qed.

  Lemma wt_Conf : Conf a -> Conf at'.
  Proof.
    intros HCo b. destruct (N.eq_dec b id) as [->|Nb].
    - destruct (HCo id) as ((C1 & C2) & (S1 & S2) & W & T).
      destruct HC as (A & B & C & D & _). fold id in B, C, D.
      split; [split|split; [split|split]].
      + intros h. rewrite !wt_get_hunk. apply C1.
      + intros h y. rewrite wt_get_hunk. apply C2.
      + intros h es. rewrite wt_get_hunk. apply S1.
      + intros h h' es es' e e'. rewrite !wt_get_hunk. apply S2.
      + intros h es. rewrite wt_get_hunk. apply W.
      + intros n G2 h. unfold at' in G2. rewrite get_set_same in G2. rewrite wt_get_hunk.
        destruct Hx as [->| ->]; [discriminate|]. inversion G2; subst n. rewrite A. split.
        * intros L. destruct (C h L) as [es [G _]]. exists es. exact G.
        * apply B.
    - apply (ConfBand_frame a at' b); [| |apply HCo].
      + intros h. apply wt_get_hunk.
      + apply get_set_other. intros E. inversion E. apply Nb. auto.
  Qed.

  Lemma wt_NewFromSrc a0 c src : NewFromSrc a0 c src a -> NewFromSrc a0 c src at'.
  Proof. intros HN b h es Hb G2. rewrite wt_get_hunk in G2. eapply HN; eauto. Qed.
End WriteTail.

(* a band that has no index file at all: the writer state a backup starts with *)
Lemma CInv_initial P U a id ex :
  (forall h, get a (PHunk id h) = None) -> get a (PTail id) = None ->
  CInv P U a {| w_band := id; w_entries := []; w_seq := 0; w_hunks := 0;
                w_buf := []; w_queue := []; w_fin := []; w_exists := ex;
                w_errors := 0; w_merr := 0; w_written := 0; w_deleted := 0 |}.
Proof.
  intros Hh Ht.
  assert (HW : forall x, ~ Written a id x).
  { intros x (h & es & e & G & _). rewrite Hh in G. discriminate. }
  unfold CInv, ppaths, EInv. wsimpl. cbn [map app].
  split; [reflexivity|]. split; [intros h _; apply Hh|]. split; [intros h L; lia|].
  split; [exact Ht|]. split; [constructor|]. split; [intros p []|].
  split; [intros x u Hx; destruct (HW x Hx)|].
  split; [repeat split; constructor|].
  intros h es G. rewrite Hh in G. discriminate.
Qed.

(* ------------------------------------------------------------------------- *)
(** * 5. The stitched basis reader: what it yields was read from a hunk        *)
(* ------------------------------------------------------------------------- *)
Section ReaderP.
  Variable pre : bytes -> N.
  Variable J : arch -> Prop.
  Variable P : entry -> Prop.
  Variables keep skip : entry -> bool.
  Variable a : arch.
  Hypothesis HJ : J a.
  Hypothesis HP : forall b h es, get a (PHunk b h) = Some (Good (PlHunk es)) -> Forall P es.

  Notation safe := (Inv.safe pre J).
  Definition SQP (r : sres) (a' : arch) : Prop := a' = a /\ sresP P r.

  Lemma list_subdirs_P b subs : forall acc kfail k,
    safe SQP kfail a -> (forall hs, safe SQP (k hs) a) -> safe SQP (list_subdirs b subs acc kfail k) a.
  Proof.
    induction subs as [|s subs IH]; intros acc kfail k Hf Hk; cbn [list_subdirs]; auto.
    apply isafe_read; [exact Logic.I | exact HJ|]. intros rep _. destruct rep; auto.
  Qed.

  Lemma hunks_loop_P n hs : forall after last acc merr k,
    Forall P acc ->
    (forall l acc' m, Forall P acc' -> safe SQP (k l acc' m) a) ->
    safe SQP (hunks_loop keep skip n hs after last acc merr k) a.
  Proof.
    induction hs as [|h hs IH]; intros after last acc merr k Ha Hk; cbn [hunks_loop]; auto.
    apply isafe_read; [exact Logic.I | exact HJ|]. intros rep Hr.
    destruct rep as [|e|c|ds fs|ne]; auto.
    - destruct e; auto.
    - destruct c as [p| |]; auto. destruct p as [|v|t|es|c]; auto.
      cbn [reply_ok] in Hr. pose proof (HP _ _ _ Hr) as Hes.
      destruct (hunk_step str apath_cmp entry e_apath (Some es) after) as [[out|] after'] eqn:E; auto.
      pose proof (hstep_Forall P _ _ _ _ E Hes) as Hout.
      destruct (scan_buf keep skip out acc) as [acc' o] eqn:Es.
      destruct (scan_buf_Forall P _ _ _ _ _ _ Es Hout Ha) as [Hacc' Ho].
      destruct o as [[e buf']|]; auto.
      destruct Ho as [He Hb]. cbn [Inv.safe]. split; [reflexivity|].
      cbn [sresP optP SInvP]. auto.
  Qed.

  Lemma open_band_P n last acc merr k :
    Forall P acc ->
    (forall l acc' m, Forall P acc' -> safe SQP (k l acc' m) a) ->
    safe SQP (open_band keep skip n last acc merr k) a.
  Proof.
    intros Ha Hk. unfold open_band.
    apply isafe_read; [exact Logic.I | exact HJ|]. intros rep _.
    destruct (head_status rep); auto; [|exact Logic.I].
    apply isafe_read; [exact Logic.I | exact HJ|]. intros rep2 _.
    destruct rep2; auto.
    apply list_subdirs_P; auto. intros hs.
    apply isafe_read; [exact Logic.I | exact HJ|]. intros rep3 _.
    apply hunks_loop_P; auto.
  Qed.

  Lemma after_band_P n below last acc merr :
    Forall P acc ->
    (forall l acc' m, Forall P acc' -> safe SQP (below l acc' m) a) ->
    safe SQP (after_band n below last acc merr) a.
  Proof.
    intros Ha Hb. unfold after_band.
    apply isafe_read; [exact Logic.I | exact HJ|]. intros rep _.
    destruct (meta_is_closed rep); auto.
    cbn [Inv.safe]. split; [reflexivity|]. cbn [sresP optP SInvP]. auto.
  Qed.

  Lemma below_P n : forall last acc merr,
    Forall P acc -> safe SQP (below keep skip n last acc merr) a.
  Proof.
    induction n as [|m IH]; intros last acc merr Ha; cbn [below].
    - cbn [Inv.safe]. split; [reflexivity|]. cbn [sresP optP SInvP]. auto.
    - apply isafe_read; [exact Logic.I | exact HJ|]. intros rep _.
      destruct (meta_is_file rep); auto.
      apply open_band_P; auto. intros l acc' m' Ha'. apply after_band_P; auto.
  Qed.

  Lemma snext_P st last merr : SInvP P st -> safe SQP (snext keep skip st last merr) a.
  Proof.
    intros Hs. unfold snext. destruct st as [|n|n hs buf after|n].
    - cbn [Inv.safe]. split; [reflexivity|]. cbn [sresP optP SInvP]. auto.
    - apply open_band_P; auto. intros. apply after_band_P; auto. intros. apply below_P; auto.
    - cbn [SInvP] in Hs.
      destruct (scan_buf keep skip buf []) as [acc o] eqn:Es.
      destruct (scan_buf_Forall P _ _ _ _ _ _ Es Hs (Forall_nil _)) as [Hacc Ho].
      destruct o as [[e buf']|].
      + destruct Ho as [He Hb]. cbn [Inv.safe]. split; [reflexivity|]. cbn [sresP optP SInvP]. auto.
      + apply hunks_loop_P; auto. intros. apply after_band_P; auto. intros. apply below_P; auto.
    - apply after_band_P; auto. intros. apply below_P; auto.
  Qed.
End ReaderP.

(* ------------------------------------------------------------------------- *)
(** * 6. Pure facts about the writer-state updates                            *)
(* ------------------------------------------------------------------------- *)

Lemma meta_from_apath owner s : e_apath (meta_from owner s) = s_apath s.
Proof. unfold meta_from. destruct (enc_time_floor (s_mtime s)). reflexivity. Qed.
Lemma meta_from_kind owner s : e_kind (meta_from owner s) = s_kind s.
Proof. unfold meta_from. destruct (enc_time_floor (s_mtime s)). reflexivity. Qed.
Lemma meta_from_target owner s : e_target (meta_from owner s) = s_target s.
Proof. unfold meta_from. destruct (enc_time_floor (s_mtime s)). reflexivity. Qed.
Lemma with_addrs_same e : with_addrs e (e_addrs e) = e.
Proof. destruct e. reflexivity. Qed.

Lemma push_entry_Trans w e : Trans (eq e) [e_apath e] w (push_entry w e).
Proof.
  unfold Trans. wsimpl. split; [reflexivity|]. split; [reflexivity|]. split; [reflexivity|]. split.
  - intros P (H1 & H2 & H3) Hc. unfold EInv. wsimpl. split; [|auto].
    apply Forall_app. split; [exact H1|]. constructor; [apply Hc; reflexivity | constructor].
  - exists []. rewrite app_nil_r. unfold ppaths. wsimpl. rewrite map_app. cbn [map app].
    rewrite <- app_assoc. cbn [app]. apply Permutation_middle.
Qed.

Lemma push_fin_Trans w e :
  Trans (candq e []) [e_apath e] w (upd_comb w (w_buf w) (w_queue w) (w_fin w ++ [e])).
Proof.
  unfold Trans. wsimpl. split; [reflexivity|]. split; [reflexivity|]. split; [reflexivity|]. split.
  - intros P (H1 & H2 & H3) Hc. unfold EInv. wsimpl. split; [exact H1|]. split; [|exact H3].
    apply Forall_app. split; [exact H2|]. constructor; [|constructor]. apply Hc. left. auto.
  - exists []. rewrite app_nil_r. unfold ppaths. wsimpl. rewrite map_app. cbn [map app].
    rewrite <- app_assoc. cbn [app]. rewrite !app_assoc. apply Permutation_middle.
Qed.

Lemma push_queue_Trans w e data buf st :
  data <> [] ->
  Trans (candq e data) [e_apath e] w
        (upd_comb w buf (w_queue w ++ [(st, N.of_nat (length data), e)]) (w_fin w)).
Proof.
  intros Hd.
  unfold Trans. wsimpl. split; [reflexivity|]. split; [reflexivity|]. split; [reflexivity|]. split.
  - intros P (H1 & H2 & H3) Hc. unfold EInv. wsimpl. split; [exact H1|]. split; [exact H2|].
    apply Forall_app. split; [exact H3|]. constructor; [|constructor].
    intros blk. apply Hc. right. split; [exact Hd|]. exists blk, st. reflexivity.
  - exists []. rewrite app_nil_r. unfold ppaths. wsimpl. rewrite map_app. cbn [map app fst snd].
    rewrite !app_assoc. apply Permutation_cons_append.
Qed.

(* a successful flush of the combiner: the queued files are finished, under their apaths *)
Lemma flush_ok_Trans w w1 blk :
  SameIdx (upd_comb w [] [] (w_fin w)) w1 ->
  Trans nocand [] w (upd_comb w1 [] [] (w_fin w1 ++ map (queued_entry blk) (w_queue w))).
Proof.
  intros (S1 & S2 & S3 & S4 & S5 & S6 & S7). wsimpl.
  unfold Trans. wsimpl. split; [exact S1|]. split; [exact S2|]. split; [exact S3|]. split.
  - intros P (H1 & H2 & H3) _. unfold EInv. wsimpl. rewrite S4, S5.
    split; [exact H1|]. split; [|constructor].
    apply Forall_app. split; [exact H2|]. rewrite Forall_map.
    eapply Forall_impl; [|exact H3]. intros q Hq. apply Hq.
  - exists []. rewrite app_nil_r. unfold ppaths. wsimpl. rewrite S4, S5. cbn [app map].
    rewrite map_app, map_queued_apath, app_nil_r. apply Permutation_refl.
Qed.

(* a failed flush drops the queued files *)
Lemma flush_fail_Trans w w1 :
  SameIdx (upd_comb w [] [] (w_fin w)) w1 -> Trans nocand [] w w1.
Proof.
  intros (S1 & S2 & S3 & S4 & S5 & S6 & S7). wsimpl.
  unfold Trans. split; [exact S1|]. split; [exact S2|]. split; [exact S3|]. split.
  - intros P (H1 & H2 & H3) _. unfold EInv. rewrite S4, S5, S6. repeat split; auto.
  - exists (map (fun q => e_apath (snd q)) (w_queue w)). unfold ppaths. rewrite S4, S5, S6.
    cbn [app map]. rewrite app_nil_r, <- !app_assoc. apply Permutation_refl.
Qed.

(* flush_group hands the finished files to the index writer *)
Lemma merge_fin_Trans w :
  Trans nocand [] w (upd_comb (upd_index w (w_entries w ++ w_fin w) (w_seq w) (w_hunks w))
                              (w_buf w) (w_queue w) []).
Proof.
  unfold Trans. wsimpl. split; [reflexivity|]. split; [reflexivity|]. split; [reflexivity|]. split.
  - intros P (H1 & H2 & H3) _. unfold EInv. wsimpl. split; [apply Forall_app; auto|].
    split; [constructor | exact H3].
  - exists []. rewrite app_nil_r. unfold ppaths. wsimpl. cbn [app map].
    rewrite map_app, <- app_assoc. apply Permutation_refl.
Qed.

Lemma SameIdx_upd_blocks w ex wr : SameIdx w (upd_blocks w ex wr).
Proof. unfold SameIdx. wsimpl. repeat split; reflexivity. Qed.

(* whatever [copy_entry] makes of a well-formed source item is a well-formed entry under the
   item's apath, made from that item *)
Lemma made_PE (cf : cfg) (src0 : list sitem) basis it x :
  In it src0 -> ItemWF it -> is_valid (spath it) = true -> optP EWF basis ->
  made cf basis it x ->
  (EWF x /\ FromSrc cf src0 x) /\ e_apath x = spath it.
Proof.
  intros Hin [Wt Wd] Hv Hb Hm. unfold made in Hm. unfold spath in *.
  set (s := si_e it) in *. set (e := meta_from (c_owner cf) s) in *.
  assert (Ea : e_apath e = s_apath s) by apply meta_from_apath.
  assert (Ek : e_kind e = s_kind s) by apply meta_from_kind.
  assert (Et : e_target e = s_target s) by apply meta_from_target.
  assert (Ead : e_addrs e = []) by apply meta_from_addrs.
  (* the entry without addresses *)
  assert (Hplain : s_kind s <> KUnknown -> (s_kind s = KFile -> s_size s = 0) ->
                   (EWF e /\ FromSrc cf src0 e) /\ e_apath e = s_apath s).
  { intros Hk Hsz. split; [split|exact Ea].
    - unfold EWF. rewrite Ea, Ek, Et, Ead. repeat split; auto.
    - exists it. fold s. fold e. split; [exact Hin|]. split; [symmetry; apply with_addrs_same|].
      intros K _. unfold e_size. rewrite Ead. cbn [fold_right]. symmetry. auto. }
  (* the entry with addresses, for a file *)
  assert (Hfile : forall l, s_kind s = KFile -> Forall (fun ad => 0 < a_len ad) l ->
                    (0 < c_mbs cf -> fold_right (fun ad acc => a_len ad + acc) 0 l = s_size s) ->
                    (EWF (with_addrs e l) /\ FromSrc cf src0 (with_addrs e l))
                    /\ e_apath (with_addrs e l) = s_apath s).
  { intros l K Hl Hsz. split; [split|exact Ea].
    - unfold EWF. cbn [with_addrs e_apath e_kind e_target e_addrs]. rewrite Ea, Ek, Et, K.
      split; [exact Hv|]. split; [discriminate|]. split; [congruence|]. split; [|exact Hl].
      intros T. specialize (Wt T). fold s in Wt. congruence.
    - exists it. fold s. fold e. split; [exact Hin|]. split; [reflexivity|].
      intros _ Hm0. unfold e_size. cbn [with_addrs e_addrs]. auto. }
  destruct (s_kind s) eqn:K.
  - destruct Hm as [(b & -> & Hsz & ->)|[(Hsz & ->)|[(Hd & ->)|[(Hd & blk & st & ->)|(Hsz & ->)]]]].
    + apply Hfile; [reflexivity | | intros _; exact Hsz].
      cbn [optP] in Hb. destruct Hb as (_ & _ & _ & _ & Hl). exact Hl.
    + apply Hplain; [discriminate | auto].
    + apply Hplain; [discriminate|]. intros _. rewrite <- (Wd eq_refl), Hd. reflexivity.
    + change (set_addrs e ?l) with (with_addrs e l).
      assert (Hpos : 0 < N.of_nat (length (si_data it))).
      { destruct (si_data it); [congruence | cbn [length]; lia]. }
      apply Hfile; [reflexivity | constructor; [exact Hpos | constructor] |].
      intros _. cbn [fold_right a_len]. rewrite <- (Wd eq_refl). lia.
    + apply Hfile; [reflexivity | |].
      * rewrite Forall_map. apply Forall_forall. intros ch Hch.
        apply chunks_nonempty in Hch. cbn [chunk_addr a_len]. destruct ch; [congruence | cbn [length]; lia].
      * intros Hm0. change (map chunk_addr (chunks ?n ?d)) with (file_addrs n d).
        rewrite file_addrs_size; [apply (Wd eq_refl)|].
        unfold block_size_nat. lia.
  - subst x. apply Hplain; [discriminate | discriminate].
  - subst x. apply Hplain; [discriminate | discriminate].
  - contradiction.
Qed.

(* ------------------------------------------------------------------------- *)
(** * 7. The writer: every sub-program of the backup                          *)
(* ------------------------------------------------------------------------- *)
Section WriterC.
  Variable pre : bytes -> N.
  Variables (a0 : arch) (cf : cfg) (src0 : list sitem).

  (* the invariant of the archive state *)
  Definition J (a : arch) : Prop := Conf a /\ NewFromSrc a0 cf src0 a.
  (* what every pending entry and every entry of the new band satisfies *)
  Definition PE (e : entry) : Prop := EWF e /\ FromSrc cf src0 e.

  Notation safe := (Inv.safe pre J).

  Lemma J_BandEq a a' : BandEq a a' -> J a -> J a'.
  Proof. intros HB [H1 H2]. split; [eapply Conf_BandEq | eapply NewFromSrc_BandEq]; eauto. Qed.

  (* the rule for operations that touch no index file *)
  Lemma csafe_neutral {R} (Q : R -> arch -> Prop) o (k : reply -> prog R) (a : arch) :
    neutral o -> J a ->
    (forall flt, BandEq a (fst (exec pre a o flt)) ->
                 safe Q (k (snd (exec pre a o flt))) (fst (exec pre a o flt))) ->
    safe Q (Do o k) a.
  Proof.
    intros Ho HJ Hk. cbn [Inv.safe]. split.
    - intros f. pose proof (exec_neutral_BandEq pre a o f Ho) as HB.
      split; [eapply J_BandEq; eauto | apply Hk; exact HB].
    - eapply J_BandEq; [apply exec_empty_neutral_BandEq; exact Ho | exact HJ].
  Qed.

  Lemma store_block_conf w blk a :
    J a -> safe (fun rw a' => BandEq a a' /\ SameIdx w (snd rw)) (store_block pre w blk) a.
  Proof.
    intros HJ. unfold store_block. destruct (mem_bytes blk (w_exists w)).
    - cbn [Inv.safe snd]. split; [apply BandEq_refl | apply SameIdx_refl].
    - apply csafe_neutral; [exact Logic.I | exact HJ|]. intros f1 HB1.
      destruct (is_ok (snd (exec pre a (OpMkdir (DBlockSub (pre blk))) f1))).
      + apply csafe_neutral; [exact Logic.I | eapply J_BandEq; eauto|]. intros f2 HB2.
        match goal with |- Inv.safe _ _ _ (if ?x then _ else _) _ => destruct x end;
          cbn [Inv.safe snd]; (split; [eapply BandEq_trans; eauto|]).
        * apply SameIdx_upd_blocks.
        * apply SameIdx_refl.
      + cbn [Inv.safe snd]. split; [exact HB1 | apply SameIdx_refl].
  Qed.

  Lemma comb_flush_conf w a :
    J a ->
    safe (fun rw a' => BandEq a a' /\ Trans nocand [] w (snd rw) /\ w_queue (snd rw) = [])
         (comb_flush pre w) a.
  Proof.
    intros HJ. unfold comb_flush. destruct (w_queue w) as [|q0 q] eqn:Eq.
    - cbn [Inv.safe snd]. split; [apply BandEq_refl|]. split; [apply Trans_refl | exact Eq].
    - eapply isafe_bind; [|exact HJ | apply store_block_conf; exact HJ].
      intros [ok w'] a1 HJ1 [HB1 HS]. cbn [snd] in HS.
      destruct ok; cbn [Inv.safe snd]; (split; [exact HB1|]).
      + split; [|reflexivity]. rewrite <- Eq. apply flush_ok_Trans. exact HS.
      + split; [apply flush_fail_Trans; exact HS|].
        destruct HS as (_ & _ & _ & _ & _ & S6 & _). exact S6.
  Qed.

  Lemma comb_push_conf w e data a :
    J a ->
    safe (fun rw a' => BandEq a a' /\ Trans (candq e data) [e_apath e] w (snd rw))
         (comb_push pre cf w e data) a.
  Proof.
    intros HJ. unfold comb_push. destruct data as [|x data].
    - cbn [Inv.safe snd]. split; [apply BandEq_refl | apply push_fin_Trans].
    - set (d := x :: data) in *.
      assert (Hd : d <> []) by discriminate.
      pose proof (push_queue_Trans w e d (w_buf w ++ d) (N.of_nat (length (w_buf w))) Hd) as HT.
      match goal with |- Inv.safe _ _ _ (if ?b then _ else _) _ => destruct b end.
      + eapply isafe_weaken; [|exact HJ | apply comb_flush_conf; exact HJ].
        intros rw a1 _ (HB1 & HT1 & _). split; [exact HB1|].
        apply (Trans_trans _ _ _ _ _ _ _ _ HT HT1); [auto | intros y []].
      + cbn [Inv.safe snd]. split; [apply BandEq_refl | exact HT].
  Qed.

  Lemma store_chunks_conf cs : forall w acc a,
    J a ->
    safe (fun rw a' => BandEq a a' /\ SameIdx w (snd rw)
                       /\ (forall addrs, fst rw = Some addrs -> addrs = acc ++ map chunk_addr cs))
         (store_chunks pre w cs acc) a.
  Proof.
    induction cs as [|ch cs IH]; intros w acc a HJ; cbn [store_chunks].
    - cbn [Inv.safe fst snd]. split; [apply BandEq_refl|]. split; [apply SameIdx_refl|].
      intros addrs E. inversion E. cbn [map]. rewrite app_nil_r. reflexivity.
    - eapply isafe_bind; [|exact HJ | apply store_block_conf; exact HJ].
      intros [ok w'] a1 HJ1 [HB1 HS1]. cbn [snd] in HS1.
      destruct ok.
      + eapply isafe_weaken; [|exact HJ1 | apply IH; exact HJ1].
        intros rw a2 _ (HB2 & HS2 & Hr). split; [eapply BandEq_trans; eauto|].
        split; [eapply SameIdx_trans; eauto|].
        intros addrs E. rewrite (Hr addrs E). cbn [map]. rewrite <- app_assoc. reflexivity.
      + cbn [Inv.safe fst snd]. split; [exact HB1|]. split; [exact HS1 | discriminate].
  Qed.

  Lemma eq_made_Trans basis it w x :
    made cf basis it x -> e_apath x = spath it ->
    Trans (made cf basis it) [spath it] w (push_entry w x).
  Proof.
    intros Hm <-. eapply Trans_weaken; [|apply push_entry_Trans]. intros y <-. exact Hm.
  Qed.

  Lemma copy_entry_conf w basis it a :
    J a ->
    safe (fun rw a' => BandEq a a' /\ Trans (made cf basis it) [spath it] w (snd rw))
         (copy_entry pre cf w basis it) a.
  Proof.
    intros HJ. unfold copy_entry.
    set (s := si_e it). set (e := meta_from (c_owner cf) s).
    assert (Ea : forall l, e_apath (with_addrs e l) = spath it)
      by (intros l; apply meta_from_apath).
    assert (Ea' : e_apath e = spath it) by apply meta_from_apath.
    assert (Hpush : forall x, made cf basis it x -> e_apath x = spath it ->
              safe (fun rw a' => BandEq a a' /\ Trans (made cf basis it) [spath it] w (snd rw))
                   (Ret (true, push_entry w x)) a).
    { intros x Hm Hx. cbn [Inv.safe snd]. split; [apply BandEq_refl | apply eq_made_Trans; auto]. }
    destruct (s_kind s) eqn:K.
    - (* a file *)
      match goal with |- Inv.safe _ _ _ (match ?x with _ => _ end) _ => destruct x as [addrs|] eqn:Er end.
      + destruct basis as [b|]; [|discriminate].
        destruct (unchanged w s b && blocks_present w b) eqn:Eu; [|discriminate].
        inversion Er; subst addrs. apply Hpush; [|apply Ea].
        unfold made. fold s. fold e. rewrite K. left. exists b. split; [reflexivity|]. split; [|reflexivity].
        apply andb_true_iff in Eu. destruct Eu as [Eu _]. unfold unchanged in Eu.
        apply andb_true_iff in Eu. destruct Eu as [_ Eu]. apply N.eqb_eq. exact Eu.
      + destruct (s_size s =? 0) eqn:Ez.
        { apply Hpush; [|exact Ea']. unfold made. fold s. fold e. rewrite K. right. left.
          split; [apply N.eqb_eq; exact Ez | reflexivity]. }
        destruct (s_size s <=? c_sfc cf).
        { eapply isafe_weaken; [|exact HJ | apply comb_push_conf; exact HJ].
          intros rw a1 _ [HB1 HT1]. split; [exact HB1|].
          rewrite Ea' in HT1. eapply Trans_weaken; [|exact HT1].
          intros y [[Hd ->]|[Hd (blk & st & ->)]]; unfold made; fold s; fold e; rewrite K.
          - right. right. left. auto.
          - right. right. right. left. split; [exact Hd|]. exists blk, st. reflexivity. }
        eapply isafe_bind; [|exact HJ | apply store_chunks_conf; exact HJ].
        intros [o w'] a1 HJ1 (HB1 & HS1 & Hr). cbn [fst snd] in *.
        destruct o as [addrs|]; cbn [Inv.safe snd]; (split; [exact HB1|]).
        * rewrite (Hr addrs eq_refl). cbn [app].
          eapply (Trans_trans nocand [] (made cf basis it) [spath it] (made cf basis it));
            [apply SameIdx_Trans; exact HS1 | | intros y [] | auto].
          apply eq_made_Trans; [|apply Ea].
          unfold made. fold s. fold e. rewrite K. right. right. right. right.
          split; [apply N.eqb_neq; exact Ez | reflexivity].
        * apply Trans_drop. apply SameIdx_Trans. exact HS1.
    - apply Hpush; [|exact Ea']. unfold made. fold s. fold e. rewrite K. reflexivity.
    - apply Hpush; [|exact Ea']. unfold made. fold s. fold e. rewrite K. reflexivity.
    - cbn [Inv.safe snd]. split; [apply BandEq_refl|]. apply Trans_drop. apply Trans_refl.
  Qed.
End WriterC.

Section WriterD.
  Variable pre : bytes -> N.
  Variables (a0 : arch) (cf : cfg) (src0 : list sitem).
  Notation J := (J a0 cf src0).
  Notation PE := (PE cf src0).
  Notation safe := (Inv.safe pre J).

  Lemma PE_EWF e : PE e -> EWF e.
  Proof. intros [H _]. exact H. Qed.
  Lemma PE_FromSrc e : PE e -> FromSrc cf src0 e.
  Proof. intros [_ H]. exact H. Qed.

  (* IndexWriter::finish_hunk, called with an empty combiner *)
  Lemma finish_hunk_conf U w a :
    J a -> CInv PE U a w -> w_fin w = [] -> w_queue w = [] ->
    safe (fun rw a' => CInv PE U a' (snd rw)) (finish_hunk w) a.
  Proof.
    intros HJ HC Hfin Hq. unfold finish_hunk. destruct (w_entries w) as [|e0 es] eqn:Ee.
    - cbn [Inv.safe snd]. exact HC.
    - rewrite <- Ee.
      assert (Hne : w_entries w <> []) by (rewrite Ee; discriminate).
      assert (Hwrite : forall a1, J a1 -> CInv PE U a1 w ->
        safe (fun rw a' => CInv PE U a' (snd rw))
          (Do (OpWrite (PHunk (w_band w) (w_seq w)) (PlHunk (sort_entries (w_entries w))) CreateNew) (fun r =>
             if is_ok r then Ret (true, upd_index w [] (w_seq w + 1) (w_hunks w + 1)) else Ret (false, w))) a1).
      { intros a1 [HCo1 HN1] HC1.
        assert (G : get a1 (PHunk (w_band w) (w_seq w)) = None).
        { destruct HC1 as (_ & B & _). apply B. lia. }
        cbn [Inv.safe]. split.
        - intros flt.
          destruct (exec_write_new pre a1 _ (PlHunk (sort_entries (w_entries w))) flt G) as [[E1 E2]|[E1 E2]];
            rewrite E1, E2; cbn [Inv.safe snd].
          + split; [split; assumption | exact HC1].
          + split; [split|].
            * apply (nh_Conf PE U a1 w HC1 Hfin Hq Hne PE_EWF HCo1).
            * apply (nh_NewFromSrc PE U a1 w HC1 a0 cf src0 PE_FromSrc HN1).
            * apply (nh_CInv PE U a1 w HC1 Hfin Hq Hne).
        - destruct (exec_empty_write_new pre a1 _ (PlHunk (sort_entries (w_entries w))) CreateNew G) as [E|E];
            rewrite E; [split; assumption|].
          split; [apply (ne_Conf PE U a1 w HC1 HCo1) | apply (ne_NewFromSrc a1 w a0 cf src0 HN1)]. }
      destruct (w_seq w mod HUNKS_PER_SUBDIR =? 0).
      + apply csafe_neutral; [exact Logic.I | exact HJ|]. intros f1 HB1.
        destruct (is_ok (snd (exec pre a (OpMkdir (DHunkSub (w_band w) (w_seq w / HUNKS_PER_SUBDIR))) f1))).
        * apply Hwrite; [eapply J_BandEq; eauto | eapply CInv_BandEq; eauto].
        * cbn [Inv.safe snd]. eapply CInv_BandEq; eauto.
      + apply Hwrite; assumption.
  Qed.

  (* BackupWriter::flush_group *)
  Lemma flush_group_conf U w a :
    J a -> CInv PE U a w ->
    safe (fun rw a' => CInv PE U a' (snd rw)) (flush_group pre w) a.
  Proof.
    intros HJ HC. unfold flush_group.
    eapply isafe_bind; [|exact HJ | apply comb_flush_conf; exact HJ].
    intros [ok w1] a1 HJ1 (HB1 & HT1 & Hq1). cbn [snd] in *.
    assert (HC1 : CInv PE U a1 w1).
    { eapply CInv_Trans0; [exact HT1|]. eapply CInv_BandEq; eauto. }
    destruct ok.
    - apply finish_hunk_conf; [exact HJ1 | | reflexivity | exact Hq1].
      eapply CInv_Trans0; [apply merge_fin_Trans | exact HC1].
    - cbn [Inv.safe snd]. exact HC1.
  Qed.

  Lemma conf_hunks_EWF a :
    J a -> forall b h es, get a (PHunk b h) = Some (Good (PlHunk es)) -> Forall EWF es.
  Proof. intros [HCo _] b h es G. destruct (HCo b) as (_ & _ & W & _). eapply W; eauto. Qed.

  (* Band::close: the tail counts the hunks written *)
  Lemma write_tail_conf U w a (k : reply -> prog bres) :
    J a -> CInv PE U a w -> (forall r a', safe QT (k r) a') ->
    safe QT (Do (OpWrite (PTail (w_band w)) (PlTail (Some (w_hunks w))) CreateNew) k) a.
  Proof.
    intros [HCo HN] HC Hk.
    assert (G : get a (PTail (w_band w)) = None) by (destruct HC as (_ & _ & _ & D & _); exact D).
    cbn [Inv.safe]. split.
    - intros flt.
      destruct (exec_write_new pre a _ (PlTail (Some (w_hunks w))) flt G) as [[E1 E2]|[E1 E2]]; rewrite E1.
      + split; [split; assumption | apply Hk].
      + split; [|apply Hk]. split.
        * apply (wt_Conf PE U a w HC _ (or_intror eq_refl) HCo).
        * apply (wt_NewFromSrc a w _ a0 cf src0 HN).
    - destruct (exec_empty_write_new pre a _ (PlTail (Some (w_hunks w))) CreateNew G) as [E|E];
        rewrite E; [split; assumption|]. split.
      + apply (wt_Conf PE U a w HC _ (or_introl eq_refl) HCo).
      + apply (wt_NewFromSrc a w _ a0 cf src0 HN).
  Qed.

  Lemma SrcSorted_inv it src :
    SrcSorted (it :: src) -> SrcSorted src /\ forall u, In u (map spath src) -> plt (spath it) u.
  Proof.
    unfold SrcSorted. cbn [map]. intros H. inversion H as [|? ? H1 H2]; subst.
    split; [exact H1|]. rewrite Forall_forall in H2. exact H2.
  Qed.

  Lemma merge_loop_conf src : forall peek st last w a,
    SrcSorted src -> SrcValid src -> SrcWF src -> incl src src0 ->
    J a -> CInv PE (map spath src) a w -> SInvP EWF st -> optP EWF peek ->
    safe QT (merge_loop pre cf src peek st last w) a.
  Proof.
    induction src as [|it src IH]; intros peek st last w a Hs Hv Hw Hi HJ HC HS HP; cbn [merge_loop].
    - eapply isafe_bind; [|exact HJ | apply (snext_P pre J EWF); [exact HJ | apply conf_hunks_EWF; exact HJ | exact HS]].
      intros [[[[skipped na] st'] last'] merr] a' _ [-> _].
      eapply isafe_bind; [|exact HJ | apply (flush_group_conf [] _ a HJ); exact HC].
      intros [ok w2] a2 HJ2 HC2. cbn [snd] in HC2.
      destruct ok; [|exact Logic.I].
      apply (write_tail_conf [] w2 a2); [exact HJ2 | exact HC2|].
      intros r a3. destruct (is_ok r); exact Logic.I.
    - destruct (SrcSorted_inv _ _ Hs) as [Hs' Hlt].
      inversion Hv as [|? ? Hv1 Hv']; subst. inversion Hw as [|? ? Hw1 Hw']; subst.
      assert (Hin : In it src0) by (apply Hi; left; reflexivity).
      assert (Hi' : incl src src0) by (intros x Hx; apply Hi; right; exact Hx).
      (* the continuation after the basis has been advanced *)
      assert (Hk : forall (skipped : list entry) na st' last' merr,
        optP EWF na -> SInvP EWF st' ->
        safe QT
          (let w0 := upd_counts w (w_errors w) merr (w_deleted w + N.of_nat (length skipped)) in
           let '(basis, na') :=
             match na with
             | Some e => match apath_cmp (e_apath e) (s_apath (si_e it)) with
                         | Eq => (Some e, None) | _ => (None, na) end
             | None => (None, None)
             end in
           bind (copy_entry pre cf w0 basis it) (fun rw =>
             let '(ok, w1) := rw in
             let w2 := if ok then w1 else upd_counts w1 (w_errors w1 + 1) (w_merr w1 + 1) (w_deleted w1) in
             if ok && (c_meph cf <=? N.of_nat (length (w_entries w2)) + N.of_nat (length (w_queue w2))) then
               bind (flush_group pre w2) (fun rw2 =>
                 let '(ok2, w3) := rw2 in
                 if ok2 then merge_loop pre cf src na' st' last' w3 else Ret (fail w3))
             else merge_loop pre cf src na' st' last' w2)) a).
      { intros skipped na st' last' merr Hna Hst'. cbv zeta.
        match goal with |- Inv.safe _ _ _ (let '(_, _) := ?x in _) _ => destruct x as [basis na'] eqn:Ex end.
        assert (Hbn : optP EWF basis /\ optP EWF na').
        { destruct na as [e|]; [|inversion Ex; subst; cbn; auto].
          destruct (apath_cmp (e_apath e) (s_apath (si_e it))); inversion Ex; subst; cbn [optP]; auto. }
        destruct Hbn as [Hbasis Hna'].
        eapply isafe_bind; [|exact HJ | apply copy_entry_conf; exact HJ].
        intros [ok w1] a1 HJ1 [HB1 HT1]. cbn [snd] in HT1.
        assert (HC1 : CInv PE (map spath src) a1 w1).
        { eapply (CInv_Trans PE (made cf basis it) [spath it] (map spath (it :: src)));
            [exact HT1 | eapply CInv_BandEq; [exact HB1 | exact HC] | | | | |].
          - intros x Hx. apply (made_PE cf src0 basis it x Hin Hw1 Hv1 Hbasis Hx).
          - cbn [map]. apply incl_tl, incl_refl.
          - intros p [<-|[]]. left. reflexivity.
          - constructor; [intros [] | constructor].
          - intros p u [<-|[]] Hu. apply Hlt. exact Hu. }
        assert (HC2 : CInv PE (map spath src) a1
                        (if ok then w1 else upd_counts w1 (w_errors w1 + 1) (w_merr w1 + 1) (w_deleted w1)))
          by (destruct ok; exact HC1).
        match goal with |- Inv.safe _ _ _ (if ?x then _ else _) _ => destruct x end.
        - eapply isafe_bind; [|exact HJ1 | apply flush_group_conf; [exact HJ1 | exact HC2]].
          intros [ok2 w3] a2 HJ2 HC3. cbn [snd] in HC3.
          destruct ok2; [|exact Logic.I].
          apply IH; auto.
        - apply IH; auto. }
      assert (HPr : forall b h es, get a (PHunk b h) = Some (Good (PlHunk es)) -> Forall EWF es)
        by (apply conf_hunks_EWF; exact HJ).
      destruct peek as [e|].
      + match goal with |- Inv.safe _ _ _ (if ?x then _ else _) _ => destruct x end.
        * eapply isafe_bind; [|exact HJ | apply (snext_P pre J EWF); [exact HJ | exact HPr | exact HS]].
          intros [[[[skipped na] st'] last'] merr] a' _ [-> (_ & Hna & Hst')]. apply Hk; assumption.
        * exact (Hk [] (Some e) st last (w_merr w) HP HS).
      + eapply isafe_bind; [|exact HJ | apply (snext_P pre J EWF); [exact HJ | exact HPr | exact HS]].
        intros [[[[skipped na] st'] last'] merr] a' _ [-> (_ & Hna & Hst')]. apply Hk; assumption.
  Qed.

  Lemma list_blocks_conf subs : forall acc failed k a,
    J a -> (forall o, safe QT (k o) a) -> safe QT (list_blocks subs acc failed k) a.
  Proof.
    induction subs as [|s subs IH]; intros acc failed k a HJ Hk; cbn [list_blocks]; [apply Hk|].
    apply isafe_read; [exact Logic.I | exact HJ|]. intros rep _.
    destruct rep; apply IH; assumption.
  Qed.
End WriterD.

(* ------------------------------------------------------------------------- *)
(** * 8. The whole backup                                                     *)
(* ------------------------------------------------------------------------- *)

Lemma WFparents_NoOrphans pre a : WFparents pre a -> NoOrphans a.
Proof.
  intros [HF HD] b Hb.
  assert (Hidx : has_dir a (DIndex b) = false).
  { destruct (has_dir a (DIndex b)) eqn:E; [|reflexivity].
    apply has_dir_In in E. rewrite (HD _ (DBand b) E eq_refl) in Hb. discriminate. }
  split.
  - intros h. destruct (get a (PHunk b h)) as [x|] eqn:G; [|reflexivity].
    apply HF in G. cbn [parent_f] in G. apply has_dir_In in G.
    rewrite (HD _ (DIndex b) G eq_refl) in Hidx. discriminate.
  - destruct (get a (PTail b)) as [x|] eqn:G; [|reflexivity].
    apply HF in G. cbn [parent_f] in G. congruence.
Qed.

Lemma NoOrphans_NewFromSrc a c src : NoOrphans a -> NewFromSrc a c src a.
Proof. intros H b h es Hb G. destruct (H b Hb) as [Hh _]. rewrite Hh in G. discriminate. Qed.

Section WholeC.
  Variable pre : bytes -> N.

  Theorem backup_conf_safe cf src a :
    SrcSorted src -> SrcValid src -> SrcWF src -> Conf a -> NoOrphans a ->
    Inv.safe pre (J a cf src) QT (backup_prog pre cf src) a.
  Proof.
    intros Hs Hv Hw HCo HNo.
    assert (HJ : J a cf src a) by (split; [exact HCo | apply NoOrphans_NewFromSrc; exact HNo]).
    unfold backup_prog, open_archive.
    apply isafe_read; [exact Logic.I | exact HJ|]. intros r0 _.
    destruct r0 as [| |[[| | | |]| |]| |]; try exact Logic.I.
    apply isafe_read; [exact Logic.I | exact HJ|]. intros r _.
    destruct r as [|[| | |]| | |]; try exact Logic.I.
    apply isafe_read; [exact Logic.I | exact HJ|]. intros r1 _.
    destruct r1 as [| | |ds1 fs1|]; try exact Logic.I.
    apply isafe_read_raw; [exact Logic.I | exact HJ|]. intros flt2.
    destruct (snd (exec pre a (OpList DRoot) flt2)) as [| | |ds2 fs2|] eqn:E2; try exact Logic.I.
    cbv zeta.
    set (id := match max_id (band_ids ds2) with Some m => m + 1 | None => 0 end).
    (* the new band has no index file yet *)
    assert (Hfresh : has_dir a (DBand id) = false).
    { destruct (has_dir a (DBand id)) eqn:Hd; [|reflexivity].
      pose proof (next_id_fresh _ _ (list_root_complete pre _ _ _ _ _ E2 Hd)) as L. fold id in L. lia. }
    destruct (HNo id Hfresh) as [Hh Ht].
    apply csafe_neutral; [exact Logic.I | exact HJ|]. intros f3 HB3.
    destruct (is_ok (snd (exec pre a (OpMkdir (DBand id)) f3))); [|exact Logic.I].
    set (a3 := fst (exec pre a (OpMkdir (DBand id)) f3)) in *.
    assert (HJ3 : J a cf src a3) by (eapply J_BandEq; eauto).
    apply csafe_neutral; [exact Logic.I | exact HJ3|]. intros f4 HB4.
    destruct (is_ok (snd (exec pre a3 (OpMkdir (DIndex id)) f4))); [|exact Logic.I].
    set (a4 := fst (exec pre a3 (OpMkdir (DIndex id)) f4)) in *.
    assert (HJ4 : J a cf src a4) by (eapply J_BandEq; eauto).
    apply csafe_neutral; [exact Logic.I | exact HJ4|]. intros f5 HB5.
    destruct (is_ok (snd (exec pre a4 (OpWrite (PHead id) (PlHead HvOk) CreateNew) f5))); [|exact Logic.I].
    set (a5 := fst (exec pre a4 (OpWrite (PHead id) (PlHead HvOk) CreateNew) f5)) in *.
    assert (HJ5 : J a cf src a5) by (eapply J_BandEq; eauto).
    assert (HB : BandEq a a5) by (eapply BandEq_trans; [eapply BandEq_trans|]; eauto).
    apply isafe_read; [exact Logic.I | exact HJ5|]. intros r5b _.
    destruct r5b as [| | |ds5 fs5|]; try exact Logic.I.
    destruct (existsb (fun p => fpath_eqb (fst p) PLock) fs5); [exact Logic.I|].
    apply isafe_read; [exact Logic.I | exact HJ5|]. intros r6 _.
    destruct r6 as [| | |ds3 fs3|]; try exact Logic.I.
    apply list_blocks_conf; [exact HJ5|].
    intros [ex|]; [|exact Logic.I].
    apply merge_loop_conf; auto using incl_refl.
    - apply CInv_initial.
      + intros h. destruct (HB id) as [HBh _]. rewrite HBh. apply Hh.
      + destruct (HB id) as [_ HBt]. rewrite HBt. exact Ht.
    - destruct (max_id (band_ids ds1)); exact Logic.I.
    - exact Logic.I.
  Qed.

  (** MAIN THEOREM (C13).  From any conforming archive state, a backup of ANY strictly
      sorted, valid, well-formed source under ANY configuration leaves a conforming archive
      at EVERY intermediate state, at every crash point (a plain crash, or one leaving a
      zero-length file), for EVERY sequence of storage failures; and every entry in a band
      that did not exist before is the metadata of a source item with addresses that add up
      to the source size. *)
  Theorem backup_conf_full : forall cf src a0 phi,
    SrcSorted src -> SrcValid src -> SrcWF src -> Conf a0 -> NoOrphans a0 ->
    Forall (fun a => Conf a /\ NewFromSrc a0 cf src a) (run_states pre (backup_prog pre cf src) a0 phi)
    /\ Conf (snd (fst (run pre (backup_prog pre cf src) a0 phi)))
    /\ NewFromSrc a0 cf src (snd (fst (run pre (backup_prog pre cf src) a0 phi))).
  Proof.
    intros cf src a0 phi Hs Hv Hw HCo HNo.
    assert (HJ : J a0 cf src a0) by (split; [exact HCo | apply NoOrphans_NewFromSrc; exact HNo]).
    destruct (isafe_sound pre (J a0 cf src) QT (backup_prog pre cf src) a0 phi HJ
                (backup_conf_safe cf src a0 Hs Hv Hw HCo HNo)) as (H1 & [H2 H3] & _).
    split; [exact H1|]. split; assumption.
  Qed.

  Theorem backup_conf : forall cf src a0 phi,
    SrcSorted src -> SrcValid src -> SrcWF src -> Conf a0 -> NoOrphans a0 ->
    Forall Conf (run_states pre (backup_prog pre cf src) a0 phi)
    /\ Conf (snd (fst (run pre (backup_prog pre cf src) a0 phi))).
  Proof.
    intros cf src a0 phi Hs Hv Hw HCo HNo.
    destruct (backup_conf_full cf src a0 phi Hs Hv Hw HCo HNo) as (H1 & H2 & _).
    split; [|exact H2]. eapply Forall_impl; [|exact H1]. intros a [H _]. exact H.
  Qed.

  (* the same from the structural well-formedness of the start state *)
  Corollary backup_conf_wf : forall cf src a0 phi,
    SrcSorted src -> SrcValid src -> SrcWF src -> Conf a0 -> WFparents pre a0 ->
    Forall Conf (run_states pre (backup_prog pre cf src) a0 phi)
    /\ Conf (snd (fst (run pre (backup_prog pre cf src) a0 phi))).
  Proof.
    intros cf src a0 phi Hs Hv Hw HCo HWF. apply backup_conf; auto.
    eapply WFparents_NoOrphans; eauto.
  Qed.
End WholeC.

(* ------------------------------------------------------------------------- *)
(** * 9. The boolean checkers are sound                                       *)
(* ------------------------------------------------------------------------- *)

Lemma hunk_keys_In (a : arch) b h x : get a (PHunk b h) = Some x -> In (b, h) (hunk_keys a).
Proof.
  intros G. destruct (lookup_Some_In _ _ _ G) as [g [Hin [<- _]]].
  unfold hunk_keys. apply in_flat_map. exists (PHunk b h, x). split; [exact Hin | left; reflexivity].
Qed.

Lemma tail_keys_In (a : arch) b x : get a (PTail b) = Some x -> In b (tail_keys a).
Proof.
  intros G. destruct (lookup_Some_In _ _ _ G) as [g [Hin [<- _]]].
  unfold tail_keys. apply in_flat_map. exists (PTail b, x). split; [exact Hin | left; reflexivity].
Qed.

Lemma eltb_elt x y : eltb x y = true -> elt x y.
Proof. unfold eltb, elt. destruct (apath_cmp (e_apath x) (e_apath y)); congruence. Qed.

Lemma ssorted_b_sound es : ssorted_b es = true -> StronglySorted elt es.
Proof.
  induction es as [|e es IH]; cbn [ssorted_b]; [constructor|].
  rewrite andb_true_iff, forallb_forall. intros [H1 H2]. constructor; [auto|].
  apply Forall_forall. intros y Hy. apply eltb_elt. auto.
Qed.

Lemma consecutive_b_sound a : consecutive_b a = true -> forall b, HunksConsecutive a b.
Proof.
  unfold consecutive_b. rewrite forallb_forall. intros H b. split.
  - intros h Hs. destruct (get a (PHunk b (h + 1))) as [x|] eqn:G; [|congruence].
    specialize (H _ (hunk_keys_In _ _ _ _ G)). cbn beta iota in H.
    apply andb_true_iff in H. destruct H as [_ H].
    replace (h + 1 =? 0) with false in H by (symmetry; apply N.eqb_neq; lia).
    replace (N.pred (h + 1)) with h in H by lia. cbn [orb] in H.
    unfold good_nonempty_hunk in H.
    destruct (get a (PHunk b h)) as [[[| | |[|e es]|]| |]|]; try discriminate.
    exists (e :: es). split; [reflexivity | discriminate].
  - intros h x G. specialize (H _ (hunk_keys_In _ _ _ _ G)). cbn beta iota in H.
    apply andb_true_iff in H. destruct H as [H _]. rewrite G in H.
    destruct x as [[| | |[|e es]|]| |]; try discriminate; auto.
    right. exists (e :: es). split; [reflexivity | discriminate].
Qed.

Lemma sorted_b_sound a : sorted_b a = true -> forall b, HunksSorted a b.
Proof.
  unfold sorted_b. rewrite forallb_forall. intros H b. split.
  - intros h es G. specialize (H _ (hunk_keys_In _ _ _ _ G)). cbn beta iota in H. rewrite G in H.
    apply andb_true_iff in H. destruct H as [H _]. apply ssorted_b_sound. exact H.
  - intros h h' es es' e e' L G G' I1 I2.
    specialize (H _ (hunk_keys_In _ _ _ _ G)). cbn beta iota in H. rewrite G in H.
    apply andb_true_iff in H. destruct H as [_ H]. rewrite forallb_forall in H.
    specialize (H _ (hunk_keys_In _ _ _ _ G')). cbn beta iota in H.
    rewrite N.eqb_refl in H. replace (h <? h') with true in H by (symmetry; apply N.ltb_lt; exact L).
    cbn [andb] in H. rewrite G' in H. rewrite forallb_forall in H. specialize (H e I1).
    rewrite forallb_forall in H. apply eltb_elt. auto.
Qed.

Lemma kind_eqb_true k k' : kind_eqb k k' = true <-> k = k'.
Proof. destruct k, k'; cbn; split; congruence. Qed.

Lemma ewf_b_sound e : ewf_b e = true -> EWF e.
Proof.
  unfold ewf_b. rewrite !andb_true_iff. intros [[[[H1 H2] H3] H4] H5].
  split; [exact H1|]. split.
  { intros E. unfold kind_neqb in H2. rewrite E in H2. discriminate. }
  split.
  { intros Hk. apply orb_true_iff in H3. destruct H3 as [H3|H3].
    - apply kind_eqb_true in H3. contradiction.
    - destruct (e_addrs e); [reflexivity | discriminate]. }
  split.
  { intros Ht. destruct (e_target e); [apply kind_eqb_true; exact H4 | congruence]. }
  apply Forall_forall. intros ad Hin. rewrite forallb_forall in H5. apply N.ltb_lt. auto.
Qed.

Lemma entrieswf_b_sound a : entrieswf_b a = true -> forall b, EntriesWF a b.
Proof.
  unfold entrieswf_b. rewrite forallb_forall. intros H b h es G.
  specialize (H _ (hunk_keys_In _ _ _ _ G)). cbn beta iota in H. rewrite G in H.
  rewrite forallb_forall in H. apply Forall_forall. intros e He. apply ewf_b_sound. auto.
Qed.

Lemma all_below_spec f n : all_below f n = true -> forall h, h < n -> f h = true.
Proof.
  unfold all_below. induction n as [|n IH] using N.peano_ind; intros H h L; [lia|].
  rewrite N.peano_rect_succ in H. apply andb_true_iff in H. destruct H as [H1 H2].
  destruct (N.eq_dec h n) as [->|Nh]; [exact H2 | apply IH; [exact H1 | lia]].
Qed.

Lemma tailtrue_b_sound a : tailtrue_b a = true -> forall b, TailTrue a b.
Proof.
  unfold tailtrue_b. rewrite forallb_forall. intros H b n G h.
  specialize (H _ (tail_keys_In _ _ _ G)). cbn beta in H. rewrite G in H.
  apply andb_true_iff in H. destruct H as [H1 H2]. split.
  - intros L. pose proof (all_below_spec _ _ H1 h L) as Hg. cbn beta in Hg. unfold good_hunk in Hg.
    destruct (get a (PHunk b h)) as [[[| | |es|]| |]|]; try discriminate. exists es. reflexivity.
  - intros L. destruct (get a (PHunk b h)) as [x|] eqn:Gh; [|reflexivity].
    rewrite forallb_forall in H2. specialize (H2 _ (hunk_keys_In _ _ _ _ Gh)). cbn beta iota in H2.
    rewrite N.eqb_refl, Gh in H2. apply N.ltb_lt in H2. lia.
Qed.

Theorem conf_b_sound a : conf_b a = true -> Conf a.
Proof.
  unfold conf_b. rewrite !andb_true_iff. intros [[[H1 H2] H3] H4] b.
  split; [apply consecutive_b_sound; exact H1|]. split; [apply sorted_b_sound; exact H2|].
  split; [apply entrieswf_b_sound; exact H3 | apply tailtrue_b_sound; exact H4].
Qed.

Lemma noorphans_b_sound a : noorphans_b a = true -> NoOrphans a.
Proof.
  unfold noorphans_b. rewrite andb_true_iff, !forallb_forall. intros [H1 H2] b Hb. split.
  - intros h. destruct (get a (PHunk b h)) as [x|] eqn:G; [|reflexivity].
    specialize (H1 _ (hunk_keys_In _ _ _ _ G)). cbn [fst] in H1. congruence.
  - destruct (get a (PTail b)) as [x|] eqn:G; [|reflexivity].
    specialize (H2 _ (tail_keys_In _ _ _ G)). congruence.
Qed.

Lemma wfparents_b_sound pre a : wfparents_b pre a = true -> WFparents pre a.
Proof.
  unfold wfparents_b. rewrite andb_true_iff, !forallb_forall. intros [H1 H2]. split.
  - intros f c G. destruct (lookup_Some_In _ _ _ G) as [g [Hin [<- _]]]. apply (H1 _ Hin).
  - intros d p Hd Hp. specialize (H2 _ Hd). rewrite Hp in H2. exact H2.
Qed.

Lemma psorted_b_sound l : psorted_b l = true -> StronglySorted plt l.
Proof.
  induction l as [|p l IH]; cbn [psorted_b]; [constructor|].
  rewrite andb_true_iff, forallb_forall. intros [H1 H2]. constructor; [auto|].
  apply Forall_forall. intros q Hq. specialize (H1 q Hq). unfold plt.
  destruct (apath_cmp p q); congruence.
Qed.

Lemma srcsorted_b_sound src : srcsorted_b src = true -> SrcSorted src.
Proof. apply psorted_b_sound. Qed.

Lemma srcvalid_b_sound src : srcvalid_b src = true -> SrcValid src.
Proof. unfold srcvalid_b. rewrite forallb_forall. intros H. apply Forall_forall. exact H. Qed.

Lemma srcwf_b_sound src : srcwf_b src = true -> SrcWF src.
Proof.
  unfold srcwf_b. rewrite forallb_forall. intros H. apply Forall_forall. intros it Hin.
  specialize (H it Hin). unfold itemwf_b in H. apply andb_true_iff in H. destruct H as [H1 H2]. split.
  - intros Ht. destruct (s_target (si_e it)); [apply kind_eqb_true; exact H1 | congruence].
  - intros Hk. rewrite Hk in H2. cbn in H2. apply N.eqb_eq. exact H2.
Qed.

(* ------------------------------------------------------------------------- *)
(** * 10. Consequences of conformance                                         *)
(* ------------------------------------------------------------------------- *)

(* the hunk numbers of a band are exactly 0..n-1 for some n *)
Lemma consecutive_down a b :
  HunksConsecutive a b -> forall k h, h <= k -> get a (PHunk b k) <> None -> get a (PHunk b h) <> None.
Proof.
  intros [C1 _] k. induction k as [|k IH] using N.peano_ind; intros h L Hk.
  - replace h with 0 by lia. exact Hk.
  - destruct (N.eq_dec h (N.succ k)) as [->|Nh]; [exact Hk|].
    apply IH; [lia|]. rewrite <- N.add_1_r in Hk. destruct (C1 k Hk) as [es [G _]]. congruence.
Qed.

Lemma bounded_range a b (HC : HunksConsecutive a b) : forall M,
  (forall h, get a (PHunk b h) <> None -> h < M) ->
  exists n, forall h, get a (PHunk b h) <> None <-> h < n.
Proof.
  induction M as [|M IH] using N.peano_ind; intros HM.
  - exists 0. intros h. split; [intros H; apply HM in H; lia | lia].
  - destruct (get a (PHunk b M)) as [x|] eqn:G.
    + exists (N.succ M). intros h. split; [apply HM|].
      intros L. apply (consecutive_down a b HC M h); [lia | congruence].
    + apply IH. intros h H. specialize (HM h H).
      destruct (N.eq_dec h M) as [->|Nh]; [congruence | lia].
Qed.

Theorem consecutive_range a b :
  HunksConsecutive a b -> exists n, forall h, get a (PHunk b h) <> None <-> h < n.
Proof.
  intros HC.
  set (M := fold_right (fun k m => N.max (N.succ (snd k)) m) 0 (hunk_keys a)).
  apply (bounded_range a b HC M).
  assert (HM : forall (l : list (N * N)) k, In k l -> snd k < fold_right (fun k m => N.max (N.succ (snd k)) m) 0 l).
  { induction l as [|k0 l IHl]; intros k [].
    - subst k0. cbn [fold_right]. lia.
    - specialize (IHl k H). cbn [fold_right]. lia. }
  intros h H. destruct (get a (PHunk b h)) as [x|] eqn:G; [|congruence].
  apply (HM _ _ (hunk_keys_In _ _ _ _ G)).
Qed.

(* no apath occurs twice in a band *)
Lemma sorted_NoDup es : StronglySorted elt es -> NoDup (map e_apath es).
Proof.
  induction es as [|e es IH]; intros H; cbn [map]; [constructor|].
  inversion H as [|? ? H1 H2]; subst. constructor; [|auto].
  intros Hin. apply in_map_iff in Hin. destruct Hin as [e' [E He']].
  rewrite Forall_forall in H2. specialize (H2 e' He'). unfold elt in H2. rewrite E in H2.
  exact (co_lt_irrefl apath_cmp apath_order _ H2).
Qed.

Theorem band_apaths_distinct a b :
  HunksSorted a b ->
  forall h h' es es' e e',
    get a (PHunk b h) = Some (Good (PlHunk es)) -> get a (PHunk b h') = Some (Good (PlHunk es')) ->
    In e es -> In e' es' -> e_apath e = e_apath e' ->
    h = h' /\ NoDup (map e_apath es).
Proof.
  intros [S1 S2] h h' es es' e e' G G' I1 I2 E.
  split; [|apply sorted_NoDup; eapply S1; eauto].
  destruct (N.lt_trichotomy h h') as [L|[L|L]]; [|exact L|]; exfalso.
  - pose proof (S2 h h' es es' e e' L G G' I1 I2) as H. unfold elt in H. rewrite E in H.
    exact (co_lt_irrefl apath_cmp apath_order _ H).
  - pose proof (S2 h' h es' es e' e L G' G I2 I1) as H. unfold elt in H. rewrite E in H.
    exact (co_lt_irrefl apath_cmp apath_order _ H).
Qed.

(* ------------------------------------------------------------------------- *)
(** * 11. [WFparents] is kept by every operation of every program              *)
(* ------------------------------------------------------------------------- *)
Section Parents.
  Variable pre : bytes -> N.

  Lemma lookup_filter_keys (q : fpath -> bool) l g :
    lookup g (filter (fun p => q (fst p)) l) = if q g then lookup g l else None.
  Proof.
    induction l as [|[h d] l IH]; cbn [filter lookup fst]; [destruct (q g); reflexivity|].
    destruct (q h) eqn:Eh; cbn [lookup].
    - destruct (fpath_eqb_spec g h) as [->|Ngh]; [rewrite Eh; reflexivity | exact IH].
    - destruct (fpath_eqb_spec g h) as [->|Ngh]; [rewrite Eh in IH; rewrite Eh; exact IH | exact IH].
  Qed.

  Lemma dir_under_parent d x p : parent_d x = Some p -> dir_under d p = true -> dir_under d x = true.
  Proof.
    intros Hp. unfold dir_under. rewrite Hp.
    destruct x; cbn [parent_d] in Hp; inversion Hp; subst p; cbn [parent_d];
      intros H; rewrite ?orb_false_r in *; rewrite H; apply orb_true_r.
  Qed.

  Lemma WFparents_add_dir (a : arch) d :
    WFparents pre a -> (forall p, parent_d d = Some p -> has_dir a p = true) ->
    WFparents pre {| dirs := dirs a ++ [d]; files := files a |}.
  Proof.
    intros [HF HD] Hd.
    assert (Hmono : forall x, has_dir a x = true -> has_dir {| dirs := dirs a ++ [d]; files := files a |} x = true).
    { intros x Hx. unfold has_dir in *. cbn [dirs]. rewrite existsb_app, Hx. reflexivity. }
    split.
    - intros f c G. apply Hmono. apply (HF f c). exact G.
    - intros x p Hx Hp. cbn [dirs] in Hx. apply in_app_or in Hx. apply Hmono.
      destruct Hx as [Hx|[<-|[]]]; [eapply HD; eauto | auto].
  Qed.

  Lemma exec_ok_WFparents (a : arch) o : WFparents pre a -> WFparents pre (fst (exec_ok pre a o)).
  Proof.
    intros HW. pose proof HW as [HF HD].
    destruct o as [f|f p m|d|d|f|f|d]; cbn [exec_ok].
    - destruct (get a f); exact HW.
    - destruct (has_dir a (parent_f pre f)) eqn:Hp; [|exact HW].
      assert (HS : WFparents pre {| dirs := dirs a; files := set_file f (Good p) (files a) |}).
      { split; [|exact HD]. intros g c G. rewrite get_set_file in G. unfold has_dir. cbn [dirs].
        destruct (fpath_eqb_spec g f) as [->|_]; [exact Hp | apply (HF g c G)]. }
      destruct (get a f) as [[q| |]|]; destruct m; cbn [fst]; auto.
    - destruct (has_dir a d); exact HW.
    - destruct (has_dir a d); [exact HW|].
      destruct (parent_d d) as [p|] eqn:Hp.
      + destruct (has_dir a p) eqn:Hdp; [|exact HW]. cbn [fst].
        apply WFparents_add_dir; [exact HW|]. intros p' E. rewrite Hp in E. inversion E; subst. exact Hdp.
      + cbn [fst]. apply WFparents_add_dir; [exact HW|]. intros p' E. rewrite Hp in E. discriminate.
    - destruct (get a f); exact HW.
    - destruct (get a f); [|exact HW]. cbn [fst]. split; [|exact HD].
      intros g c G. unfold get in G. cbn [files] in G. rewrite lookup_remove_file in G.
      destruct (fpath_eqb g f); [discriminate|]. unfold has_dir. cbn [dirs]. apply (HF g c G).
    - destruct (has_dir a d) eqn:Hd; [|exact HW]. cbn [fst].
      assert (Hkeep : forall x, In x (dirs a) -> dir_under d x = false ->
                has_dir {| dirs := filter (fun x => negb (dir_under d x)) (dirs a);
                           files := filter (fun p => negb (file_under pre d (fst p))) (files a) |} x = true).
      { intros x Hx Hu. apply has_dir_In. cbn [dirs]. apply filter_In. rewrite Hu. auto. }
      split.
      + intros g c G. unfold get in G. cbn [files] in G.
        rewrite (lookup_filter_keys (fun g => negb (file_under pre d g))) in G.
        destruct (file_under pre d g) eqn:Hu; [discriminate|]. cbn [negb] in G.
        apply Hkeep; [apply has_dir_In; apply (HF g c G) | exact Hu].
      + intros x p Hx Hp. cbn [dirs] in Hx. apply filter_In in Hx. destruct Hx as [Hx Hu].
        apply negb_true_iff in Hu.
        apply Hkeep; [apply has_dir_In; eapply HD; eauto|].
        destruct (dir_under d p) eqn:Hup; [|reflexivity].
        rewrite (dir_under_parent d x p Hp Hup) in Hu. discriminate.
  Qed.

  Lemma exec_WFparents (a : arch) o flt : WFparents pre a -> WFparents pre (fst (exec pre a o flt)).
  Proof. intros HW. destruct flt; cbn [exec fst]; auto using exec_ok_WFparents. Qed.

  Lemma exec_empty_WFparents (a : arch) o : WFparents pre a -> WFparents pre (exec_empty pre a o).
  Proof.
    intros HW. pose proof HW as [HF HD].
    destruct o as [f|f p m|d|d|f|f|d]; cbn [exec_empty]; auto.
    destruct (has_dir a (parent_f pre f)) eqn:Hp; [|exact HW].
    destruct (get a f); [exact HW|]. split; [|exact HD].
    intros g c G. rewrite get_set_file in G. unfold has_dir. cbn [dirs].
    destruct (fpath_eqb_spec g f) as [->|_]; [exact Hp | apply (HF g c G)].
  Qed.

  Lemma arch0_WFparents : WFparents pre arch0.
  Proof. split; [intros f c G; discriminate | intros d p []]. Qed.

  (* along every run of every program, from the empty store or any state where files have
     their parent directories, they keep having them *)
  Theorem any_run_WFparents {R} (p : prog R) (a : arch) phi :
    WFparents pre a ->
    Forall (WFparents pre) (run_states pre p a phi) /\ WFparents pre (snd (fst (run pre p a phi))).
  Proof.
    apply (run_invariant pre (fun _ => True) (WFparents pre)).
    - intros x o f _. apply exec_WFparents.
    - intros x o _. apply exec_empty_WFparents.
    - apply emits_anything.
  Qed.
End Parents.

(* conformance together with referential integrity (RefIntP.backup_ainv) and the
   well-formedness needed to start the next backup: everything is kept, so backups chain *)
Corollary backup_conf_ainv : forall pre cf src a0 phi,
  SrcSorted src -> SrcValid src -> SrcWF src -> Conf a0 -> AInv a0 -> WFparents pre a0 ->
  Forall (fun a => Conf a /\ AInv a /\ WFparents pre a) (run_states pre (backup_prog pre cf src) a0 phi)
  /\ (Conf (snd (fst (run pre (backup_prog pre cf src) a0 phi)))
      /\ AInv (snd (fst (run pre (backup_prog pre cf src) a0 phi)))
      /\ WFparents pre (snd (fst (run pre (backup_prog pre cf src) a0 phi)))).
Proof.
  intros pre cf src a0 phi Hs Hv Hw HCo HA HWF.
  destruct (backup_conf_wf pre cf src a0 phi Hs Hv Hw HCo HWF) as [C1 C2].
  destruct (backup_ainv pre cf src a0 phi HA) as [A1 A2].
  destruct (any_run_WFparents pre (backup_prog pre cf src) a0 phi HWF) as [W1 W2].
  split; [|auto].
  rewrite Forall_forall in *. intros a Hin. auto.
Qed.

(* ------------------------------------------------------------------------- *)
(** * 12. Examples (non-vacuity), by computation                              *)
(* ------------------------------------------------------------------------- *)
Module ConfExamples.
  Import SafeExamples.

  (* the states of SafeP.SafeExamples: after init, after one and two backups *)
  Example ex_conf_states : conf_b ex_a1 = true /\ conf_b ex_a2 = true /\ conf_b ex_a3 = true.
  Proof. vm_compute. repeat split; reflexivity. Qed.
  Example ex_conf_a1 : Conf ex_a1.
  Proof. apply conf_b_sound. vm_compute. reflexivity. Qed.
  Example ex_conf_a2 : Conf ex_a2.
  Proof. apply conf_b_sound. vm_compute. reflexivity. Qed.
  Example ex_conf_a3 : Conf ex_a3.
  Proof. apply conf_b_sound. vm_compute. reflexivity. Qed.
  Example ex_wf_a1 : WFparents ex_pre ex_a1.
  Proof. apply wfparents_b_sound. vm_compute. reflexivity. Qed.
  Example ex_wf_a2 : WFparents ex_pre ex_a2.
  Proof. apply wfparents_b_sound. vm_compute. reflexivity. Qed.
  Example ex_noorphans_a2 : NoOrphans ex_a2.
  Proof. apply noorphans_b_sound. vm_compute. reflexivity. Qed.

  (* the sources of those backups satisfy the hypotheses *)
  Example ex_src_ok x : x = 6 \/ x = 7 -> SrcSorted (ex_src x) /\ SrcValid (ex_src x) /\ SrcWF (ex_src x).
  Proof.
    intros [-> | ->]; (split; [apply srcsorted_b_sound | split; [apply srcvalid_b_sound | apply srcwf_b_sound]]);
      vm_compute; reflexivity.
  Qed.

  (* every state of the runs with faults: a crash leaving a zero-length hunk, an I/O error on a
     block write *)
  Example ex_faulty_runs_checked :
    forallb conf_b (run_states ex_pre (backup 7) ex_a2 ex_phi_crash) = true
    /\ forallb conf_b (run_states ex_pre (backup 7) ex_a2 ex_phi_fail) = true
    /\ conf_b (final (backup 7) ex_a2 ex_phi_crash) = true
    /\ conf_b (final (backup 7) ex_a2 ex_phi_fail) = true
    /\ get (final (backup 7) ex_a2 ex_phi_crash) (PHunk 1 0) = Some Empty
    /\ get (final (backup 7) ex_a2 ex_phi_crash) (PTail 1) = None.
  Proof. vm_compute. repeat split; reflexivity. Qed.

  (* the same as instances of the theorem *)
  Example ex_crash_thm :
    Forall Conf (run_states ex_pre (backup 7) ex_a2 ex_phi_crash) /\ Conf (final (backup 7) ex_a2 ex_phi_crash).
  Proof.
    destruct (ex_src_ok 7 (or_intror eq_refl)) as (H1 & H2 & H3).
    apply backup_conf; auto using ex_conf_a2, ex_noorphans_a2.
  Qed.
  Example ex_fail_thm :
    Forall Conf (run_states ex_pre (backup 7) ex_a2 ex_phi_fail) /\ Conf (final (backup 7) ex_a2 ex_phi_fail).
  Proof.
    destruct (ex_src_ok 7 (or_intror eq_refl)) as (H1 & H2 & H3).
    apply backup_conf_wf; auto using ex_conf_a2, ex_wf_a2.
  Qed.

  (* a backup on top of the state a crash left (band 1 ends with a zero-length hunk and has no
     tail): the hypotheses hold of that state too *)
  Definition ex_crashed := final (backup 7) ex_a2 ex_phi_crash.
  Example ex_after_crash :
    conf_b ex_crashed = true /\ wfparents_b ex_pre ex_crashed = true
    /\ forallb conf_b (run_states ex_pre (backup 6) ex_crashed []) = true
    /\ get (final (backup 6) ex_crashed []) (PTail 2) = Some (Good (PlTail (Some 2))).
  Proof. vm_compute. repeat split; reflexivity. Qed.

  (* A source where the combiner reorders: "/a" and "/d" are small files (queued, finished
     only when the combined block [8;9;3] is written), "/b" a directory and "/c" a symlink
     (pushed at once), "/b/x" a large file.  The pending entries reach finish_hunk in the
     order "/", "/b", "/c", "/b/x", "/a", "/d"; the hunk is sorted. *)
  Definition mk_l (path target : str) : sentry :=
    {| s_apath := path; s_kind := KSymlink; s_size := 0; s_target := Some target; s_mtime := 5;
       s_mode := 511; s_user := None; s_group := None |}.
  Definition ex4_cfg : cfg := {| c_meph := 10; c_mbs := 3; c_sfc := 2; c_owner := false |}.
  Definition ex4_src : list sitem :=
    [ {| si_e := mk_s [47] KDir 0 1000000000; si_data := [] |};
      {| si_e := mk_s [47;97] KFile 2 2000000000; si_data := [8;9] |};
      {| si_e := mk_s [47;98] KDir 0 2000000000; si_data := [] |};
      {| si_e := mk_l [47;99] [97]; si_data := [] |};
      {| si_e := mk_s [47;100] KFile 1 2000000000; si_data := [3] |};
      {| si_e := mk_s [47;98;47;120] KFile 6 1000000000; si_data := [1;2;3;4;5;6] |} ].
  Definition backup4 := backup_prog ex_pre ex4_cfg ex4_src.
  Definition hunk_paths (a : arch) b h : list str :=
    match get a (PHunk b h) with Some (Good (PlHunk es)) => map e_apath es | _ => [] end.

  Example ex4_src_ok : SrcSorted ex4_src /\ SrcValid ex4_src /\ SrcWF ex4_src.
  Proof.
    split; [apply srcsorted_b_sound | split; [apply srcvalid_b_sound | apply srcwf_b_sound]];
      vm_compute; reflexivity.
  Qed.

  (* operation 19 writes the combined block (from inside push_file: the buffer is full), 25 the
     hunk, 26 the tail *)
  Example ex4_runs_checked :
    nth_error (map fst (trace backup4 ex_a3 [])) 19 = Some (OpWrite (PBlock [8;9;3]) (PlBlock [8;9;3]) CreateNew)
    /\ hunk_paths (final backup4 ex_a3 []) 2 0 = [[47]; [47;97]; [47;98]; [47;99]; [47;100]; [47;98;47;120]]
    /\ forallb conf_b (run_states ex_pre backup4 ex_a3 []) = true
    (* the block write fails: the two queued files are dropped (one error is
       counted), the backup goes on, the rest is written, sorted *)
    /\ forallb conf_b (run_states ex_pre backup4 ex_a3 (repeat NoFault 19 ++ [Fail EOther])) = true
    /\ hunk_paths (final backup4 ex_a3 (repeat NoFault 19 ++ [Fail EOther])) 2 0
       = [[47]; [47;98]; [47;99]; [47;98;47;120]]
    (* the hunk write fails / is killed; the tail write is killed *)
    /\ forallb conf_b (run_states ex_pre backup4 ex_a3 (repeat NoFault 25 ++ [Fail EOther])) = true
    /\ forallb conf_b (run_states ex_pre backup4 ex_a3 (repeat NoFault 25 ++ [CrashEmpty])) = true
    /\ forallb conf_b (run_states ex_pre backup4 ex_a3 (repeat NoFault 26 ++ [CrashEmpty])) = true
    /\ get (final backup4 ex_a3 (repeat NoFault 26 ++ [CrashEmpty])) (PTail 2) = Some Empty.
  Proof. vm_compute. repeat split; reflexivity. Qed.

  Example ex4_thm phi :
    Forall (fun a => Conf a /\ NewFromSrc ex_a3 ex4_cfg ex4_src a) (run_states ex_pre backup4 ex_a3 phi)
    /\ Conf (final backup4 ex_a3 phi) /\ NewFromSrc ex_a3 ex4_cfg ex4_src (final backup4 ex_a3 phi).
  Proof.
    destruct ex4_src_ok as (H1 & H2 & H3).
    apply backup_conf_full; auto using ex_conf_a3.
    apply noorphans_b_sound. vm_compute. reflexivity.
  Qed.

  (* [HunksSorted] is not trivially true: swapping the two entries of a hunk breaks it (and
     the checker says so); a hunk out of sequence breaks [HunksConsecutive]; a tail that
     miscounts breaks [TailTrue] *)
  Definition ex_es00 : list entry :=
    Eval vm_compute in match get ex_a2 (PHunk 0 0) with Some (Good (PlHunk es)) => es | _ => [] end.
  Definition ex_swapped : arch :=
    fst (exec ex_pre ex_a2 (OpWrite (PHunk 0 0) (PlHunk (rev ex_es00)) Overwrite) NoFault).
  Example ex_swapped_breaks : length ex_es00 = 2%nat /\ conf_b ex_swapped = false /\ ~ HunksSorted ex_swapped 0.
  Proof.
    split; [reflexivity|]. split; [vm_compute; reflexivity|].
    intros [S1 _]. specialize (S1 0 (rev ex_es00) eq_refl).
    vm_compute in S1. inversion S1 as [|? ? _ H]; subst. inversion H as [|? ? H1 _]; subst.
    vm_compute in H1. discriminate H1.
  Qed.

  Definition ex_gap : arch :=
    fst (exec ex_pre ex_a2 (OpWrite (PHunk 0 3) (PlHunk ex_es00) CreateNew) NoFault).
  Example ex_gap_breaks : conf_b ex_gap = false /\ ~ HunksConsecutive ex_gap 0.
  Proof.
    split; [vm_compute; reflexivity|]. intros [C1 _].
    destruct (C1 2) as [es [G _]]; [vm_compute; discriminate | vm_compute in G; discriminate G].
  Qed.

  Definition ex_badtail : arch :=
    fst (exec ex_pre ex_a2 (OpWrite (PTail 0) (PlTail (Some 3)) Overwrite) NoFault).
  Example ex_badtail_breaks : conf_b ex_badtail = false /\ ~ TailTrue ex_badtail 0.
  Proof.
    split; [vm_compute; reflexivity|]. intros T.
    destruct (T 3 eq_refl 2) as [H _]. destruct H as [es G]; [reflexivity | vm_compute in G; discriminate G].
  Qed.

  (* The side condition [0 < c_mbs] of [FromSrc] cannot be dropped: with max_block_size = 0
     a large file is stored without any address (Codec.chunks: the first read is empty, in
     the Rust code as in the model), so its entry has size 0, not the source size 6.  The
     state still conforms. *)
  Definition ex0_cfg : cfg := {| c_meph := 10; c_mbs := 0; c_sfc := 2; c_owner := false |}.
  Definition ex_mbs0 := final (backup_prog ex_pre ex0_cfg (ex_src 6)) ex_a1 [].
  Example ex_mbs0_size_refuted :
    (exists e, In e (match get ex_mbs0 (PHunk 0 0) with Some (Good (PlHunk es)) => es | _ => [] end)
               /\ e_apath e = [47;98] /\ e_kind e = KFile /\ e_size e = 0)
    /\ (exists it, In it (ex_src 6) /\ spath it = [47;98] /\ s_size (si_e it) = 6)
    /\ conf_b ex_mbs0 = true.
  Proof.
    split; [|split; [|vm_compute; reflexivity]].
    - eexists. split; [vm_compute; right; right; left; reflexivity|]. vm_compute. auto.
    - eexists. split; [right; right; left; reflexivity|]. vm_compute. auto.
  Qed.

  (* an entry with a zero-length address, or an address on a directory, is not well formed *)
  Example ex_ewf_neg :
    forallb ewf_b ex_es00 = true
    /\ ewf_b (with_addrs (nth 0 ex_es00 (mk_entry [])) [{| a_hash := [1]; a_start := 0; a_len := 1 |}]) = false
    /\ ewf_b (with_addrs (nth 1 ex_es00 (mk_entry [])) [{| a_hash := [1]; a_start := 0; a_len := 0 |}]) = false.
  Proof. vm_compute. repeat split; reflexivity. Qed.
End ConfExamples.

Print Assumptions isafe_sound.
Print Assumptions backup_conf_safe.
Print Assumptions backup_conf_full.
Print Assumptions backup_conf.
Print Assumptions backup_conf_wf.
Print Assumptions backup_conf_ainv.
Print Assumptions conf_b_sound.
Print Assumptions consecutive_range.
Print Assumptions band_apaths_distinct.
Print Assumptions any_run_WFparents.
Print Assumptions WFparents_NoOrphans.
Print Assumptions made_PE.
Print Assumptions ConfExamples.ex4_thm.
Print Assumptions ConfExamples.ex_swapped_breaks.
