(* Shared record types: index entries, source entries, addresses.
   Mirrors src/index/entry.rs, src/source/entry.rs, src/blockdir.rs (Address).
   Model file: definitions only. *)
From Coq Require Export ZArith.
From CV Require Export Base.Str.

Definition bytes := list N.

Inductive kind := KFile | KDir | KSymlink | KUnknown.

Definition kind_eqb (a b : kind) : bool :=
  match a, b with
  | KFile, KFile | KDir, KDir | KSymlink, KSymlink | KUnknown, KUnknown => true
  | _, _ => false
  end.

Definition kind_code (k : kind) : N :=
  match k with KFile => 0 | KDir => 1 | KSymlink => 2 | KUnknown => 3 end.

(* A block is named by the hash of its content.  The executable model names a
   block by its content itself (hash := identity, trivially injective); the
   harness maps every real BLAKE2b name to the content it names. *)
Record addr := { a_hash : bytes; a_start : N; a_len : N }.

(* IndexEntry *)
Record entry := {
  e_apath : str;
  e_kind : kind;
  e_mtime : Z;               (* whole seconds (i64) *)
  e_nanos : N;               (* u32 *)
  e_mode : N;                (* unix mode bits, 0..0o7777 *)
  e_user : option str;
  e_group : option str;
  e_addrs : list addr;
  e_target : option str
}.

(* source::Entry: what lstat + readlink gave for one path *)
Record sentry := {
  s_apath : str;
  s_kind : kind;
  s_size : N;                (* files only, else 0 *)
  s_target : option str;     (* symlinks only *)
  s_mtime : Z;               (* jiff Timestamp as total nanoseconds since the epoch *)
  s_mode : N;
  s_user : option str;
  s_group : option str
}.

Definition NANOS : Z := 1000000000%Z.

Definition opt_str_eqb (a b : option str) : bool :=
  match a, b with
  | None, None => true
  | Some x, Some y => str_eqb x y
  | _, _ => false
  end.

Definition bytes_eqb (a b : bytes) : bool := str_eqb a b.

Definition addr_eqb (x y : addr) : bool :=
  str_eqb (a_hash x) (a_hash y) && N.eqb (a_start x) (a_start y) && N.eqb (a_len x) (a_len y).

Fixpoint list_eqb {A} (eqb : A -> A -> bool) (l m : list A) : bool :=
  match l, m with
  | [], [] => true
  | x :: l', y :: m' => eqb x y && list_eqb eqb l' m'
  | _, _ => false
  end.

Definition entry_eqb (x y : entry) : bool :=
  str_eqb (e_apath x) (e_apath y) && kind_eqb (e_kind x) (e_kind y)
  && Z.eqb (e_mtime x) (e_mtime y) && N.eqb (e_nanos x) (e_nanos y)
  && N.eqb (e_mode x) (e_mode y)
  && opt_str_eqb (e_user x) (e_user y) && opt_str_eqb (e_group x) (e_group y)
  && list_eqb addr_eqb (e_addrs x) (e_addrs y)
  && opt_str_eqb (e_target x) (e_target y).

(* EntryTrait::size for an index entry: sum of address lengths *)
Definition e_size (e : entry) : N := fold_right (fun a acc => a_len a + acc) 0 (e_addrs e).

(* EntryTrait::mtime for an index entry: Timestamp::new(sec, nanos) as total ns *)
Definition e_ts (e : entry) : Z := (e_mtime e * NANOS + Z.of_N (e_nanos e))%Z.
