(* C05 "deleting versions and collecting garbage never harm what is kept".

   [delete_prog] (Delete.v) under EVERY fault list: every kept band keeps all its files
   and every block it references, at every intermediate state, at every crash point and
   at the end ([delete_keeps]); the fault-free outcome is exact ([delete_exact]); an
   incomplete newest band makes delete refuse ([delete_refuses_incomplete]); the lock is
   released on every non-crashing path after it was taken ([delete_lock_released]).
   [WFdirs] (files and directories lie in existing directories) is what the transport
   maintains ([run_WFdirs]); without it [delete_keeps] fails ([delete_keeps_needs_wf]). *)
From Coq Require Import Lia List Bool NArith.
From CV Require Import Base.Str Base.StrP Apath Entry Stitch Tree TreeP Codec Store StitchProg Backup Ops Delete Read SafeP.
Import ListNotations.
Local Open Scope N_scope.

(* ------------------------------------------------------------------------- *)
(** * 0. Specification                                                        *)
(* ------------------------------------------------------------------------- *)

(* the block names an index hunk refers to *)
Definition hashes (es : list entry) : list bytes := flat_map (fun e => map a_hash (e_addrs e)) es.

Definition band_file (b : N) (f : fpath) : Prop :=
  f = PHead b \/ f = PTail b \/ exists h, f = PHunk b h.

(* band [b] has the same directories and the same files with the same content in [a] as in [a0] *)
Definition band_files_same (a0 a : arch) (b : N) : Prop :=
  has_dir a (DBand b) = has_dir a0 (DBand b) /\
  (forall f, band_file b f -> get a f = get a0 f) /\
  (forall d, dir_under (DBand b) d = true -> has_dir a d = has_dir a0 d).

(* block [c] is referenced by band [b] of [a]: the hash of some address of some entry of
   some decodable index hunk of [b] *)
Definition referenced_by (a : arch) (b : N) (c : bytes) : Prop :=
  exists h es e ad, get a (PHunk b h) = Some (Good (PlHunk es)) /\ In e es /\ In ad (e_addrs e) /\ a_hash ad = c.

(* every version that is not deleted still has all its files and every block it references, unchanged *)
Definition Kept (ids : list N) (a0 a : arch) : Prop :=
  forall b, has_dir a0 (DBand b) = true -> ~ In b ids ->
    band_files_same a0 a b /\
    (forall c, referenced_by a0 b c -> get a (PBlock c) = get a0 (PBlock c)).

Section WF.
  Variable pre : bytes -> N.
  (* every file lies in an existing directory, every directory in an existing directory *)
  Definition WFdirs (a : arch) : Prop :=
    (forall f, get a f <> None -> has_dir a (parent_f pre f) = true) /\
    (forall d p, has_dir a d = true -> parent_d d = Some p -> has_dir a p = true).
End WF.
(* the part of it [delete_keeps] needs: an index hunk lies in an existing sub-directory *)
Definition WFhunks (a : arch) : Prop :=
  forall b h, get a (PHunk b h) <> None -> has_dir a (DHunkSub b (h / HUNKS_PER_SUBDIR)) = true.

Lemma WFdirs_hunks pre a : WFdirs pre a -> WFhunks a.
Proof. intros [H _] b h Hg. apply (H (PHunk b h) Hg). Qed.

Lemma in_hashes c es : In c (hashes es) <-> exists e ad, In e es /\ In ad (e_addrs e) /\ a_hash ad = c.
Proof.
  unfold hashes. rewrite in_flat_map. split.
  - intros [e [He Hc]]. apply in_map_iff in Hc. destruct Hc as [ad [E Had]]. exists e, ad. auto.
  - intros [e [ad [He [Had E]]]]. exists e. split; [exact He|]. apply in_map_iff. exists ad. auto.
Qed.

Lemma referenced_by_hashes a b c :
  referenced_by a b c <-> exists h es, get a (PHunk b h) = Some (Good (PlHunk es)) /\ In c (hashes es).
Proof.
  unfold referenced_by. split.
  - intros [h [es [e [ad [Hg [He [Had E]]]]]]]. exists h, es. split; [exact Hg|]. apply in_hashes. exists e, ad. auto.
  - intros [h [es [Hg Hc]]]. apply in_hashes in Hc. destruct Hc as [e [ad [He [Had E]]]]. exists h, es, e, ad. auto.
Qed.

(* ------------------------------------------------------------------------- *)
(** * 1. Weakest preconditions over [prog], for a set of admissible faults    *)
(* ------------------------------------------------------------------------- *)

Section WP.
  Variable pre : bytes -> N.
  Context {R : Type}.
  Variable F : fault -> Prop.              (* the faults considered *)
  Variable Inv : arch -> Prop.             (* holds in every state passed through *)
  Variable Q : arch -> R -> Prop.          (* holds of the final state and the result *)

  Fixpoint wp (p : prog R) (a : arch) : Prop :=
    match p with
    | Ret r => Q a r
    | Panic => True
    | Do o k =>
        Inv (exec_empty pre a o) /\
        forall f, F f ->
          Inv (fst (exec pre a o f)) /\ wp (k (snd (exec pre a o f))) (fst (exec pre a o f))
    end.

  Lemma hdf_F phi : F NoFault -> Forall F phi -> F (hdf phi).
  Proof. intros H0 H. destruct H; cbn [hdf]; auto. Qed.

  Lemma tl_F phi : Forall F phi -> Forall F (tl phi).
  Proof. intros H. destruct H; cbn [tl]; auto. Qed.

  Theorem wp_sound (p : prog R) : forall a phi,
    F NoFault -> Forall F phi -> Inv a -> wp p a ->
    Forall Inv (run_states pre p a phi)
    /\ Inv (snd (fst (run pre p a phi)))
    /\ (forall r, snd (run pre p a phi) = Done r -> Q (snd (fst (run pre p a phi))) r).
  Proof.
    induction p as [r|o k IH|]; intros a phi H0 Hphi Ha Hwp.
    - cbn. repeat split; auto. intros r' E. inversion E; subst. exact Hwp.
    - rewrite run_Do, run_states_Do. cbn [wp] in Hwp. destruct Hwp as [Hem Hf].
      pose proof (hdf_F phi H0 Hphi) as Hh. pose proof (tl_F phi Hphi) as Ht.
      destruct (hdf phi) as [|e| |] eqn:E; cbn [fst snd].
      + destruct (Hf _ Hh) as [Hi Hk]. destruct (IH _ _ (tl phi) H0 Ht Hi Hk) as [H1 [H2 H3]].
        repeat split; auto.
      + destruct (Hf _ Hh) as [Hi Hk]. destruct (IH _ _ (tl phi) H0 Ht Hi Hk) as [H1 [H2 H3]].
        repeat split; auto.
      + repeat split; auto. discriminate.
      + repeat split; auto. discriminate.
    - cbn. repeat split; auto. discriminate.
  Qed.

  Lemma exec_fail_or_ok a o f :
    (exists e, f = Fail e /\ exec pre a o f = (a, RErr e)) \/ exec pre a o f = exec_ok pre a o.
  Proof. destruct f; cbn [exec]; auto. left. eauto. Qed.

  (* one step, by cases on the fault *)
  Lemma wp_do o k a :
    Inv (exec_empty pre a o) ->
    (forall e, F (Fail e) -> Inv a /\ wp (k (RErr e)) a) ->
    Inv (fst (exec_ok pre a o)) /\ wp (k (snd (exec_ok pre a o))) (fst (exec_ok pre a o)) ->
    wp (Do o k) a.
  Proof.
    intros Hem Hfail Hok. cbn [wp]. split; [exact Hem|]. intros f Hf.
    destruct (exec_fail_or_ok a o f) as [[e [-> E]]|E]; rewrite E; cbn [fst snd]; auto.
  Qed.

  Lemma exec_ok_read_same a o : reads_only o -> fst (exec_ok pre a o) = a.
  Proof. intros Ho. apply (exec_read_same pre a o NoFault Ho). Qed.

  Lemma wp_read o k a :
    reads_only o -> Inv a ->
    (forall e, wp (k (RErr e)) a) ->
    wp (k (snd (exec_ok pre a o))) a ->
    wp (Do o k) a.
  Proof.
    intros Ho Ha Hfail Hok. apply wp_do.
    - rewrite exec_empty_read_same; assumption.
    - intros e _. split; auto.
    - rewrite exec_ok_read_same by exact Ho. split; assumption.
  Qed.
End WP.

(* ------------------------------------------------------------------------- *)
(** * 2. The store: removals, truthful listings                               *)
(* ------------------------------------------------------------------------- *)

Lemma dpath_eqb_refl d : dpath_eqb d d = true.
Proof. destruct (dpath_eqb_spec d d); congruence. Qed.
Lemma fpath_eqb_refl f : fpath_eqb f f = true.
Proof. destruct (fpath_eqb_spec f f); congruence. Qed.

Lemma mem_N_In x l : mem_N x l = true <-> In x l.
Proof.
  unfold mem_N. rewrite existsb_exists. split.
  - intros [y [Hy E]]. apply N.eqb_eq in E. subst. exact Hy.
  - intros H. exists x. split; [exact H | apply N.eqb_refl].
Qed.

Lemma mem_bytes_In c l : mem_bytes c l = true <-> In c l.
Proof.
  unfold mem_bytes. rewrite existsb_exists. split.
  - intros [y [Hy E]]. apply str_eqb_eq in E. subst. exact Hy.
  - intros H. exists c. split; [exact H | apply str_eqb_refl].
Qed.

Lemma mem_bytes_false c l : mem_bytes c l = false <-> ~ In c l.
Proof. rewrite <- mem_bytes_In. destruct (mem_bytes c l); split; congruence. Qed.

Lemma dedup_In c l : In c (dedup l) <-> In c l.
Proof.
  induction l as [|x l IH]; cbn [dedup]; [tauto|].
  destruct (mem_bytes x l) eqn:E.
  - rewrite IH. apply mem_bytes_In in E. cbn [In]. split; [auto|]. intros [<-|H]; auto.
  - cbn [In]. rewrite IH. tauto.
Qed.

Lemma order_by_In c hint s : In c (order_by hint s) <-> In c s.
Proof.
  unfold order_by. rewrite in_app_iff, !filter_In. split.
  - intros [[_ H]|[H _]]; [apply mem_bytes_In; exact H | exact H].
  - intros H. destruct (mem_bytes c hint) eqn:E.
    + left. split; [apply mem_bytes_In; exact E | apply mem_bytes_In; exact H].
    + right. split; [exact H | reflexivity].
Qed.

Lemma band_ids_In_iff ds b : In b (band_ids ds) <-> In (DBand b) ds.
Proof.
  split; [|apply band_ids_In]. unfold band_ids. rewrite in_flat_map.
  intros [d [Hd Hb]]. destruct d; cbn in Hb; try contradiction. destruct Hb as [->|[]]. exact Hd.
Qed.

Lemma keep_In ids ds b :
  In b (filter (fun b => negb (mem_N b ids)) (sorted_N (band_ids ds))) <-> In (DBand b) ds /\ ~ In b ids.
Proof.
  rewrite filter_In. unfold sorted_N. rewrite in_isort, band_ids_In_iff, negb_true_iff.
  rewrite <- (mem_N_In b ids). destruct (mem_N b ids); split; intros [H1 H2]; split; congruence.
Qed.

Lemma hunk_numbers_In b h ne fs : In (PHunk b h, ne) fs -> In h (hunk_numbers fs).
Proof.
  intros H. unfold hunk_numbers. apply in_isort. apply in_flat_map.
  exists (PHunk b h, ne). split; [exact H | left; reflexivity].
Qed.

Lemma subdir_numbers_In b s ds : In (DHunkSub b s) ds -> In s (subdir_numbers ds).
Proof.
  intros H. unfold subdir_numbers. apply in_isort. apply in_flat_map.
  exists (DHunkSub b s). split; [exact H | left; reflexivity].
Qed.

Lemma block_subdirs_In s ds : In (DBlockSub s) ds -> In s (block_subdirs ds).
Proof.
  intros H. unfold block_subdirs. apply in_isort. apply in_flat_map.
  exists (DBlockSub s). split; [exact H | left; reflexivity].
Qed.

Lemma listed_blocks_In c fs :
  In (PBlock c, true) fs ->
  In c (flat_map (fun p : fpath * bool => match p with (PBlock c, true) => [c] | _ => [] end) fs).
Proof. intros H. apply in_flat_map. exists (PBlock c, true). split; [exact H | left; reflexivity]. Qed.

Section StoreFacts.
  Variable pre : bytes -> N.

  Definition rm_dir (a : arch) (d : dpath) : arch :=
    {| dirs := filter (fun x => negb (dir_under d x)) (dirs a);
       files := filter (fun p => negb (file_under pre d (fst p))) (files a) |}.
  Definition rm_file (a : arch) (f : fpath) : arch :=
    {| dirs := dirs a; files := remove_file f (files a) |}.

  Lemma exec_ok_rmdir a d :
    exec_ok pre a (OpRemoveDirAll d) = if has_dir a d then (rm_dir a d, ROk) else (a, RErr ENotFound).
  Proof. reflexivity. Qed.

  Lemma exec_ok_rmfile a f :
    exec_ok pre a (OpRemoveFile f) = match get a f with Some _ => (rm_file a f, ROk) | None => (a, RErr ENotFound) end.
  Proof. reflexivity. Qed.

  Lemma exec_ok_list a d :
    exec_ok pre a (OpList d)
    = if has_dir a d then (a, RList (children_dirs a d) (children_files pre a d)) else (a, RErr ENotFound).
  Proof. reflexivity. Qed.

  Lemma has_dir_rm_dir a d x : has_dir (rm_dir a d) x = has_dir a x && negb (dir_under d x).
  Proof.
    unfold has_dir, rm_dir. cbn [dirs]. induction (dirs a) as [|y l IH]; cbn [filter existsb]; [reflexivity|].
    destruct (dpath_eqb_spec x y) as [->|Hxy].
    - destruct (dir_under d y); cbn [negb existsb].
      + rewrite IH. rewrite andb_false_r. reflexivity.
      + rewrite dpath_eqb_refl. reflexivity.
    - destruct (dir_under d y); cbn [negb existsb]; [exact IH|].
      destruct (dpath_eqb_spec x y); [contradiction|]. exact IH.
  Qed.

  Lemma get_rm_dir a d f : get (rm_dir a d) f = if file_under pre d f then None else get a f.
  Proof.
    unfold get, rm_dir. cbn [files]. induction (files a) as [|[g c] l IH]; cbn [filter lookup fst].
    - destruct (file_under pre d f); reflexivity.
    - destruct (fpath_eqb_spec f g) as [->|Hfg].
      + destruct (file_under pre d g) eqn:E; cbn [negb lookup].
        * exact IH.
        * rewrite fpath_eqb_refl. reflexivity.
      + destruct (file_under pre d g); cbn [negb lookup]; [exact IH|].
        destruct (fpath_eqb_spec f g); [contradiction|]. exact IH.
  Qed.

  Lemma get_rm_file a f g : get (rm_file a f) g = if fpath_eqb g f then None else get a g.
  Proof. unfold get, rm_file. cbn [files]. apply lookup_remove_file. Qed.

  Lemma In_lookup f c l : In (f, c) l -> lookup f l <> None.
  Proof.
    induction l as [|[g d] l IH]; cbn [In lookup]; [tauto|].
    intros [E|H]; destruct (fpath_eqb_spec f g); try discriminate; auto.
    inversion E; subst. contradiction.
  Qed.

  Lemma children_dirs_In a d x : In x (children_dirs a d) <-> In x (dirs a) /\ parent_d x = Some d.
  Proof.
    unfold children_dirs. rewrite filter_In. split; intros [H1 H2]; split; auto.
    - destruct (parent_d x) as [p|]; [|discriminate]. destruct (dpath_eqb_spec p d); congruence.
    - rewrite H2. apply dpath_eqb_refl.
  Qed.

  Lemma children_files_get a f x :
    get a f = Some x -> In (f, nonempty x) (children_files pre a (parent_f pre f)).
  Proof.
    intros H. destruct (lookup_Some_In _ _ _ H) as [g [Hin [<- _]]].
    unfold children_files. apply in_map_iff. exists (f, x). split; [reflexivity|].
    apply filter_In. split; [exact Hin|]. cbn [fst]. apply dpath_eqb_refl.
  Qed.

  Lemma children_files_In a d f ne :
    In (f, ne) (children_files pre a d) -> parent_f pre f = d /\ get a f <> None.
  Proof.
    unfold children_files. rewrite in_map_iff. intros [[g c] [E H]]. cbn [fst snd] in E.
    inversion E; subst. apply filter_In in H. destruct H as [Hin Hp]. cbn [fst] in Hp.
    split; [destruct (dpath_eqb_spec (parent_f pre f) d); congruence|].
    apply (In_lookup _ _ _ Hin).
  Qed.
End StoreFacts.

(* ------------------------------------------------------------------------- *)
(** * 3. [delete_prog], phase by phase                                        *)
(* ------------------------------------------------------------------------- *)

(* the pieces of [delete_prog] that are local definitions there *)
Definition finish_p (nun nb errs : N) (did : bool) : prog dres :=
  Do (OpRemoveFile PLock) (fun r5 =>
    match r5 with
    | ROk => Ret {| d_ok := true; d_unref := nun; d_bands := nb;
                    d_blocks := if did then nun - errs else 0; d_errs := errs |}
    | _ => release_fail
    end).

Definition tail_p (ids : list N) (dry : bool) (last : option N) (unref : list bytes) : prog dres :=
  let nun := N.of_nat (length unref) in
  if dry then finish_p nun 0 0 false
  else
    Do (OpList DRoot) (fun r3 =>
      match r3 with
      | RList ds3 _ =>
          if optid_eqb (max_id (band_ids ds3)) last then
            delete_the_bands ids 0 (fun nb =>
              delete_blocks unref 0 (fun errs => finish_p nun nb errs true))
          else release_fail
      | _ => release_fail
      end).

Definition unref_of (hint referenced present : list bytes) : list bytes :=
  order_by hint (filter (fun c => negb (mem_bytes c referenced)) (dedup present)).

Definition after_acq (ids : list N) (dry : bool) (hint : list bytes) (last : option N) : prog dres :=
  Do (OpList DRoot) (fun r =>
    match r with
    | RList ds _ =>
        let keep := filter (fun b => negb (mem_N b ids)) (sorted_N (band_ids ds)) in
        ref_bands keep [] (fun referenced =>
          Do (OpList DBlocks) (fun r2 =>
            match r2 with
            | RList ds2 _ =>
                list_blocks_d (block_subdirs ds2) [] false (fun present =>
                  measure (unref_of hint referenced present)
                          (tail_p ids dry last (unref_of hint referenced present)))
            | _ => release_fail
            end))
    | _ => release_fail
    end).

Definition body_p (ids : list N) (dry : bool) (hint : list bytes) : prog dres :=
  acquire (after_acq ids dry hint).

Lemma delete_prog_eq ids dry brk hint :
  delete_prog ids dry brk hint =
  Do (OpRead PHeader) (fun r0 =>
    match r0 with
    | RData (Good PlJson) =>
        if brk then
          Do (OpMeta PLock) (fun r =>
            match r with
            | RMeta _ => Do (OpRemoveFile PLock) (fun r1 => if is_ok r1 then body_p ids dry hint else Ret dfail)
            | RErr ENotFound => body_p ids dry hint
            | _ => Ret dfail
            end)
        else body_p ids dry hint
    | _ => Ret dfail
    end).
Proof. reflexivity. Qed.

Lemma same_but_lock_rm a : same_but_lock a (rm_file a PLock).
Proof.
  split; [reflexivity|]. intros f Hf. rewrite get_rm_file.
  destruct (fpath_eqb_spec f PLock); [contradiction | reflexivity].
Qed.

Lemma same_but_lock_trans a b c : same_but_lock a b -> same_but_lock b c -> same_but_lock a c.
Proof.
  intros [D1 F1] [D2 F2]. split; [congruence|]. intros f Hf. rewrite F2, F1; auto.
Qed.

Section Phases.
  Variable pre : bytes -> N.
  Variable F : fault -> Prop.
  Variable Inv : arch -> Prop.
  Variable Q : arch -> dres -> Prop.
  Variable ids : list N.
  Variable U : bytes -> Prop.              (* the blocks that may be removed *)

  Hypothesis HQfail : forall a r, d_ok r = false -> Q a r.
  Hypothesis HInvLock : forall a a', Inv a -> same_but_lock a a' -> Inv a'.
  Hypothesis HInvBand : forall a b, In b ids -> Inv a -> Inv (rm_dir pre a (DBand b)).
  Hypothesis HInvBlock : forall a c, U c -> Inv a -> Inv (rm_file a (PBlock c)).

  Notation wp := (wp pre F Inv Q).

  Lemma ret_fail_wp a : wp (Ret dfail) a.
  Proof. cbn [DeleteP.wp]. apply HQfail. reflexivity. Qed.

  Lemma release_fail_wp a : Inv a -> wp release_fail a.
  Proof.
    intros Ha. unfold release_fail. apply wp_do.
    - exact Ha.
    - intros e _. split; [exact Ha | apply ret_fail_wp].
    - rewrite exec_ok_rmfile. destruct (get a PLock); cbn [fst snd]; (split; [|apply ret_fail_wp]); auto.
      apply (HInvLock a); [exact Ha | apply same_but_lock_rm].
  Qed.

  (* ---- reading the index hunks of the kept bands ---- *)
  Lemma ref_hunks_wp b hs : forall acc k a,
    Inv a ->
    (forall acc',
       (forall c, In c acc' <->
                  In c acc \/ exists h es, In h hs /\ get a (PHunk b h) = Some (Good (PlHunk es)) /\ In c (hashes es)) ->
       wp (k acc') a) ->
    wp (ref_hunks b hs acc k) a.
  Proof.
    induction hs as [|h hs IH]; intros acc k a Ha Hk; cbn [ref_hunks].
    - apply Hk. intros c. split; [auto|]. intros [H|[h [es [[] _]]]]. exact H.
    - apply wp_read; [exact I | exact Ha | intros e; apply release_fail_wp; exact Ha |].
      cbn [exec_ok]. destruct (get a (PHunk b h)) as [[[| | |es|]| |]|] eqn:G; cbn [snd];
        try (apply release_fail_wp; exact Ha).
      apply IH; [exact Ha|]. intros acc' Hacc'. apply Hk. intros c. rewrite Hacc', in_app_iff. split.
      + intros [[H|H]|[h' [es' [Hh [Hg Hc]]]]]; auto.
        * right. exists h, es. split; [left; reflexivity|]. auto.
        * right. exists h', es'. split; [right; exact Hh|]. auto.
      + intros [H|[h' [es' [[<-|Hh] [Hg Hc]]]]]; auto.
        * rewrite G in Hg. inversion Hg; subst. left. right. exact Hc.
        * right. exists h', es'. auto.
  Qed.

  Lemma ref_subdirs_wp b subs : forall acc k a,
    Inv a ->
    (forall hs, incl acc hs ->
       (forall h, In (h / HUNKS_PER_SUBDIR) subs -> get a (PHunk b h) <> None -> In h hs) ->
       wp (k hs) a) ->
    wp (ref_subdirs b subs acc k) a.
  Proof.
    induction subs as [|s subs IH]; intros acc k a Ha Hk; cbn [ref_subdirs].
    - apply Hk; [apply incl_refl | intros h []].
    - apply wp_read; [exact I | exact Ha | intros e; apply release_fail_wp; exact Ha|].
      rewrite exec_ok_list. destruct (has_dir a (DHunkSub b s)) eqn:D; cbn [snd];
        [|apply release_fail_wp; exact Ha].
      apply IH; [exact Ha|]. intros hs Hincl Hall. apply Hk.
      + intros x Hx. apply Hincl. apply in_or_app. left. exact Hx.
      + intros h [->|Hs] Hg; [|auto]. apply Hincl. apply in_or_app. right.
        destruct (get a (PHunk b h)) as [x|] eqn:G; [|congruence].
        apply (hunk_numbers_In b h (nonempty x)). apply (children_files_get pre a (PHunk b h) x G).
  Qed.

  Lemma ref_bands_wp bands : forall acc k a,
    Inv a ->
    (forall acc',
       (forall c, In c acc' ->
          In c acc \/ exists b h es, In b bands /\ get a (PHunk b h) = Some (Good (PlHunk es)) /\ In c (hashes es)) ->
       incl acc acc' ->
       (forall b h es, In b bands -> get a (PHunk b h) = Some (Good (PlHunk es)) ->
                       has_dir a (DHunkSub b (h / HUNKS_PER_SUBDIR)) = true -> incl (hashes es) acc') ->
       wp (k acc') a) ->
    wp (ref_bands bands acc k) a.
  Proof.
    induction bands as [|b bands IH]; intros acc k a Ha Hk; cbn [ref_bands].
    - apply Hk; [auto | apply incl_refl | intros b h es []].
    - apply wp_read; [exact I | exact Ha | intros e; cbn [head_status]; apply release_fail_wp; exact Ha|].
      destruct (head_status (snd (exec_ok pre a (OpRead (PHead b)))));
        [| apply release_fail_wp; exact Ha | exact I].
      apply wp_read; [exact I | exact Ha | intros e; apply release_fail_wp; exact Ha|].
      rewrite exec_ok_list. destruct (has_dir a (DIndex b)) eqn:D; cbn [snd];
        [|apply release_fail_wp; exact Ha].
      apply ref_subdirs_wp; [exact Ha|]. intros hs _ Hhs.
      apply ref_hunks_wp; [exact Ha|]. intros acc1 Hacc1.
      apply IH; [exact Ha|]. intros acc' Hsound Hincl Hcompl. apply Hk.
      + intros c Hc. destruct (Hsound c Hc) as [H|[b' [h [es [Hb [Hg Hin]]]]]].
        * apply Hacc1 in H. destruct H as [H|[h [es [Hh [Hg Hin]]]]]; [left; exact H|].
          right. exists b, h, es. split; [left; reflexivity|]. auto.
        * right. exists b', h, es. split; [right; exact Hb|]. auto.
      + intros c Hc. apply Hincl. apply Hacc1. left. exact Hc.
      + intros b' h es [<-|Hb] Hg Hd.
        * intros c Hc. apply Hincl. apply Hacc1. right. exists h, es. split; [|auto].
          apply Hhs; [|congruence]. apply (subdir_numbers_In b). apply children_dirs_In.
          split; [apply has_dir_In; exact Hd | reflexivity].
        * apply (Hcompl b' h es Hb Hg Hd).
  Qed.

  (* ---- listing the blocks present ---- *)
  Lemma list_blocks_d_wp subs : forall acc failed k a,
    Inv a ->
    (forall present, failed = false -> incl acc present ->
       (forall c x, In (pre c) subs -> get a (PBlock c) = Some x -> nonempty x = true -> In c present) ->
       wp (k present) a) ->
    wp (list_blocks_d subs acc failed k) a.
  Proof.
    induction subs as [|s subs IH]; intros acc failed k a Ha Hk; cbn [list_blocks_d].
    - destruct failed; [apply release_fail_wp; exact Ha|].
      apply Hk; [reflexivity | apply incl_refl | intros c x []].
    - apply wp_read; [exact I | exact Ha | |].
      + intros e. apply IH; [exact Ha|]. intros present Hf. discriminate.
      + rewrite exec_ok_list. destruct (has_dir a (DBlockSub s)) eqn:D; cbn [snd].
        * apply IH; [exact Ha|]. intros present Hf Hincl Hall. apply Hk; [exact Hf | |].
          -- intros x Hx. apply Hincl, in_or_app. left. exact Hx.
          -- intros c x [->|Hs] Hg Hne; [|eauto]. apply Hincl, in_or_app. right.
             apply listed_blocks_In. rewrite <- Hne. apply (children_files_get pre a (PBlock c) x Hg).
        * apply IH; [exact Ha|]. intros present Hf. discriminate.
  Qed.

  Lemma measure_wp l : forall k a, Inv a -> wp k a -> wp (measure l k) a.
  Proof.
    induction l as [|c l IH]; intros k a Ha Hk; cbn [measure]; [exact Hk|].
    apply wp_read; [exact I | exact Ha | intros e; apply release_fail_wp; exact Ha|].
    cbn [exec_ok]. destruct (get a (PBlock c)); cbn [snd];
      [apply IH; assumption | apply release_fail_wp; exact Ha].
  Qed.

  (* ---- the lock ---- *)
  Lemma write_lock_wp (k : prog dres) a :
    Inv a ->
    (forall a', same_but_lock a a' -> Inv a' -> wp k a') ->
    wp (Do (OpWrite PLock PlJson CreateNew) (fun r3 => if is_ok r3 then k else Ret dfail)) a.
  Proof.
    intros Ha Hk. apply wp_do.
    - apply (HInvLock a); [exact Ha|]. apply (exec_empty_lock_same pre a a); [exact I | apply same_but_lock_refl].
    - intros e _. split; [exact Ha | apply ret_fail_wp].
    - assert (Hs : same_but_lock a (fst (exec_ok pre a (OpWrite PLock PlJson CreateNew)))).
      { apply (exec_lock_same pre a a (OpWrite PLock PlJson CreateNew) NoFault); [exact I | apply same_but_lock_refl]. }
      assert (Hi : Inv (fst (exec_ok pre a (OpWrite PLock PlJson CreateNew)))) by (apply (HInvLock a); assumption).
      split; [exact Hi|].
      destruct (is_ok (snd (exec_ok pre a (OpWrite PLock PlJson CreateNew)))); [apply Hk; assumption | apply ret_fail_wp].
  Qed.

  Lemma acquire_wp k a :
    Inv a ->
    (forall last a', same_but_lock a a' -> Inv a' -> wp (k last) a') ->
    wp (acquire k) a.
  Proof.
    intros Ha Hk. unfold acquire.
    apply wp_read; [exact I | exact Ha | intros e; apply ret_fail_wp |].
    rewrite exec_ok_list. destruct (has_dir a DRoot); cbn [snd]; [|apply ret_fail_wp].
    cbv zeta.
    set (last := max_id (band_ids (children_dirs a DRoot))).
    assert (Hlock : wp (Do (OpMeta PLock) (fun r2 =>
              match r2 with
              | RErr ENotFound =>
                  Do (OpWrite PLock PlJson CreateNew) (fun r3 => if is_ok r3 then k last else Ret dfail)
              | _ => Ret dfail
              end)) a).
    { apply wp_read; [exact I | exact Ha | |].
      - intros e. destruct e; try apply ret_fail_wp. apply write_lock_wp; auto.
      - cbn [exec_ok]. destruct (get a PLock); cbn [snd]; [apply ret_fail_wp | apply write_lock_wp; auto]. }
    destruct last as [b|]; [|exact Hlock].
    apply wp_read; [exact I | exact Ha | intros e; apply ret_fail_wp |].
    cbn [exec_ok]. destruct (get a (PTail b)) as [x|]; cbn [snd]; [|apply ret_fail_wp].
    destruct (nonempty x); [exact Hlock | apply ret_fail_wp].
  Qed.

  Lemma finish_wp nun nb errs did a :
    Inv a ->
    (forall r, d_ok r = true -> d_bands r = nb -> d_unref r = nun -> d_errs r = errs ->
               get a PLock <> None -> Q (rm_file a PLock) r) ->
    wp (finish_p nun nb errs did) a.
  Proof.
    intros Ha Hq. unfold finish_p. apply wp_do.
    - exact Ha.
    - intros e _. split; [exact Ha | apply release_fail_wp; exact Ha].
    - rewrite exec_ok_rmfile. destruct (get a PLock) eqn:G; cbn [fst snd].
      + split; [apply (HInvLock a); [exact Ha | apply same_but_lock_rm]|].
        cbn [DeleteP.wp]. apply Hq; cbn; congruence.
      + split; [exact Ha | apply release_fail_wp; exact Ha].
  Qed.

  (* ---- removing the bands, then the unreferenced blocks ---- *)
  Definition BandsRm (l : list N) (a a' : arch) : Prop :=
    (forall x, has_dir a' x = has_dir a x && forallb (fun b => negb (dir_under (DBand b) x)) l) /\
    (forall f, get a' f = if existsb (fun b => file_under pre (DBand b) f) l then None else get a f).

  Lemma delete_the_bands_wp l : forall n k a,
    incl l ids -> Inv a ->
    (forall a', BandsRm l a a' -> Inv a' -> wp (k (n + N.of_nat (length l))) a') ->
    wp (delete_the_bands l n k) a.
  Proof.
    induction l as [|b l IH]; intros n k a Hl Ha Hk; cbn [delete_the_bands].
    - cbn [length N.of_nat] in Hk. rewrite N.add_0_r in Hk. apply Hk; [|exact Ha].
      split; intros; cbn [forallb existsb]; [rewrite andb_true_r|]; reflexivity.
    - apply wp_do; [exact Ha | intros e _; split; [exact Ha | apply release_fail_wp; exact Ha] |].
      rewrite exec_ok_rmdir. destruct (has_dir a (DBand b)) eqn:D; cbn [fst snd].
      + assert (Ha1 : Inv (rm_dir pre a (DBand b)))
          by (apply HInvBand; [apply Hl; left; reflexivity | exact Ha]).
        split; [exact Ha1|]. apply IH; [intros x Hx; apply Hl; right; exact Hx | exact Ha1 |].
        intros a' [HD HF] Ha'.
        replace (n + 1 + N.of_nat (length l)) with (n + N.of_nat (length (b :: l))) by (cbn [length]; lia).
        apply Hk; [|exact Ha']. split.
        * intros x. rewrite HD, has_dir_rm_dir. cbn [forallb]. rewrite andb_assoc. reflexivity.
        * intros f. rewrite HF, get_rm_dir. cbn [existsb].
          destruct (file_under pre (DBand b) f), (existsb (fun b0 => file_under pre (DBand b0) f) l); reflexivity.
      + split; [exact Ha | apply release_fail_wp; exact Ha].
  Qed.

  Definition BlocksRm (l : list bytes) (a a' : arch) : Prop :=
    dirs a' = dirs a /\
    (forall f, (forall c, In c l -> f <> PBlock c) -> get a' f = get a f) /\
    (forall f, get a' f = get a f \/ get a' f = None) /\
    (forall c, In c l -> get a' (PBlock c) = None
                         \/ ((exists e, F (Fail e)) /\ get a' (PBlock c) = get a (PBlock c))).

  Lemma BlocksRm_nil a : BlocksRm [] a a.
  Proof. repeat split; auto. intros c []. Qed.

  Lemma BlocksRm_cons c l a a1 a' :
    dirs a1 = dirs a ->
    (forall f, f <> PBlock c -> get a1 f = get a f) ->
    (get a1 (PBlock c) = None \/ ((exists e, F (Fail e)) /\ get a1 (PBlock c) = get a (PBlock c))) ->
    BlocksRm l a1 a' -> BlocksRm (c :: l) a a'.
  Proof.
    intros D1 O1 B1 [HD [HO [HM HB]]].
    assert (M1 : forall f, get a1 f = get a f \/ get a1 f = None).
    { intros f. destruct (fpath_eqb_spec f (PBlock c)) as [->|Hf]; [|left; auto].
      destruct B1 as [B1|[_ B1]]; auto. }
    split; [congruence|]. split; [|split].
    - intros f Hf. rewrite HO by (intros c' Hc'; apply Hf; right; exact Hc').
      apply O1. apply Hf. left. reflexivity.
    - intros f. destruct (HM f) as [H|H]; [|right; exact H]. rewrite H. apply M1.
    - intros c' [<-|Hc'].
      + destruct (HM (PBlock c)) as [H|H]; [|left; exact H]. rewrite H. exact B1.
      + destruct (HB c' Hc') as [H|[He H]]; [left; exact H|]. rewrite H.
        destruct (M1 (PBlock c')) as [H1|H1]; [right; auto | left; exact H1].
  Qed.

  Lemma delete_blocks_wp l : forall errs k a,
    (forall c, In c l -> U c) -> Inv a ->
    (forall errs' a', BlocksRm l a a' -> Inv a' -> wp (k errs') a') ->
    wp (delete_blocks l errs k) a.
  Proof.
    induction l as [|c l IH]; intros errs k a HUl Ha Hk; cbn [delete_blocks].
    - apply Hk; [apply BlocksRm_nil | exact Ha].
    - assert (HUl' : forall c', In c' l -> U c') by (intros c' Hc'; apply HUl; right; exact Hc').
      apply wp_do; [exact Ha | |].
      + intros e He. split; [exact Ha|]. apply IH; [exact HUl' | exact Ha|].
        intros errs' a' HB Ha'. apply Hk; [|exact Ha'].
        apply (BlocksRm_cons c l a a a'); auto. right. split; [exists e; exact He | reflexivity].
      + rewrite exec_ok_rmfile. destruct (get a (PBlock c)) as [x0|] eqn:G; cbn [fst snd].
        * assert (Ha1 : Inv (rm_file a (PBlock c))) by (apply HInvBlock; [apply HUl; left; reflexivity | exact Ha]).
          split; [exact Ha1|]. apply IH; [exact HUl' | exact Ha1|].
          intros errs' a' HB Ha'. apply Hk; [|exact Ha'].
          apply (BlocksRm_cons c l a (rm_file a (PBlock c)) a'); auto.
          -- intros f Hf. rewrite get_rm_file. destruct (fpath_eqb_spec f (PBlock c)); [contradiction | reflexivity].
          -- left. rewrite get_rm_file, fpath_eqb_refl. reflexivity.
        * split; [exact Ha|]. apply IH; [exact HUl' | exact Ha|].
          intros errs' a' HB Ha'. apply Hk; [|exact Ha'].
          apply (BlocksRm_cons c l a a a'); auto.
  Qed.

  (* ---- the whole program ---- *)
  Variable dry : bool.
  Variable hint : list bytes.
  Variable a0 : arch.

  Definition kept_band (a : arch) (b : N) : Prop := has_dir a (DBand b) = true /\ ~ In b ids.

  (* what the program knows about the list of blocks it is about to remove, in the state
     [a1] it read the archive in *)
  Definition good_unref (a1 : arch) (unref : list bytes) : Prop :=
    exists referenced present,
      unref = unref_of hint referenced present /\
      (forall c, In c referenced ->
         exists b h es, kept_band a1 b /\ get a1 (PHunk b h) = Some (Good (PlHunk es)) /\ In c (hashes es)) /\
      (forall b h es, kept_band a1 b -> get a1 (PHunk b h) = Some (Good (PlHunk es)) ->
         has_dir a1 (DHunkSub b (h / HUNKS_PER_SUBDIR)) = true -> incl (hashes es) referenced) /\
      (forall c x, has_dir a1 (DBlockSub (pre c)) = true -> get a1 (PBlock c) = Some x -> nonempty x = true ->
         In c present).

  Hypothesis HU : forall a1 unref c, same_but_lock a0 a1 -> good_unref a1 unref -> In c unref -> U c.
  Hypothesis HQdry : dry = true -> forall a1 r, same_but_lock a0 a1 -> d_ok r = true -> Q (rm_file a1 PLock) r.
  Hypothesis HQok : dry = false -> forall a1 unref a2 a3 r,
    same_but_lock a0 a1 -> good_unref a1 unref -> BandsRm ids a1 a2 -> BlocksRm unref a2 a3 ->
    get a3 PLock <> None -> d_ok r = true ->
    d_bands r = N.of_nat (length ids) -> d_unref r = N.of_nat (length unref) ->
    Q (rm_file a3 PLock) r.

  Lemma tail_wp last unref a1 :
    same_but_lock a0 a1 -> good_unref a1 unref -> Inv a1 -> wp (tail_p ids dry last unref) a1.
  Proof.
    intros Hs Hg Ha. unfold tail_p. cbv zeta. destruct dry eqn:Edry.
    - apply finish_wp; [exact Ha|]. intros r Hok _ _ _ _. apply HQdry; auto.
    - apply wp_read; [exact I | exact Ha | intros e; apply release_fail_wp; exact Ha|].
      rewrite exec_ok_list. destruct (has_dir a1 DRoot); cbn [snd]; [|apply release_fail_wp; exact Ha].
      destruct (optid_eqb (max_id (band_ids (children_dirs a1 DRoot))) last); [|apply release_fail_wp; exact Ha].
      apply delete_the_bands_wp; [apply incl_refl | exact Ha|]. intros a2 HB2 Ha2.
      apply delete_blocks_wp; [intros c Hc; apply (HU a1 unref c Hs Hg Hc) | exact Ha2|]. intros errs a3 HB3 Ha3.
      apply finish_wp; [exact Ha3|]. intros r Hok Hnb Hnun _ Hl.
      apply (HQok eq_refl a1 unref a2 a3 r); auto.
  Qed.

  Lemma body_wp a : same_but_lock a0 a -> Inv a -> wp (body_p ids dry hint) a.
  Proof.
    intros Hs Ha. unfold body_p. apply acquire_wp; [exact Ha|]. intros last a1 Hs1 Ha1. unfold after_acq.
    assert (Hs01 : same_but_lock a0 a1) by (eapply same_but_lock_trans; eassumption).
    apply wp_read; [exact I | exact Ha1 | intros e; apply release_fail_wp; exact Ha1|].
    rewrite exec_ok_list. destruct (has_dir a1 DRoot); cbn [snd]; [|apply release_fail_wp; exact Ha1].
    cbv zeta. apply ref_bands_wp; [exact Ha1|]. intros referenced Hsound _ Hcompl.
    apply wp_read; [exact I | exact Ha1 | intros e; apply release_fail_wp; exact Ha1|].
    rewrite exec_ok_list. destruct (has_dir a1 DBlocks) eqn:DB; cbn [snd]; [|apply release_fail_wp; exact Ha1].
    apply list_blocks_d_wp; [exact Ha1|]. intros present _ _ Hpres.
    assert (Hg : good_unref a1 (unref_of hint referenced present)).
    { exists referenced, present. split; [reflexivity|]. split; [|split].
      - intros c Hc. destruct (Hsound c Hc) as [[]|[b [h [es [Hb [Hg Hin]]]]]].
        exists b, h, es. split; [|auto]. apply keep_In in Hb. destruct Hb as [Hb Hn].
        split; [|exact Hn]. apply has_dir_In. apply children_dirs_In in Hb. apply Hb.
      - intros b h es [Hb Hn] Hg Hd. apply (Hcompl b h es); auto. apply keep_In. split; [|exact Hn].
        apply children_dirs_In. split; [apply has_dir_In; exact Hb | reflexivity].
      - intros c x Hd Hg Hne. apply (Hpres c x); auto. apply block_subdirs_In. apply children_dirs_In.
        split; [apply has_dir_In; exact Hd | reflexivity]. }
    apply measure_wp; [exact Ha1|]. apply tail_wp; assumption.
  Qed.

  Lemma delete_prog_wp brk : Inv a0 -> wp (delete_prog ids dry brk hint) a0.
  Proof.
    intros Ha. rewrite delete_prog_eq.
    assert (Hbody : wp (body_p ids dry hint) a0) by (apply body_wp; [apply same_but_lock_refl | exact Ha]).
    apply wp_read; [exact I | exact Ha | intros e; apply ret_fail_wp|].
    cbn [exec_ok]. destruct (get a0 PHeader) as [[[| | | |]| |]|]; cbn [snd]; try apply ret_fail_wp.
    destruct brk; [|exact Hbody].
    apply wp_read; [exact I | exact Ha | intros e; destruct e; try apply ret_fail_wp; exact Hbody|].
    cbn [exec_ok]. destruct (get a0 PLock) eqn:G; cbn [snd]; [|exact Hbody].
    apply wp_do; [exact Ha | intros e _; split; [exact Ha | apply ret_fail_wp] |].
    rewrite exec_ok_rmfile, G. cbn [fst snd is_ok].
    assert (Ha1 : Inv (rm_file a0 PLock)) by (apply (HInvLock a0); [exact Ha | apply same_but_lock_rm]).
    split; [exact Ha1|]. apply body_wp; [apply same_but_lock_rm | exact Ha1].
  Qed.
End Phases.

(* ------------------------------------------------------------------------- *)
(** * 4. Theorem 1: what is kept is never harmed                              *)
(* ------------------------------------------------------------------------- *)

Lemma dir_under_band b x :
  dir_under (DBand b) x = true <-> x = DBand b \/ x = DIndex b \/ exists s, x = DHunkSub b s.
Proof.
  destruct x as [| |n|n|n s|s]; unfold dir_under; cbn [parent_d dpath_eqb]; rewrite ?orb_false_r, ?orb_false_l.
  - split; [discriminate|]. intros [H|[H|[s H]]]; discriminate.
  - split; [discriminate|]. intros [H|[H|[s H]]]; discriminate.
  - rewrite N.eqb_eq. split; [intros ->; auto|]. intros [H|[H|[s H]]]; congruence.
  - rewrite N.eqb_eq. split; [intros ->; auto|]. intros [H|[H|[s H]]]; congruence.
  - rewrite N.eqb_eq. split; [intros ->; eauto|]. intros [H|[H|[s' H]]]; congruence.
  - split; [discriminate|]. intros [H|[H|[s' H]]]; discriminate.
Qed.

Lemma dir_under_band_inj b b' x : dir_under (DBand b) x = true -> dir_under (DBand b') x = true -> b = b'.
Proof.
  rewrite !dir_under_band. intros [->|[->|[s ->]]] [H|[H|[s' H]]]; congruence.
Qed.

Lemma has_dir_dirs_eq (a a' : arch) d : dirs a' = dirs a -> has_dir a' d = has_dir a d.
Proof. unfold has_dir. intros ->. reflexivity. Qed.

Section Keeps.
  Variable pre : bytes -> N.
  Variable ids : list N.
  Variable a0 : arch.

  Definition pdir (d : dpath) : Prop :=
    exists b, has_dir a0 (DBand b) = true /\ ~ In b ids /\ dir_under (DBand b) d = true.
  Definition pfile (f : fpath) : Prop :=
    exists b, has_dir a0 (DBand b) = true /\ ~ In b ids /\
              (band_file b f \/ exists c, f = PBlock c /\ referenced_by a0 b c).

  Lemma Kept_iff a :
    Kept ids a0 a <->
    (forall d, pdir d -> has_dir a d = has_dir a0 d) /\ (forall f, pfile f -> get a f = get a0 f).
  Proof.
    split.
    - intros HK. split.
      + intros d [b [Hb [Hn Hd]]]. destruct (HK b Hb Hn) as [[_ [_ H]] _]. apply H. exact Hd.
      + intros f [b [Hb [Hn Hf]]]. destruct (HK b Hb Hn) as [[_ [H1 _]] H2].
        destruct Hf as [Hf|[c [-> Hc]]]; auto.
    - intros [HD HF] b Hb Hn. split; [split; [|split]|].
      + apply HD. exists b. split; [exact Hb|]. split; [exact Hn|]. apply dir_under_band. auto.
      + intros f Hf. apply HF. exists b. auto.
      + intros d Hd. apply HD. exists b. auto.
      + intros c Hc. apply HF. exists b. split; [exact Hb|]. split; [exact Hn|]. right. exists c. auto.
  Qed.

  Lemma Kept_refl : Kept ids a0 a0.
  Proof. apply Kept_iff. split; reflexivity. Qed.

  Lemma Kept_step a a' :
    Kept ids a0 a ->
    (forall d, pdir d -> has_dir a' d = has_dir a d) ->
    (forall f, pfile f -> get a' f = get a f) ->
    Kept ids a0 a'.
  Proof.
    rewrite !Kept_iff. intros [HD HF] HD' HF'. split.
    - intros d Hd. rewrite HD' by exact Hd. apply HD. exact Hd.
    - intros f Hf. rewrite HF' by exact Hf. apply HF. exact Hf.
  Qed.

  Lemma pfile_not_lock f : pfile f -> f <> PLock.
  Proof.
    intros [b [_ [_ [[H|[H|[h H]]]|[c [H _]]]]]]; subst; discriminate.
  Qed.

  Lemma Kept_lock a a' : Kept ids a0 a -> same_but_lock a a' -> Kept ids a0 a'.
  Proof.
    intros HK [HD HF]. apply (Kept_step a a' HK).
    - intros d _. apply has_dir_dirs_eq. exact HD.
    - intros f Hf. apply HF. apply pfile_not_lock. exact Hf.
  Qed.

  Lemma pfile_not_under f b' : pfile f -> In b' ids -> file_under pre (DBand b') f = false.
  Proof.
    intros [b [_ [Hn Hf]]] Hb'. unfold file_under.
    destruct (dir_under (DBand b') (parent_f pre f)) eqn:E; [|reflexivity]. exfalso.
    destruct Hf as [[->|[->|[h ->]]]|[c [-> _]]]; cbn [parent_f] in E.
    - apply Hn. rewrite (dir_under_band_inj b b' (DBand b)); [exact Hb' | apply dir_under_band; auto | exact E].
    - apply Hn. rewrite (dir_under_band_inj b b' (DBand b)); [exact Hb' | apply dir_under_band; auto | exact E].
    - apply Hn. rewrite (dir_under_band_inj b b' (DHunkSub b (h / HUNKS_PER_SUBDIR)));
        [exact Hb' | apply dir_under_band; eauto | exact E].
    - apply dir_under_band in E. destruct E as [E|[E|[s E]]]; discriminate.
  Qed.

  Lemma Kept_rm_band a b' : In b' ids -> Kept ids a0 a -> Kept ids a0 (rm_dir pre a (DBand b')).
  Proof.
    intros Hb' HK. apply (Kept_step a _ HK).
    - intros d [b [_ [Hn Hd]]]. rewrite has_dir_rm_dir.
      destruct (dir_under (DBand b') d) eqn:E; [|apply andb_true_r].
      exfalso. apply Hn. rewrite (dir_under_band_inj b b' d Hd E). exact Hb'.
    - intros f Hf. rewrite get_rm_dir, (pfile_not_under f b' Hf Hb'). reflexivity.
  Qed.

  (* the blocks no kept band refers to *)
  Definition unreferenced (c : bytes) : Prop :=
    forall b, has_dir a0 (DBand b) = true -> ~ In b ids -> ~ referenced_by a0 b c.

  Lemma Kept_rm_block a c : unreferenced c -> Kept ids a0 a -> Kept ids a0 (rm_file a (PBlock c)).
  Proof.
    intros Hc HK. apply (Kept_step a _ HK).
    - intros d _. reflexivity.
    - intros f Hf. rewrite get_rm_file. destruct (fpath_eqb_spec f (PBlock c)) as [->|]; [|reflexivity].
      exfalso. destruct Hf as [b [Hb [Hn [[H|[H|[h H]]]|[c' [E Hr]]]]]]; try discriminate.
      inversion E; subst c'. exact (Hc b Hb Hn Hr).
  Qed.

  (* what the program computed is sound: with hunks in listed directories, a block it decides
     to remove is referenced by no kept band *)
  Lemma good_unref_unreferenced hint a1 unref c :
    WFhunks a0 -> same_but_lock a0 a1 -> good_unref pre ids hint a1 unref -> In c unref -> unreferenced c.
  Proof.
    intros HWF [HD HF] [referenced [present [-> [_ [Hcompl _]]]]] Hc b Hb Hn Hr.
    unfold unref_of in Hc. apply order_by_In in Hc. apply filter_In in Hc. destruct Hc as [_ Hc].
    apply negb_true_iff, mem_bytes_false in Hc. apply Hc.
    apply referenced_by_hashes in Hr. destruct Hr as [h [es [Hg Hin]]].
    apply (Hcompl b h es); [| | |exact Hin].
    - split; [|exact Hn]. rewrite (has_dir_dirs_eq a0 a1) by exact HD. exact Hb.
    - rewrite HF by discriminate. exact Hg.
    - rewrite (has_dir_dirs_eq a0 a1) by exact HD. apply HWF. rewrite Hg. discriminate.
  Qed.
End Keeps.

Section Theorem1.
  Variable pre : bytes -> N.

  (* DELETE KEEPS: for every fault list (every crash point, every failing operation), every
     iteration order [hint], every state the archive passes through and the final state
     still hold every file of every band that is not deleted and every block such a band
     references, unchanged. *)
  Theorem delete_keeps : forall ids dry brk hint a0 phi,
    WFhunks a0 ->
    Forall (Kept ids a0) (run_states pre (delete_prog ids dry brk hint) a0 phi)
    /\ Kept ids a0 (snd (fst (run pre (delete_prog ids dry brk hint) a0 phi))).
  Proof.
    intros ids dry brk hint a0 phi HWF.
    assert (Hwp : wp pre (fun _ => True) (Kept ids a0) (fun _ _ => True) (delete_prog ids dry brk hint) a0).
    { apply (delete_prog_wp pre (fun _ => True) (Kept ids a0) (fun _ _ => True) ids (unreferenced ids a0)); auto.
      - intros a a'. apply Kept_lock.
      - intros a b. apply Kept_rm_band.
      - intros a c. apply Kept_rm_block.
      - intros a1 unref c. apply good_unref_unreferenced. exact HWF.
      - apply Kept_refl. }
    assert (Hphi : Forall (fun _ : fault => True) phi) by (apply Forall_forall; auto).
    destruct (wp_sound pre (fun _ => True) (Kept ids a0) (fun _ _ => True)
                (delete_prog ids dry brk hint) a0 phi I Hphi (Kept_refl ids a0) Hwp) as [H1 [H2 _]].
    split; assumption.
  Qed.

  Corollary delete_keeps_wf : forall ids dry brk hint a0 phi,
    WFdirs pre a0 ->
    Forall (Kept ids a0) (run_states pre (delete_prog ids dry brk hint) a0 phi)
    /\ Kept ids a0 (snd (fst (run pre (delete_prog ids dry brk hint) a0 phi))).
  Proof. intros. apply delete_keeps. eapply WFdirs_hunks. eassumption. Qed.
End Theorem1.

(* ------------------------------------------------------------------------- *)
(** * 5. Theorem 3: an incomplete newest band makes delete refuse             *)
(* ------------------------------------------------------------------------- *)

(* the newest band: the largest id among the band directories *)
Definition newest_band (a : arch) : option N := max_id (band_ids (children_dirs a DRoot)).

Lemma fold_max_In l : forall x, fold_left N.max l x = x \/ In (fold_left N.max l x) l.
Proof.
  induction l as [|y l IH]; intros x; cbn [fold_left]; [left; reflexivity|].
  destruct (IH (N.max x y)) as [H|H]; [|right; right; exact H].
  rewrite H. destruct (N.max_spec x y) as [[_ E]|[_ E]]; rewrite E; [right; left; reflexivity | left; reflexivity].
Qed.

Lemma max_id_spec l b : max_id l = Some b <-> In b l /\ forall x, In x l -> x <= b.
Proof.
  destruct l as [|y l]; cbn [max_id].
  - split; [discriminate | intros [[] _]].
  - destruct (fold_max_ge l y) as [G1 G2]. split.
    + intros E. inversion E; subst b. split.
      * destruct (fold_max_In l y) as [H|H]; [left; symmetry; exact H | right; exact H].
      * intros x [<-|Hx]; auto.
    + intros [Hb Hmax]. f_equal. apply N.le_antisymm.
      * destruct (fold_max_In l y) as [H|H]; [rewrite H; apply Hmax; left; reflexivity | apply Hmax; right; exact H].
      * destruct Hb as [<-|Hb]; auto.
Qed.

Lemma newest_band_spec a b :
  newest_band a = Some b <->
  has_dir a (DBand b) = true /\ forall b', has_dir a (DBand b') = true -> b' <= b.
Proof.
  unfold newest_band. rewrite max_id_spec.
  assert (E : forall x, In x (band_ids (children_dirs a DRoot)) <-> has_dir a (DBand x) = true).
  { intros x. rewrite band_ids_In_iff, children_dirs_In, has_dir_In. cbn [parent_d]. tauto. }
  rewrite E. split; intros [H1 H2]; (split; [exact H1|]); intros x Hx; apply H2, E, Hx.
Qed.

Section Theorem3.
  Variable pre : bytes -> N.

  (* the fault-free run answers "failed" having executed only reading operations, and ends
     in the state it started from *)
  Definition refused (p : prog dres) (a : arch) : Prop :=
    exists tr, run pre p a [] = (tr, a, Done dfail) /\ Forall (fun x : op * reply => reads_only (fst x)) tr.

  Lemma refused_ret a : refused (Ret dfail) a.
  Proof. exists []. split; [reflexivity | constructor]. Qed.

  Lemma refused_read o k a : reads_only o -> refused (k (snd (exec_ok pre a o))) a -> refused (Do o k) a.
  Proof.
    intros Ho [tr [E Htr]]. exists ((o, snd (exec_ok pre a o)) :: tr). split; [|constructor; assumption].
    rewrite run_Do. cbn [hdf tl exec]. rewrite (exec_ok_read_same pre a o Ho), E. reflexivity.
  Qed.

  (* no BANDTAIL, or a zero-length one *)
  Definition no_tail (a : arch) (b : N) : Prop := get a (PTail b) = None \/ get a (PTail b) = Some Empty.

  Lemma acquire_refused k a b : newest_band a = Some b -> no_tail a b -> refused (acquire k) a.
  Proof.
    intros Hn Hg. unfold acquire. apply refused_read; [exact I|]. rewrite exec_ok_list.
    destruct (has_dir a DRoot); cbn [snd]; [|apply refused_ret]. cbv zeta.
    unfold newest_band in Hn. rewrite Hn.
    apply refused_read; [exact I|]. cbn [exec_ok].
    destruct Hg as [Hg|Hg]; rewrite Hg; cbn [snd nonempty]; apply refused_ret.
  Qed.

  (* DELETE REFUSES AN INCOMPLETE ARCHIVE: if the newest band has no BANDTAIL (or a zero-length one) the fault-free
     delete fails, and nothing, not even the lock, is written *)
  Theorem delete_refuses_incomplete : forall ids dry brk hint a0 b,
    newest_band a0 = Some b -> no_tail a0 b ->
    brk = false \/ get a0 PLock = None ->
    exists tr, run pre (delete_prog ids dry brk hint) a0 [] = (tr, a0, Done dfail)
               /\ Forall (fun x : op * reply => reads_only (fst x)) tr.
  Proof.
    intros ids dry brk hint a0 b Hn Hg Hbrk. fold (refused (delete_prog ids dry brk hint) a0).
    rewrite delete_prog_eq.
    assert (Hbody : refused (body_p ids dry hint) a0) by (apply (acquire_refused _ a0 b); assumption).
    apply refused_read; [exact I|]. cbn [exec_ok].
    destruct (get a0 PHeader) as [[[| | | |]| |]|]; cbn [snd]; try apply refused_ret.
    destruct brk; [|exact Hbody]. destruct Hbrk as [Hbrk|Hl]; [discriminate|].
    apply refused_read; [exact I|]. cbn [exec_ok]. rewrite Hl. cbn [snd]. exact Hbody.
  Qed.

  (* with --break-lock and a lock present, the lock is broken first; the delete still fails
     and nothing else changes *)
  Theorem delete_refuses_incomplete_break : forall ids dry hint a0 b,
    newest_band a0 = Some b -> no_tail a0 b ->
    exists tr, run pre (delete_prog ids dry true hint) a0 [] = (tr, snd (fst (run pre (delete_prog ids dry true hint) a0 [])), Done dfail)
               /\ same_but_lock a0 (snd (fst (run pre (delete_prog ids dry true hint) a0 []))).
  Proof.
    intros ids dry hint a0 b Hn Hg.
    destruct (get a0 PLock) as [x|] eqn:Hl.
    - assert (Hn1 : newest_band (rm_file a0 PLock) = Some b) by exact Hn.
      assert (Hg1 : no_tail (rm_file a0 PLock) b) by (unfold no_tail; rewrite get_rm_file; exact Hg).
      destruct (acquire_refused (after_acq ids dry hint) _ b Hn1 Hg1) as [tr [E _]].
      fold (body_p ids dry hint) in E.
      rewrite delete_prog_eq. rewrite run_Do. cbn [hdf tl exec exec_ok].
      destruct (get a0 PHeader) as [[[| | | |]| |]|]; cbn [fst snd];
        try (eexists; split; [reflexivity | apply same_but_lock_refl]).
      rewrite run_Do. cbn [hdf tl exec exec_ok]. rewrite Hl. cbn [fst snd].
      rewrite run_Do. cbn [hdf tl exec]. rewrite exec_ok_rmfile, Hl. cbn [fst snd is_ok].
      rewrite E. cbn [fst snd]. eexists. split; [reflexivity | apply same_but_lock_rm].
    - destruct (delete_refuses_incomplete ids dry true hint a0 b Hn Hg (or_intror Hl)) as [tr [E _]].
      rewrite E. cbn [fst snd]. exists tr. split; [reflexivity | apply same_but_lock_refl].
  Qed.
End Theorem3.

(* ------------------------------------------------------------------------- *)
(** * 6. Theorem 4: the lock is released                                      *)
(* ------------------------------------------------------------------------- *)

(* every path of the program emits a removal of GC_LOCK: no path returns or panics before *)
Inductive releases {R : Type} : prog R -> Prop :=
| rl_here : forall k, releases (Do (OpRemoveFile PLock) k)
| rl_do : forall o k, (forall rep, releases (k rep)) -> releases (Do o k).

Definition is_acq (o : op) : Prop := match o with OpWrite PLock _ _ => True | _ => False end.

(* after every successful write of GC_LOCK, every complete path releases it *)
Inductive acq_rel {R : Type} : prog R -> Prop :=
| ar_ret : forall r, acq_rel (Ret r)
| ar_panic : acq_rel Panic
| ar_do : forall o k, (forall rep, acq_rel (k rep)) -> (is_acq o -> releases (k ROk)) -> acq_rel (Do o k).

Lemma eo_acq_rel {R} (p : prog R) : emits_only (fun o => ~ is_acq o) p -> acq_rel p.
Proof. intros H. induction H as [r| |o k Ho _ IH]; constructor; auto. intros Hacq. contradiction. Qed.

Definition no_crash (phi : list fault) : Prop := Forall (fun f => f <> Crash /\ f <> CrashEmpty) phi.

Lemma no_crash_tl phi : no_crash phi -> no_crash (tl phi).
Proof. intros H. destruct H; cbn [tl]; [constructor | assumption]. Qed.

Section LockSound.
  Variable pre : bytes -> N.

  Lemma run_Do_nc {R} o (k : reply -> prog R) a phi :
    no_crash phi ->
    run pre (Do o k) a phi =
    ((o, snd (exec pre a o (hdf phi)))
       :: fst (fst (run pre (k (snd (exec pre a o (hdf phi)))) (fst (exec pre a o (hdf phi))) (tl phi))),
     snd (fst (run pre (k (snd (exec pre a o (hdf phi)))) (fst (exec pre a o (hdf phi))) (tl phi))),
     snd (run pre (k (snd (exec pre a o (hdf phi)))) (fst (exec pre a o (hdf phi))) (tl phi))).
  Proof.
    intros H. rewrite run_Do. destruct H as [|f phi [H1 H2] _]; cbn [hdf tl]; [reflexivity|].
    destruct f; try reflexivity; congruence.
  Qed.

  Lemma no_crash_outcome {R} (p : prog R) : forall a phi, no_crash phi -> snd (run pre p a phi) <> Crashed.
  Proof.
    induction p as [r|o k IH|]; intros a phi H; try (cbn; discriminate).
    rewrite run_Do_nc by exact H. cbn [snd]. apply IH. apply no_crash_tl. exact H.
  Qed.

  Lemma releases_sound {R} (p : prog R) :
    releases p -> forall a phi, no_crash phi ->
    exists j rep, nth_error (fst (fst (run pre p a phi))) j = Some (OpRemoveFile PLock, rep).
  Proof.
    intros H. induction H as [k|o k _ IH]; intros a phi Hnc.
    - rewrite run_Do_nc by exact Hnc. cbn [fst snd]. exists 0%nat. eexists. reflexivity.
    - rewrite run_Do_nc by exact Hnc. cbn [fst snd].
      destruct (IH (snd (exec pre a o (hdf phi))) (fst (exec pre a o (hdf phi))) (tl phi) (no_crash_tl _ Hnc))
        as [j [rep Hj]]. exists (S j), rep. exact Hj.
  Qed.

  Lemma acq_rel_sound {R} (p : prog R) :
    acq_rel p -> forall a phi i pl m, no_crash phi ->
    nth_error (fst (fst (run pre p a phi))) i = Some (OpWrite PLock pl m, ROk) ->
    exists j rep, (i < j)%nat /\ nth_error (fst (fst (run pre p a phi))) j = Some (OpRemoveFile PLock, rep).
  Proof.
    intros H. induction H as [r0| |o k _ IH Hrel]; intros a phi i pl m Hnc Hi;
      try (cbn in Hi; destruct i; discriminate).
    rewrite run_Do_nc in Hi by exact Hnc. rewrite run_Do_nc by exact Hnc. cbn [fst snd] in *.
    destruct i as [|i]; cbn [nth_error] in Hi.
    - inversion Hi as [[E1 E2]]. subst o. rewrite E2 in *.
      destruct (releases_sound _ (Hrel I) (fst (exec pre a (OpWrite PLock pl m) (hdf phi))) (tl phi) (no_crash_tl _ Hnc))
        as [j [rep Hj]].
      exists (S j), rep. split; [lia | exact Hj].
    - destruct (IH _ _ _ _ _ _ (no_crash_tl _ Hnc) Hi) as [j [rep [Hlt Hj]]].
      exists (S j), rep. split; [lia | exact Hj].
  Qed.
End LockSound.

Ltac rl_step :=
  match goal with
  | |- releases release_fail => apply rl_here
  | |- releases (finish_p _ _ _ _) => apply rl_here
  | |- releases (Do _ _) => apply rl_do; intros ?
  | |- releases (match ?x with _ => _ end) => destruct x
  end.

Lemma ref_hunks_rl b hs : forall acc k, (forall x, releases (k x)) -> releases (ref_hunks b hs acc k).
Proof. induction hs as [|h hs IH]; intros acc k Hk; cbn [ref_hunks]; auto. repeat rl_step; auto. Qed.

Lemma ref_subdirs_rl b subs : forall acc k, (forall x, releases (k x)) -> releases (ref_subdirs b subs acc k).
Proof. induction subs as [|s subs IH]; intros acc k Hk; cbn [ref_subdirs]; auto. repeat rl_step; auto. Qed.

Lemma head_status_not_panic r : head_status r <> HPanic.
Proof. destruct r as [| |[[|v| | |]| |]| |]; cbn; try discriminate. destruct v; discriminate. Qed.

Lemma ref_bands_rl bands : forall acc k, (forall x, releases (k x)) -> releases (ref_bands bands acc k).
Proof.
  induction bands as [|b bands IH]; intros acc k Hk; cbn [ref_bands]; auto.
  apply rl_do. intros r. destruct (head_status r) eqn:E; [|apply rl_here|].
  - repeat rl_step; auto. apply ref_subdirs_rl. intros hs. apply ref_hunks_rl. intros acc'. apply IH. exact Hk.
  - exfalso. exact (head_status_not_panic r E).
Qed.

Lemma list_blocks_d_rl subs : forall acc failed k, (forall x, releases (k x)) -> releases (list_blocks_d subs acc failed k).
Proof.
  induction subs as [|s subs IH]; intros acc failed k Hk; cbn [list_blocks_d].
  - destruct failed; [apply rl_here | apply Hk].
  - repeat rl_step; auto.
Qed.

Lemma measure_rl l : forall k, releases k -> releases (measure l k).
Proof. induction l as [|c l IH]; intros k Hk; cbn [measure]; auto. repeat rl_step; auto. Qed.

Lemma delete_the_bands_rl l : forall n k, (forall x, releases (k x)) -> releases (delete_the_bands l n k).
Proof. induction l as [|b l IH]; intros n k Hk; cbn [delete_the_bands]; auto. repeat rl_step; auto. Qed.

Lemma delete_blocks_rl l : forall errs k, (forall x, releases (k x)) -> releases (delete_blocks l errs k).
Proof. induction l as [|c l IH]; intros errs k Hk; cbn [delete_blocks]; auto. apply rl_do. intros rep. apply IH. exact Hk. Qed.

Lemma tail_rl ids dry last unref : releases (tail_p ids dry last unref).
Proof.
  unfold tail_p. cbv zeta. destruct dry; [apply rl_here|].
  repeat rl_step; auto. apply delete_the_bands_rl. intros nb. apply delete_blocks_rl. intros errs. apply rl_here.
Qed.

Lemma after_acq_rl ids dry hint last : releases (after_acq ids dry hint last).
Proof.
  unfold after_acq. repeat rl_step; auto. cbv zeta.
  apply ref_bands_rl. intros referenced. repeat rl_step; auto.
  apply list_blocks_d_rl. intros present. apply measure_rl. apply tail_rl.
Qed.

Lemma not_acq_read o : reads_only o -> ~ is_acq o.
Proof. destruct o; cbn; tauto. Qed.

Lemma after_acq_eo ids dry hint last : emits_only (fun o => ~ is_acq o) (after_acq ids dry hint last).
Proof.
  assert (Hr : forall o, reads_only o -> ~ is_acq o) by exact not_acq_read.
  assert (Hl : ~ is_acq (OpRemoveFile PLock)) by (cbn; tauto).
  unfold after_acq. apply eo_do; [cbn; tauto|]. intros r.
  destruct r as [| | |ds fs|]; try (apply release_fail_eo; assumption). cbv zeta.
  apply ref_bands_eo; [exact Hr | exact Hl|]. intros referenced.
  apply eo_do; [cbn; tauto|]. intros r2.
  destruct r2 as [| | |ds2 fs2|]; try (apply release_fail_eo; assumption).
  apply list_blocks_d_eo; [exact Hr | exact Hl|]. intros present.
  apply measure_eo; [exact Hr | exact Hl|].
  assert (Hfin : forall nun nb errs did, emits_only (fun o => ~ is_acq o) (finish_p nun nb errs did)).
  { intros. unfold finish_p. apply eo_do; [exact Hl|]. intros r5.
    destruct r5; try (apply release_fail_eo; assumption). constructor. }
  unfold tail_p. cbv zeta. destruct dry; [apply Hfin|].
  apply eo_do; [cbn; tauto|]. intros r3.
  destruct r3 as [| | |ds3 fs3|]; try (apply release_fail_eo; assumption).
  destruct (optid_eqb (max_id (band_ids ds3)) last); [|apply release_fail_eo; assumption].
  apply delete_the_bands_eo; [exact Hl | intros b _; cbn; tauto |]. intros nb.
  apply delete_blocks_eo; [intros c; cbn; tauto|]. intros errs. apply Hfin.
Qed.

Lemma delete_acq_rel ids dry brk hint : acq_rel (delete_prog ids dry brk hint).
Proof.
  rewrite delete_prog_eq.
  assert (Hbody : acq_rel (body_p ids dry hint)).
  { unfold body_p, acquire.
    assert (Hlock : forall last, acq_rel (Do (OpMeta PLock) (fun r2 =>
              match r2 with
              | RErr ENotFound =>
                  Do (OpWrite PLock PlJson CreateNew)
                     (fun r3 => if is_ok r3 then after_acq ids dry hint last else Ret dfail)
              | _ => Ret dfail
              end))).
    { intros last. apply ar_do; [|intros []]. intros r2.
      destruct r2 as [|[| | |]| | |]; try apply ar_ret.
      apply ar_do.
      - intros r3. destruct (is_ok r3); [|apply ar_ret]. apply eo_acq_rel, after_acq_eo.
      - intros _. cbn [is_ok]. apply after_acq_rl. }
    apply ar_do; [|intros []]. intros r. destruct r as [| | |ds fs|]; try apply ar_ret. cbv zeta.
    destruct (max_id (band_ids ds)) as [b|]; [|apply Hlock].
    apply ar_do; [|intros []]. intros r1. destruct r1 as [| | | |[|]]; try apply ar_ret. apply Hlock. }
  apply ar_do; [|intros []]. intros r0.
  destruct r0 as [| |[[| | | |]| |]| |]; try apply ar_ret.
  destruct brk; [|exact Hbody].
  apply ar_do; [|intros []]. intros r. destruct r as [|[| | |]| | |]; try apply ar_ret; try exact Hbody.
  apply ar_do; [|intros []]. intros r1. destruct (is_ok r1); [exact Hbody | apply ar_ret].
Qed.

Section Theorem4.
  Variable pre : bytes -> N.

  (* THE LOCK IS RELEASED: in every run without a crash, whatever operations fail, a
     successful creation of GC_LOCK is followed by a removal of GC_LOCK *)
  Theorem delete_lock_released : forall ids dry brk hint a0 phi i pl m,
    no_crash phi ->
    nth_error (fst (fst (run pre (delete_prog ids dry brk hint) a0 phi))) i = Some (OpWrite PLock pl m, ROk) ->
    exists j rep, (i < j)%nat
      /\ nth_error (fst (fst (run pre (delete_prog ids dry brk hint) a0 phi))) j = Some (OpRemoveFile PLock, rep).
  Proof.
    intros ids dry brk hint a0 phi i pl m Hnc Hi.
    apply (acq_rel_sound pre _ (delete_acq_rel ids dry brk hint) a0 phi i pl m Hnc Hi).
  Qed.
End Theorem4.

(* ------------------------------------------------------------------------- *)
(** * 7. Theorem 2: the fault-free outcome, exactly                           *)
(* ------------------------------------------------------------------------- *)

Lemma forallb_band_false ids b x :
  In b ids -> dir_under (DBand b) x = true -> forallb (fun b' => negb (dir_under (DBand b') x)) ids = false.
Proof.
  intros Hb Hx. destruct (forallb (fun b' => negb (dir_under (DBand b') x)) ids) eqn:E; [|reflexivity].
  rewrite forallb_forall in E. specialize (E b Hb). rewrite Hx in E. discriminate.
Qed.

Lemma existsb_band_true pre ids b f :
  In b ids -> file_under pre (DBand b) f = true -> existsb (fun b' => file_under pre (DBand b') f) ids = true.
Proof. intros Hb Hf. apply existsb_exists. exists b. auto. Qed.

Section Theorem2.
  Variable pre : bytes -> N.

  (* what holds of the final state [a] and the result after a successful real delete *)
  Definition exact_post (ids : list N) (a0 a : arch) (r : dres) : Prop :=
    (* (a) the deleted bands are gone, with everything under them *)
    (forall b, In b ids ->
       has_dir a (DBand b) = false
       /\ (forall d, dir_under (DBand b) d = true -> has_dir a d = false)
       /\ (forall f, file_under pre (DBand b) f = true -> get a f = None))
    (* (c) every block file left with some content is referenced by a kept band *)
    /\ (forall c x, get a (PBlock c) = Some x -> x <> Empty ->
          exists b, has_dir a0 (DBand b) = true /\ ~ In b ids /\ referenced_by a0 b c)
    (* (d) the lock is gone *)
    /\ get a PLock = None
    (* nothing was created or modified *)
    /\ (forall f x, get a f = Some x -> get a0 f = Some x)
    /\ (forall d, has_dir a d = true -> has_dir a0 d = true)
    (* statistics *)
    /\ d_bands r = N.of_nat (length ids).

  Lemma exact_post_holds ids hint a0 a1 unref a2 a3 r :
    WFdirs pre a0 ->
    same_but_lock a0 a1 -> good_unref pre ids hint a1 unref ->
    BandsRm pre ids a1 a2 -> BlocksRm (eq NoFault) unref a2 a3 ->
    d_bands r = N.of_nat (length ids) ->
    exact_post ids a0 (rm_file a3 PLock) r.
  Proof.
    intros [HWF _] [HD HF] [referenced [present [Eun [Hsound [_ Hpres]]]]] [BD BF] [KD [KO [KM KB]]] Hnb.
    assert (Hsub3 : forall f x, get a3 f = Some x -> get a1 f = Some x).
    { intros f x H3. destruct (KM f) as [E|E]; [|congruence]. rewrite E in H3.
      rewrite BF in H3. destruct (existsb (fun b => file_under pre (DBand b) f) ids); [discriminate | exact H3]. }
    assert (Hfin : forall f, get (rm_file a3 PLock) f = if fpath_eqb f PLock then None else get a3 f)
      by (intros f; apply get_rm_file).
    assert (Hdir : forall d, has_dir (rm_file a3 PLock) d = has_dir a1 d && forallb (fun b => negb (dir_under (DBand b) d)) ids).
    { intros d. rewrite <- BD. apply has_dir_dirs_eq. exact KD. }
    unfold exact_post. repeat split.
    - rewrite Hdir, (forallb_band_false ids b (DBand b)); [apply andb_false_r | exact H | apply dir_under_band; auto].
    - intros d Hd. rewrite Hdir, (forallb_band_false ids b d H Hd). apply andb_false_r.
    - intros f Hf. rewrite Hfin. destruct (fpath_eqb f PLock); [reflexivity|].
      destruct (KM f) as [E|E]; [|exact E]. rewrite E, BF, (existsb_band_true pre ids b f H Hf). reflexivity.
    - intros c x Hc Hx. rewrite Hfin in Hc. cbn [fpath_eqb] in Hc.
      pose proof (Hsub3 _ _ Hc) as Hc1.
      assert (Hnun : ~ In c unref).
      { intros Hin. destruct (KB c Hin) as [E|[[e He] _]]; [congruence | discriminate]. }
      assert (Hc0 : get a0 (PBlock c) = Some x) by (rewrite <- HF by discriminate; exact Hc1).
      assert (Hpc : In c present).
      { apply (Hpres c x); [| exact Hc1 | destruct x; cbn; congruence].
        rewrite (has_dir_dirs_eq a0 a1) by exact HD. apply (HWF (PBlock c)). rewrite Hc0. discriminate. }
      assert (Href : In c referenced).
      { destruct (mem_bytes c referenced) eqn:E; [apply mem_bytes_In; exact E|]. exfalso. apply Hnun.
        rewrite Eun. unfold unref_of. apply order_by_In. apply filter_In. split; [apply dedup_In; exact Hpc|].
        rewrite E. reflexivity. }
      destruct (Hsound c Href) as [b [h [es [[Hb Hn] [Hg Hin]]]]].
      exists b. split; [rewrite <- (has_dir_dirs_eq a0 a1) by exact HD; exact Hb|]. split; [exact Hn|].
      apply referenced_by_hashes. exists h, es. split; [|exact Hin]. rewrite <- HF by discriminate. exact Hg.
    - rewrite Hfin. reflexivity.
    - intros f x Hf. rewrite Hfin in Hf. destruct (fpath_eqb_spec f PLock) as [->|Hne]; [discriminate|].
      rewrite <- HF by exact Hne. apply Hsub3. exact Hf.
    - intros d Hd. rewrite Hdir in Hd. apply andb_true_iff in Hd. destruct Hd as [Hd _].
      rewrite <- (has_dir_dirs_eq a0 a1) by exact HD. exact Hd.
    - exact Hnb.
  Qed.

  (* DELETE, EXACTLY: a fault-free real delete that reports success has removed the bands it
     was asked to remove with everything under them, has kept every other band with all
     its files and all the blocks it references, has left no non-empty block file that no
     kept band references, has created or modified nothing, and has released the lock *)
  Theorem delete_exact : forall ids brk hint a0 r,
    WFdirs pre a0 ->
    snd (run pre (delete_prog ids false brk hint) a0 []) = Done r -> d_ok r = true ->
    exact_post ids a0 (snd (fst (run pre (delete_prog ids false brk hint) a0 []))) r
    /\ Kept ids a0 (snd (fst (run pre (delete_prog ids false brk hint) a0 []))).
  Proof.
    intros ids brk hint a0 r HWF Hout Hok. split; [|apply delete_keeps_wf; exact HWF].
    assert (Hwp : wp pre (eq NoFault) (fun _ => True) (fun a r => d_ok r = true -> exact_post ids a0 a r)
                     (delete_prog ids false brk hint) a0).
    { apply (delete_prog_wp pre (eq NoFault) (fun _ => True) _ ids (fun _ => True)); auto.
      - intros a r0 E1 E2. congruence.
      - discriminate.
      - intros _ a1 unref a2 a3 r0 Hs Hg HB2 HB3 _ _ Hnb _ _.
        apply (exact_post_holds ids hint a0 a1 unref a2 a3 r0); assumption. }
    destruct (wp_sound pre (eq NoFault) (fun _ => True) _ (delete_prog ids false brk hint) a0 []
                eq_refl (Forall_nil _) I Hwp) as [_ [_ HQ]].
    apply (HQ r Hout Hok).
  Qed.
End Theorem2.

(* ------------------------------------------------------------------------- *)
(** * 8. [WFdirs] is what the transport maintains                             *)
(* ------------------------------------------------------------------------- *)

Lemma dir_under_parent d x p : parent_d x = Some p -> dir_under d p = true -> dir_under d x = true.
Proof.
  intros Hp. destruct x; cbn [parent_d] in Hp; inversion Hp; subst p; unfold dir_under; cbn [parent_d];
    rewrite ?orb_false_r; repeat rewrite orb_true_iff; tauto.
Qed.

Lemma eo_true {R} (p : prog R) : emits_only (fun _ => True) p.
Proof. induction p; constructor; auto. Qed.

Section WFpres.
  Variable pre : bytes -> N.

  Lemma WFdirs_set a f c :
    WFdirs pre a -> has_dir a (parent_f pre f) = true ->
    WFdirs pre {| dirs := dirs a; files := set_file f c (files a) |}.
  Proof.
    intros [H1 H2] Hp. split; [|exact H2].
    intros g. unfold get. cbn [files]. rewrite lookup_set_file.
    destruct (fpath_eqb_spec g f) as [->|]; [intros _; exact Hp | apply H1].
  Qed.

  Lemma WFdirs_add a d :
    WFdirs pre a -> (forall p, parent_d d = Some p -> has_dir a p = true) ->
    WFdirs pre {| dirs := dirs a ++ [d]; files := files a |}.
  Proof.
    intros [H1 H2] Hp.
    assert (E : forall x, has_dir {| dirs := dirs a ++ [d]; files := files a |} x = has_dir a x || dpath_eqb x d).
    { intros x. unfold has_dir. cbn [dirs]. rewrite existsb_app. cbn [existsb]. rewrite orb_false_r. reflexivity. }
    split.
    - intros f Hf. rewrite E. rewrite (H1 f Hf). reflexivity.
    - intros x p Hx Hxp. rewrite E in *. apply orb_true_iff in Hx. destruct Hx as [Hx|Hx].
      + rewrite (H2 x p Hx Hxp). reflexivity.
      + destruct (dpath_eqb_spec x d); [subst x|discriminate]. rewrite (Hp p Hxp). reflexivity.
  Qed.

  Lemma WFdirs_rm_file a f : WFdirs pre a -> WFdirs pre (rm_file a f).
  Proof.
    intros [H1 H2]. split; [|exact H2]. intros g. rewrite get_rm_file.
    destruct (fpath_eqb g f); [congruence | apply H1].
  Qed.

  Lemma WFdirs_rm_dir a d : WFdirs pre a -> WFdirs pre (rm_dir pre a d).
  Proof.
    intros [H1 H2]. split.
    - intros f. rewrite get_rm_dir, has_dir_rm_dir. unfold file_under.
      destruct (dir_under d (parent_f pre f)); [congruence|]. intros Hf. rewrite (H1 f Hf). reflexivity.
    - intros x p. rewrite !has_dir_rm_dir. intros Hx Hxp. apply andb_true_iff in Hx. destruct Hx as [Hx Hu].
      rewrite (H2 x p Hx Hxp). destruct (dir_under d p) eqn:E; [|reflexivity].
      rewrite (dir_under_parent d x p Hxp E) in Hu. discriminate.
  Qed.

  Lemma exec_ok_WFdirs a o : WFdirs pre a -> WFdirs pre (fst (exec_ok pre a o)).
  Proof.
    intros HW. destruct o as [f|f p m|d|d|f|f|d].
    - cbn [exec_ok]. destruct (get a f); exact HW.
    - cbn [exec_ok]. destruct (has_dir a (parent_f pre f)) eqn:Hp; [|exact HW].
      destruct (get a f) as [[q| |]|], m; cbn [fst]; try exact HW; apply WFdirs_set; assumption.
    - cbn [exec_ok]. destruct (has_dir a d); exact HW.
    - cbn [exec_ok]. destruct (has_dir a d); [exact HW|].
      destruct (parent_d d) as [p|] eqn:Ep.
      + destruct (has_dir a p) eqn:Hp; [|exact HW]. cbn [fst]. apply WFdirs_add; [exact HW|].
        intros p' E. rewrite Ep in E. inversion E; subst. exact Hp.
      + cbn [fst]. apply WFdirs_add; [exact HW | intros p' E; rewrite Ep in E; discriminate].
    - cbn [exec_ok]. destruct (get a f); exact HW.
    - rewrite exec_ok_rmfile. destruct (get a f); [apply WFdirs_rm_file|]; exact HW.
    - rewrite exec_ok_rmdir. destruct (has_dir a d); [apply WFdirs_rm_dir|]; exact HW.
  Qed.

  Lemma exec_WFdirs a o f : WFdirs pre a -> WFdirs pre (fst (exec pre a o f)).
  Proof. intros HW. destruct f; cbn [exec fst]; auto using exec_ok_WFdirs. Qed.

  Lemma exec_empty_WFdirs a o : WFdirs pre a -> WFdirs pre (exec_empty pre a o).
  Proof.
    intros HW. destruct o as [f|f p m|d|d|f|f|d]; cbn [exec_empty]; try exact HW.
    destruct (has_dir a (parent_f pre f)) eqn:Hp; [|exact HW].
    destruct (get a f); [exact HW|]. apply WFdirs_set; assumption.
  Qed.

  (* every program, under every fault list, keeps the archive well-formed *)
  Theorem run_WFdirs {R} (p : prog R) : forall a phi,
    WFdirs pre a ->
    Forall (WFdirs pre) (run_states pre p a phi) /\ WFdirs pre (snd (fst (run pre p a phi))).
  Proof.
    apply (run_invariant pre (fun _ => True) (WFdirs pre)).
    - intros a o f _. apply exec_WFdirs.
    - intros a o _. apply exec_empty_WFdirs.
    - apply eo_true.
  Qed.

  Lemma WFdirs_arch0 : WFdirs pre arch0.
  Proof. split; [intros f Hf; cbn in Hf; congruence | intros d p Hd; discriminate Hd]. Qed.

  (* a checkable criterion *)
  Lemma WFdirs_check (a : arch) :
    forallb (fun p => has_dir a (parent_f pre (fst p))) (files a) = true ->
    forallb (fun d => match parent_d d with Some p => has_dir a p | None => true end) (dirs a) = true ->
    WFdirs pre a.
  Proof.
    rewrite !forallb_forall. intros HF HD. split.
    - intros f Hf. destruct (get a f) as [x|] eqn:G; [|congruence].
      destruct (lookup_Some_In _ _ _ G) as [g [Hin [<- _]]]. apply (HF _ Hin).
    - intros d p Hd Hp. apply has_dir_In in Hd. specialize (HD d Hd). rewrite Hp in HD. exact HD.
  Qed.
End WFpres.

(* ------------------------------------------------------------------------- *)
(** * Examples (non-vacuity), by computation                                  *)
(* ------------------------------------------------------------------------- *)
Module DeleteExamples.
  Import SafeExamples.

  (* ex_a3: init, then two backups (b0000 refers to blocks [1;2] [1;2;3;4] [5;6], b0001 to
     [1;2] [1;2;3;4] [5;7]); ex_a4: a third one (b0002: [1;2] [1;2;3;4] [5;8]) *)
  Definition ex_a4 := final (backup 8) ex_a3 [].
  Definition del0 := delete_prog [0] false false [].
  Definition del01 := delete_prog [0; 1] false false [].

  Ltac wf_by_computation := apply WFdirs_check; vm_compute; reflexivity.
  Example ex_a3_wf : WFdirs ex_pre ex_a3.
  Proof. wf_by_computation. Qed.
  Example ex_a4_wf : WFdirs ex_pre ex_a4.
  Proof. wf_by_computation. Qed.
  (* ... as an instance of the preservation theorem, too *)
  Example ex_a3_wf_thm : WFdirs ex_pre ex_a3.
  Proof.
    apply run_WFdirs. apply run_WFdirs. apply run_WFdirs. apply WFdirs_arch0.
  Qed.

  Example ex_refs :
    referenced_by ex_a3 1 [5; 7] /\ referenced_by ex_a3 1 [1; 2] /\ referenced_by ex_a3 0 [5; 6]
    /\ referenced_by ex_a4 2 [5; 8] /\ referenced_by ex_a4 2 [1; 2; 3; 4].
  Proof.
    repeat split; apply referenced_by_hashes.
    - exists 1, (match get ex_a3 (PHunk 1 1) with Some (Good (PlHunk es)) => es | _ => [] end).
      vm_compute. split; [reflexivity | tauto].
    - exists 0, (match get ex_a3 (PHunk 1 0) with Some (Good (PlHunk es)) => es | _ => [] end).
      vm_compute. split; [reflexivity | tauto].
    - exists 1, (match get ex_a3 (PHunk 0 1) with Some (Good (PlHunk es)) => es | _ => [] end).
      vm_compute. split; [reflexivity | tauto].
    - exists 1, (match get ex_a4 (PHunk 2 1) with Some (Good (PlHunk es)) => es | _ => [] end).
      vm_compute. split; [reflexivity | tauto].
    - exists 1, (match get ex_a4 (PHunk 2 1) with Some (Good (PlHunk es)) => es | _ => [] end).
      vm_compute. split; [reflexivity | tauto].
  Qed.

  (* 1. a fault-free delete of b0000: the band and the block only it referenced are gone,
        b0001 and its three blocks are there; as computed, and as instances of the theorems *)
  Example ex_del0_run :
    snd (run ex_pre del0 ex_a3 []) = Done {| d_ok := true; d_unref := 1; d_bands := 1; d_blocks := 1; d_errs := 0 |}
    /\ map fst (files (final del0 ex_a3 []))
       = [PHeader; PBlock [1; 2]; PBlock [1; 2; 3; 4]; PHead 1; PHunk 1 0; PBlock [5; 7]; PHunk 1 1; PTail 1]
    /\ dirs (final del0 ex_a3 []) = [DRoot; DBlocks; DBlockSub 2; DBlockSub 0; DBand 1; DIndex 1; DHunkSub 1 0]
    /\ get (final del0 ex_a3 []) (PBlock [5; 7]) = get ex_a3 (PBlock [5; 7])
    /\ get ex_a3 (PBlock [5; 7]) = Some (Good (PlBlock [5; 7])).
  Proof. vm_compute. repeat split; reflexivity. Qed.

  Example ex_del0_exact :
    exact_post ex_pre [0] ex_a3 (final del0 ex_a3 []) {| d_ok := true; d_unref := 1; d_bands := 1; d_blocks := 1; d_errs := 0 |}
    /\ Kept [0] ex_a3 (final del0 ex_a3 []).
  Proof. apply (delete_exact ex_pre [0] false [] ex_a3); [apply ex_a3_wf | vm_compute; reflexivity | reflexivity]. Qed.

  (* 2. an I/O error on the read of an index hunk of the kept band: nothing is removed, the
        lock is taken and released, the state is the initial one *)
  Definition phi_fail := repeat NoFault 9 ++ [Fail EOther].
  Example ex_fail_run :
    nth_error (trace del0 ex_a3 phi_fail) 9 = Some (OpRead (PHunk 1 0), RErr EOther)
    /\ nth_error (trace del0 ex_a3 phi_fail) 4 = Some (OpWrite PLock PlJson CreateNew, ROk)
    /\ nth_error (trace del0 ex_a3 phi_fail) 10 = Some (OpRemoveFile PLock, ROk)
    /\ length (trace del0 ex_a3 phi_fail) = 11%nat
    /\ snd (run ex_pre del0 ex_a3 phi_fail) = Done dfail
    /\ final del0 ex_a3 phi_fail = ex_a3.
  Proof. vm_compute. repeat split; reflexivity. Qed.
  Example ex_fail_kept :
    Forall (Kept [0] ex_a3) (run_states ex_pre del0 ex_a3 phi_fail) /\ Kept [0] ex_a3 (final del0 ex_a3 phi_fail).
  Proof. apply delete_keeps_wf. apply ex_a3_wf. Qed.
  Example ex_fail_released :
    exists j rep, (4 < j)%nat /\ nth_error (trace del0 ex_a3 phi_fail) j = Some (OpRemoveFile PLock, rep).
  Proof.
    apply (delete_lock_released ex_pre [0] false false [] ex_a3 phi_fail 4 PlJson CreateNew).
    - unfold no_crash, phi_fail. cbn [repeat app].
      repeat (apply Forall_cons; [split; discriminate|]). apply Forall_nil.
    - vm_compute. reflexivity.
  Qed.

  (* 3. deleting b0000 and b0001 of ex_a4, killed between the removals of the two
        unreferenced blocks: both bands and [5;6] are gone, [5;7] and the lock are still
        there, the kept band b0002 has all its files and its three blocks *)
  Definition phi_crash := repeat NoFault 20 ++ [Crash].
  Example ex_crash_run :
    snd (run ex_pre del01 ex_a4 phi_crash) = Crashed
    /\ nth_error (trace del01 ex_a4 phi_crash) 19 = Some (OpRemoveFile (PBlock [5; 6]), ROk)
    /\ length (trace del01 ex_a4 phi_crash) = 20%nat
    /\ map fst (files (final del01 ex_a4 phi_crash))
       = [PHeader; PBlock [1; 2]; PBlock [1; 2; 3; 4]; PBlock [5; 7]; PHead 2; PHunk 2 0; PBlock [5; 8];
          PHunk 2 1; PTail 2; PLock]
    /\ get (final del01 ex_a4 phi_crash) (PBlock [5; 8]) = get ex_a4 (PBlock [5; 8])
    /\ get (final del01 ex_a4 phi_crash) (PHunk 2 1) = get ex_a4 (PHunk 2 1)
    /\ has_dir (final del01 ex_a4 phi_crash) (DHunkSub 2 0) = true.
  Proof. vm_compute. repeat split; reflexivity. Qed.
  Example ex_crash_kept :
    Forall (Kept [0; 1] ex_a4) (run_states ex_pre del01 ex_a4 phi_crash)
    /\ Kept [0; 1] ex_a4 (final del01 ex_a4 phi_crash).
  Proof. apply delete_keeps_wf. apply ex_a4_wf. Qed.
  Example ex_del01_exact :
    exact_post ex_pre [0; 1] ex_a4 (final del01 ex_a4 []) {| d_ok := true; d_unref := 2; d_bands := 2; d_blocks := 2; d_errs := 0 |}
    /\ Kept [0; 1] ex_a4 (final del01 ex_a4 []).
  Proof. apply (delete_exact ex_pre [0; 1] false [] ex_a4); [apply ex_a4_wf | vm_compute; reflexivity | reflexivity]. Qed.

  (* [Kept] is not trivially true: removing a block the kept band refers to breaks it *)
  Example ex_kept_breaks : ~ Kept [0] ex_a3 (rm_file ex_a3 (PBlock [5; 7])).
  Proof.
    intros H. destruct (H 1 eq_refl) as [_ H2]; [intros [E|[]]; discriminate|].
    destruct ex_refs as [R _]. specialize (H2 _ R). vm_compute in H2. discriminate.
  Qed.

  (* 4. a second backup killed in the middle (band b0001 has no BANDTAIL): delete refuses *)
  Definition a_inc := final (backup 7) ex_a2 ex_phi_crash.
  Example ex_incomplete :
    newest_band a_inc = Some 1 /\ get a_inc (PTail 1) = None
    /\ run ex_pre del0 a_inc []
       = ([(OpRead PHeader, RData (Good PlJson));
           (OpList DRoot, RList [DBlocks; DBand 0; DBand 1] [(PHeader, true)]);
           (OpMeta (PTail 1), RErr ENotFound)], a_inc, Done dfail).
  Proof. vm_compute. repeat split; reflexivity. Qed.
  Example ex_incomplete_thm :
    exists tr, run ex_pre del0 a_inc [] = (tr, a_inc, Done dfail)
               /\ Forall (fun x : op * reply => reads_only (fst x)) tr.
  Proof.
    apply (delete_refuses_incomplete ex_pre [0] false false [] a_inc 1);
      [vm_compute; reflexivity | left; vm_compute; reflexivity | left; reflexivity].
  Qed.
  (* ... or killed while writing the BANDTAIL, leaving it zero-length *)
  Definition a_inc2 := final (backup 7) ex_a2 (repeat NoFault 23 ++ [CrashEmpty]).
  Example ex_incomplete2 :
    newest_band a_inc2 = Some 1 /\ get a_inc2 (PTail 1) = Some Empty
    /\ fst (fst (run ex_pre del0 a_inc2 []))
       = [(OpRead PHeader, RData (Good PlJson));
          (OpList DRoot, RList [DBlocks; DBand 0; DBand 1] [(PHeader, true)]);
          (OpMeta (PTail 1), RMeta false)]
    /\ snd (run ex_pre del0 a_inc2 []) = Done dfail.
  Proof. vm_compute. repeat split; reflexivity. Qed.
  Example ex_incomplete2_thm :
    exists tr, run ex_pre del0 a_inc2 [] = (tr, a_inc2, Done dfail)
               /\ Forall (fun x : op * reply => reads_only (fst x)) tr.
  Proof.
    apply (delete_refuses_incomplete ex_pre [0] false false [] a_inc2 1);
      [vm_compute; reflexivity | right; vm_compute; reflexivity | left; reflexivity].
  Qed.

  (* 5. an unparsable version in the BANDHEAD of a kept band: delete fails, removes nothing,
        and releases the lock *)
  Definition a_bad : arch :=
    {| dirs := dirs ex_a3; files := set_file (PHead 1) (Good (PlHead HvUnparsable)) (files ex_a3) |}.
  Example ex_bad_head :
    snd (run ex_pre del0 a_bad []) = Done dfail
    /\ nth_error (trace del0 a_bad []) 4 = Some (OpWrite PLock PlJson CreateNew, ROk)
    /\ nth_error (trace del0 a_bad []) 7 = Some (OpRemoveFile PLock, ROk)
    /\ length (trace del0 a_bad []) = 8%nat
    /\ final del0 a_bad [] = a_bad.
  Proof. vm_compute. repeat split; reflexivity. Qed.

  (* 6. [delete_keeps] needs [WFhunks]: index hunks in a sub-directory that "does not exist"
        are never listed, and the blocks they refer to are collected *)
  Definition a_ill : arch :=
    {| dirs := filter (fun d => negb (dpath_eqb d (DHunkSub 1 0))) (dirs ex_a3); files := files ex_a3 |}.
  Example ex_ill_refs : referenced_by a_ill 1 [5; 7].
  Proof.
    apply referenced_by_hashes.
    exists 1, (match get a_ill (PHunk 1 1) with Some (Good (PlHunk es)) => es | _ => [] end).
    vm_compute. split; [reflexivity | tauto].
  Qed.
  Theorem delete_keeps_needs_wf :
    exists pre ids dry brk hint a0,
      ~ Kept ids a0 (snd (fst (run pre (delete_prog ids dry brk hint) a0 []))).
  Proof.
    exists ex_pre, [0], false, false, [], a_ill. intros H.
    destruct (H 1 eq_refl) as [_ H2]; [intros [E|[]]; discriminate|].
    specialize (H2 _ ex_ill_refs). vm_compute in H2. discriminate.
  Qed.
End DeleteExamples.

Print Assumptions wp_sound.
Print Assumptions delete_prog_wp.
Print Assumptions delete_keeps.
Print Assumptions delete_keeps_wf.
Print Assumptions delete_exact.
Print Assumptions delete_refuses_incomplete.
Print Assumptions delete_refuses_incomplete_break.
Print Assumptions delete_lock_released.
Print Assumptions run_WFdirs.
Print Assumptions newest_band_spec.
Print Assumptions DeleteExamples.delete_keeps_needs_wf.
