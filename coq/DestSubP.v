(* C12: restoring only a SUBTREE of a tree listing into an empty destination builds exactly
   that subtree, plus the plain directories leading to it; and the same for a single file or
   symlink.

   [subtree_of root es] is what `iter_entries(subtree)` yields of the listing [es]: the
   entries whose path has [root] as a prefix, by components, [root]'s own entry included, in
   the order of the listing.

     subtree_restore_builds_the_subtree
     single_entry_restore *)
From Coq Require Import List NArith Bool Lia Arith.
From CV Require Import Base.Str Base.StrP Apath ApathP Entry Valid Dest DestP DestTreeP.
Import ListNotations.
Local Open Scope N_scope.

(* ------------------------------------------------------------------------- *)
(** * 1. Definitions                                                           *)
(* ------------------------------------------------------------------------- *)
(* root is a prefix of p, by whole components (root itself included) *)
Definition under (root p : rpath) : bool := comp_prefix root p.

Definition subtree_of (root : rpath) (es : list entry) : list entry :=
  filter (fun e => under root (comps (e_apath e))) es.

(* what the destination holds at p after restoring the subtree at root of the listing es *)
Definition sub_spec (content_of : entry -> bytes) (es : list entry) (root p : rpath) : option node :=
  if under root p then spec_node content_of es p          (* the listed node, as in a full restore *)
  else if under p root then Some NDir                     (* a directory leading to the subtree *)
  else None.

(* ------------------------------------------------------------------------- *)
(** * 2. Prefixes                                                              *)
(* ------------------------------------------------------------------------- *)
Lemma under_spec root p : under root p = true <-> exists x, p = root ++ x.
Proof. apply comp_prefix_spec. Qed.

Lemma under_refl p : under p p = true.
Proof. apply under_spec. exists []. rewrite app_nil_r. reflexivity. Qed.

Lemma under_nil p : under [] p = true.
Proof. reflexivity. Qed.

Lemma prefixes_comparable {A} (q r : list A) : forall a b,
  q ++ a = r ++ b -> (exists x, r = q ++ x) \/ (exists x, q = r ++ x).
Proof.
  revert r. induction q as [|c q IH]; intros r a b E.
  - left. exists r. reflexivity.
  - destruct r as [|c' r].
    + right. exists (c :: q). reflexivity.
    + cbn in E. inversion E; subst. destruct (IH r a b H1) as [[x ->]|[x ->]].
      * left. exists x. reflexivity.
      * right. exists x. reflexivity.
Qed.

Lemma under_antisym p q : under p q = true -> under q p = true -> p = q.
Proof.
  intros H1 H2. apply under_spec in H1, H2. destruct H1 as [x ->]. destruct H2 as [y E].
  rewrite <- app_assoc in E. rewrite <- (app_nil_r p) in E at 1. apply app_inv_head in E.
  symmetry in E. apply app_eq_nil in E. destruct E as [-> _]. rewrite app_nil_r. reflexivity.
Qed.

(* for q other than p and the destination: q lies above p *)
Lemma under_ppre q p : q <> [] -> q <> p -> (under q p = true <-> ppre q p).
Proof.
  intros Hq Hne. split.
  - intros H. apply under_spec in H. destruct H as [x ->]. split; [exact Hq|].
    destruct x as [|c rest]; [rewrite app_nil_r in Hne; congruence|]. exists c, rest. reflexivity.
  - intros [_ [c [rest ->]]]. apply under_spec. exists (c :: rest). reflexivity.
Qed.

Lemma ppre_under q p : ppre q p -> under q p = true /\ q <> p.
Proof.
  intros P. split.
  - destruct P as [_ [c [rest ->]]]. apply under_spec. exists (c :: rest). reflexivity.
  - intros ->. exact (ppre_irrefl _ P).
Qed.

(* ------------------------------------------------------------------------- *)
(** * 3. Lists and the empty destination                                       *)
(* ------------------------------------------------------------------------- *)
Lemma NoDup_map_filter' {A B} (k : A -> B) (f : A -> bool) l :
  NoDup (map k l) -> NoDup (map k (filter f l)).
Proof.
  induction l as [|x l IH]; cbn; intros H; [constructor|].
  inversion H as [|? ? Hn Hd]; subst.
  destruct (f x); cbn; [constructor|]; auto.
  intros Hi. apply Hn. apply in_map_iff in Hi. destruct Hi as [y [Ey Hy]].
  apply in_map_iff. exists y. split; [exact Ey|]. apply filter_In in Hy. tauto.
Qed.

Lemma find_filter {A} (g u : A -> bool) l :
  (forall x, g x = true -> u x = true) -> find g (filter u l) = find g l.
Proof.
  intros H. induction l as [|x l IH]; cbn; [reflexivity|].
  destruct (u x) eqn:Ux; cbn.
  - destruct (g x); [reflexivity|exact IH].
  - destruct (g x) eqn:Gx; [rewrite (H x Gx) in Ux; discriminate|exact IH].
Qed.

Lemma filter_all {A} (u : A -> bool) l : (forall x, u x = true) -> filter u l = l.
Proof. intros H. induction l as [|x l IH]; cbn; [reflexivity|]. rewrite H, IH. reflexivity. Qed.

Lemma listed_unique l d :
  (forall x, In x l -> is_valid (e_apath x) = true) -> NoDup (map e_apath l) -> In d l ->
  listed l (comps (e_apath d)) = Some d.
Proof.
  intros V N Hd.
  destruct (find_finds (fun x => rpath_eqb (comps (e_apath x)) (comps (e_apath d))) l d Hd
              (rpath_eqb_refl _)) as [x Fx].
  unfold listed. rewrite Fx. f_equal.
  destruct (listed_some _ _ _ Fx) as [Hx Cx].
  apply (NoDup_map_eq e_apath l x d N Hx Hd). apply comps_inj; auto.
Qed.

Lemma node_at_empty q : q <> [] -> node_at [] q = None.
Proof. destruct q; [congruence|reflexivity]. Qed.

Lemma through_empty b p : through [] b p = false.
Proof.
  apply through_false_iff. split.
  - intros q P. rewrite node_at_empty by apply P. reflexivity.
  - intros _. destruct p; reflexivity.
Qed.

(* create_dir_all in the empty destination *)
Lemma mkdir_all_empty p : mkdir_all [] p = (mkdirs [] p, ROk).
Proof.
  unfold mkdir_all. rewrite through_empty.
  match goal with |- context [existsb ?g ?l] => assert (X : existsb g l = false) end.
  { apply existsb_false_forall. intros q _. destruct q; reflexivity. }
  rewrite X. reflexivity.
Qed.

Lemma mkdirs_empty_node p q :
  q <> [] -> node_at (mkdirs [] p) q = if rpath_eqb p q || (negb (rpath_eqb p q) && under q p) then Some NDir else None.
Proof.
  intros Hq. rewrite mkdirs_node, (node_at_empty q Hq).
  destruct (existsb (rpath_eqb q) (prefixes p ++ [p])) eqn:X.
  - apply existsb_chain in X. destruct X as [P| ->].
    + destruct (ppre_under _ _ P) as [U Ne]. rewrite (rpath_eqb_neq p q) by congruence.
      cbn. rewrite U. reflexivity.
    + rewrite rpath_eqb_refl. reflexivity.
  - destruct (rpath_eqb p q) eqn:E.
    + apply rpath_eqb_eq in E. subst q.
      assert (existsb (rpath_eqb p) (prefixes p ++ [p]) = true) by (apply existsb_chain; right; reflexivity).
      congruence.
    + cbn. destruct (under q p) eqn:U; [|reflexivity].
      assert (Ne : q <> p) by (intros ->; rewrite rpath_eqb_refl in E; discriminate).
      apply (under_ppre q p Hq Ne) in U.
      assert (existsb (rpath_eqb q) (prefixes p ++ [p]) = true) by (apply existsb_chain; left; exact U).
      congruence.
Qed.

(* ------------------------------------------------------------------------- *)
(** * 4. One quiet turn, whatever the listing                                  *)
(* ------------------------------------------------------------------------- *)
Section Turn.
  Variable content_of : entry -> bytes.

  (* the directories above p are there, p is not: the entry is made at p, nothing else changes *)
  Lemma kind_part_clean s e p a :
    (forall q, ppre q p -> node_at (d_fs s) q = Some NDir) ->
    (p <> [] -> node_at (d_fs s) p = None) ->
    e_kind e <> KUnknown -> (e_kind e = KSymlink -> e_target e <> None) -> (p = [] -> e_kind e = KDir) ->
    let s' := kind_part content_of s e p a in
    d_errs s' = d_errs s /\ d_failed s' = d_failed s /\ d_done s' = d_done s ++ [a] /\
    (forall x, In x (d_links s') -> In x (d_links s) \/ (x = a /\ e_kind e = KSymlink)) /\
    (p = [] -> d_fs s' = d_fs s) /\
    (p <> [] -> forall q, node_at (d_fs s') q =
                          if rpath_eqb p q then Some (node_of content_of e) else node_at (d_fs s) q).
  Proof.
    intros F1 Np KU TG RT s'. subst s'.
    assert (T : forall b, p <> [] -> through (d_fs s) b p = false).
    { intros b Hp. apply through_false_iff. split.
      - intros q P. rewrite (F1 q P). reflexivity.
      - intros _. rewrite (Np Hp). reflexivity. }
    assert (Par : p <> [] -> is_dir (node_at (d_fs s) (parent p)) = true).
    { intros Hp. destruct (parent p) as [|c par] eqn:Ep; [reflexivity|]. rewrite <- Ep.
      rewrite (F1 (parent p)); [reflexivity|]. apply ppre_parent.
      split; [exact Hp|]. split; [congruence|left; reflexivity]. }
    unfold kind_part, node_of. destruct (e_kind e) eqn:K.
    - (* file *)
      assert (Hp : p <> []) by (intros C; pose proof (RT C); congruence).
      unfold create_file. rewrite (T true Hp), (Par Hp), (Np Hp). cbn [negb is_dir].
      cbn [add_done with_fs d_errs d_failed d_done d_links d_fs].
      repeat split; auto; [congruence|]. intros _ q. apply node_at_put. exact Hp.
    - (* directory *)
      destruct p as [|c p'] eqn:Ep.
      + cbn [add_done add_defer d_errs d_failed d_done d_links d_fs]. repeat split; auto. congruence.
      + rewrite <- Ep in *. assert (Hp : p <> []) by (rewrite Ep; discriminate). clear Ep c p'.
        unfold restore_dir, mkdir_all. rewrite (T true Hp), (Np Hp). cbn [is_file]. rewrite andb_false_r.
        match goal with |- context [existsb ?g ?l] => assert (NFc : existsb g l = false) end.
        { apply existsb_false_forall. intros q Hq. apply in_chain in Hq.
          destruct Hq as [P| ->]; [rewrite (F1 q P)|rewrite (Np Hp)]; reflexivity. }
        rewrite NFc. cbn [add_done add_defer with_fs d_errs d_failed d_done d_links d_fs].
        repeat split; auto; [congruence|]. intros _ q.
        exact (mkdirs_only_p (d_fs s) p Hp (Np Hp) F1 q).
    - (* symlink *)
      assert (Hp : p <> []) by (intros C; pose proof (RT C); congruence).
      destruct (e_target e) as [t|] eqn:Et; [|exfalso; exact (TG eq_refl eq_refl)].
      unfold make_link. rewrite (T false Hp), (Par Hp), (Np Hp). cbn [negb].
      cbn [add_done add_link with_fs d_errs d_failed d_done d_links d_fs].
      repeat split; auto; [| congruence |].
      + intros x Hx. apply in_app_iff in Hx. destruct Hx as [Hx|[<-|[]]]; auto.
      + intros _ q. apply node_at_put. exact Hp.
    - congruence.
  Qed.

  (* ... and the whole turn is that *)
  Lemma step_clean s e :
    (forall q, ppre q (comps (e_apath e)) -> node_at (d_fs s) q = Some NDir) ->
    (comps (e_apath e) <> [] -> node_at (d_fs s) (comps (e_apath e)) = None) ->
    existsb (fun link => beneath link e) (d_links s) = false -> d_failed s = [] ->
    restore_entry content_of false s e = kind_part content_of s e (comps (e_apath e)) (e_apath e).
  Proof.
    intros F1 Np F3 Fa. rewrite restore_entry_eq, F3.
    change (chk_part false s (comps (e_apath e))) with (s, true). cbn [negb].
    rewrite par_part_clean; [reflexivity|exact Fa| |].
    - apply through_false_iff. split; [intros q P; rewrite (F1 q P); reflexivity|].
      intros _. destruct (comps (e_apath e)) as [|c p'] eqn:Ep; [reflexivity|].
      rewrite Np by discriminate. reflexivity.
    - destruct (parent (comps (e_apath e))) as [|c par] eqn:Ep; [discriminate|]. rewrite <- Ep.
      rewrite (F1 (parent (comps (e_apath e)))); [discriminate|]. apply ppre_parent.
      split; [intros C0; rewrite C0 in Ep; discriminate|]. split; [congruence|left; reflexivity].
  Qed.
End Turn.

Lemma restore_entry_false_eq content_of s e :
  restore_entry content_of false s e =
  if existsb (fun link => beneath link e) (d_links s) then add_err s
  else
    let '(s3, go3) := par_part s e (comps (e_apath e)) (e_apath e) in
    if negb go3 then s3 else kind_part content_of s3 e (comps (e_apath e)) (e_apath e).
Proof. reflexivity. Qed.

(* a directory entry in the empty destination *)
Lemma kind_part_dir_empty content_of s e p a :
  e_kind e = KDir -> p <> [] -> d_fs s = [] ->
  kind_part content_of s e p a = add_done (add_defer (with_fs s (mkdirs [] p)) p) a.
Proof.
  intros K Hp Hf. unfold kind_part. rewrite K. destruct p as [|c p'] eqn:Ep; [congruence|].
  rewrite <- Ep in *. unfold restore_dir. rewrite Hf, through_empty, (node_at_empty p Hp).
  cbn [is_file]. rewrite andb_false_r, mkdir_all_empty. reflexivity.
Qed.

(* ------------------------------------------------------------------------- *)
(** * 5. The subtree                                                           *)
(* ------------------------------------------------------------------------- *)
Section Subtree.
  Variable content_of : entry -> bytes.
  Variable es : list entry.
  Variable root : rpath.
  Variable d : entry.
  Hypothesis TL : tree_listing es.
  Hypothesis Hroot : root <> [].
  Hypothesis Hd : In d es.
  Hypothesis Cd : comps (e_apath d) = root.
  Hypothesis Kd : e_kind d = KDir.

  Let u (e : entry) : bool := under root (comps (e_apath e)).

  (* the destination is the part of the subtree listed so far, and the directories above *)
  Definition BuiltR (l : list entry) (s : dstate) : Prop :=
    d_errs s = 0 /\ d_failed s = [] /\ d_done s = map e_apath l /\
    (forall a, In a (d_links s) -> exists x, In x l /\ e_apath x = a /\ e_kind x = KSymlink) /\
    (forall p, p <> [] ->
       node_at (d_fs s) p =
       match listed l p with
       | Some e => Some (node_of content_of e)
       | None => if under p root then Some NDir else None
       end).

  Let V : forall e, In e es -> is_valid (e_apath e) = true := proj1 TL.
  Let N : NoDup (map e_apath es) := proj1 (proj2 TL).

  Lemma same_comps_same_entry x y : In x es -> In y es -> comps (e_apath x) = comps (e_apath y) -> x = y.
  Proof.
    intros Hx Hy C. apply (NoDup_map_eq e_apath es x y N Hx Hy). apply comps_inj; auto.
  Qed.

  Lemma ud : u d = true.
  Proof. unfold u. rewrite Cd. apply under_refl. Qed.

  (* the first entry of the subtree is its root *)
  Lemma first_is_root l1 e l2 :
    es = l1 ++ e :: l2 -> u e = true -> ~ In d l1 -> e = d.
  Proof.
    intros E Ue Nd.
    assert (He : In e es) by (rewrite E; apply in_app_iff; right; left; reflexivity).
    unfold u in Ue. apply under_spec in Ue. destruct Ue as [r Er].
    destruct r as [|c rest].
    - apply same_comps_same_entry; auto. rewrite Er, app_nil_r. symmetry. exact Cd.
    - exfalso. pose proof TL as (_ & _ & _ & _ & _ & PF).
      destruct (PF l1 e l2 root E) as [x [Hx [Cx _]]].
      { split; [exact Hroot|]. exists c, rest. exact Er. }
      assert (x = d); [|subst; contradiction].
      apply same_comps_same_entry; auto; [|congruence].
      rewrite E. apply in_app_iff. left. exact Hx.
  Qed.

  (* the turn for the subtree's root, in the empty destination *)
  Lemma root_turn : BuiltR [d] (restore_entry content_of false (start []) d).
  Proof.
    rewrite restore_entry_eq. cbn [start d_links existsb].
    change (chk_part false (start []) (comps (e_apath d))) with (start [], true). cbn [negb].
    unfold par_part. rewrite Kd. cbn [kind_eqb negb andb].
    rewrite Cd, (kind_part_dir_empty content_of (start []) d root (e_apath d) Kd Hroot eq_refl).
    unfold BuiltR. cbn [add_done add_defer with_fs start d_errs d_failed d_done d_links d_fs map app].
    split; [reflexivity|]. split; [reflexivity|]. split; [reflexivity|]. split; [intros a []|].
    intros p Hp. rewrite (mkdirs_empty_node root p Hp). unfold listed. cbn [find]. rewrite Cd.
    destruct (rpath_eqb root p) eqn:E; cbn [orb negb andb].
    - unfold node_of. rewrite Kd. reflexivity.
    - reflexivity.
  Qed.

  (* a later turn *)
  Lemma sub_turn l1 e l2 s :
    es = l1 ++ e :: l2 -> u e = true -> In d l1 -> BuiltR (filter u l1) s ->
    BuiltR (filter u l1 ++ [e]) (restore_entry content_of false s e).
  Proof.
    intros E Ue Hdl (B1 & B2 & B3 & B4 & B5).
    pose proof TL as (_ & _ & KU & TG & RT & PF).
    assert (He : In e es) by (rewrite E; apply in_app_iff; right; left; reflexivity).
    assert (Sub1 : forall x, In x l1 -> In x es) by (intros x Hx; rewrite E; apply in_app_iff; left; exact Hx).
    assert (SubF : forall x, In x (filter u l1) -> In x l1) by (intros x Hx; apply filter_In in Hx; tauto).
    assert (N1 : NoDup (map e_apath l1)) by (pose proof N as N'; rewrite E, map_app in N'; exact (NoDup_app_l _ _ N')).
    assert (NF : NoDup (map e_apath (filter u l1))) by (apply NoDup_map_filter'; exact N1).
    assert (VF : forall x, In x (filter u l1) -> is_valid (e_apath x) = true) by (intros x Hx; apply V, Sub1, SubF, Hx).
    assert (Na : ~ In (e_apath e) (map e_apath l1)).
    { pose proof N as N'. rewrite E, map_app in N'. cbn [map] in N'. apply NoDup_remove_2 in N'.
      intros H. apply N'. apply in_app_iff. left. exact H. }
    set (p := comps (e_apath e)) in *.
    assert (Up : exists r, p = root ++ r) by (apply under_spec; exact Ue).
    assert (Hp : p <> []) by (destruct Up as [r ->]; destruct root; [congruence|discriminate]).
    (* what lies above p *)
    assert (F1 : forall q, ppre q p -> node_at (d_fs s) q = Some NDir).
    { intros q P. rewrite B5 by apply P. destruct (under root q) eqn:Uq.
      - destruct (PF l1 e l2 q E P) as [x [Hx [Cx Kx]]].
        assert (Hxf : In x (filter u l1)) by (apply filter_In; split; [exact Hx|unfold u; rewrite Cx; exact Uq]).
        rewrite <- Cx, (listed_unique _ x VF NF Hxf). unfold node_of. rewrite Kx. reflexivity.
      - assert (Uqr : under q root = true).
        { destruct Up as [r Er]. destruct P as [_ [c [rest Eq]]]. rewrite Er in Eq.
          destruct (prefixes_comparable q root (c :: rest) r (eq_sym Eq)) as [[x ->]|[x ->]].
          - apply under_spec. exists x. reflexivity.
          - assert (under root (root ++ x) = true) by (apply under_spec; exists x; reflexivity). congruence. }
        destruct (listed (filter u l1) q) as [x|] eqn:L; [exfalso|rewrite Uqr; reflexivity].
        destruct (listed_some _ _ _ L) as [Hx Cx]. apply filter_In in Hx. destruct Hx as [_ Ux].
        unfold u in Ux. rewrite Cx in Ux. congruence. }
    assert (F2 : listed (filter u l1) p = None).
    { destruct (listed (filter u l1) p) as [x|] eqn:L; [exfalso|reflexivity].
      destruct (listed_some _ _ _ L) as [Hx Cx]. apply Na.
      rewrite <- (comps_inj _ _ (V x (Sub1 x (SubF x Hx))) (V e He) Cx). apply in_map, SubF, Hx. }
    assert (Np : p <> [] -> node_at (d_fs s) p = None).
    { intros _. rewrite (B5 p Hp), F2. destruct (under p root) eqn:Upr; [exfalso|reflexivity].
      assert (p = root) by (apply under_antisym; [exact Upr|exact Ue]).
      apply Na. replace (e_apath e) with (e_apath d); [apply in_map; exact Hdl|].
      apply comps_inj; [apply V; exact Hd|apply V; exact He|]. rewrite Cd. symmetry. assumption. }
    assert (F3 : existsb (fun link => beneath link e) (d_links s) = false).
    { apply existsb_false_forall. intros link Hl.
      destruct (B4 link Hl) as [x [Hx [Ax Kx]]]. pose proof (SubF x Hx) as Hx1.
      destruct (beneath link e) eqn:Bn; [exfalso|reflexivity].
      unfold beneath in Bn. apply andb_true_iff in Bn. destruct Bn as [Pre Neq].
      assert (Vx : is_valid link = true) by (rewrite <- Ax; apply V, Sub1, Hx1).
      unfold is_prefix_of in Pre. rewrite (is_prefix_of_spec _ _ Vx (V e He)) in Pre.
      apply comp_prefix_spec in Pre. destruct Pre as [r Er].
      assert (Nl : link <> e_apath e) by (intros El; rewrite El, str_eqb_refl in Neq; discriminate).
      assert (Pp : ppre (comps link) p).
      { split.
        - intros C. assert (e_kind x = KDir) by (apply RT; [apply Sub1, Hx1|rewrite Ax; exact C]). congruence.
        - destruct r as [|c rest]; [|exists c, rest; exact Er].
          exfalso. apply Nl. apply comps_inj; [exact Vx|apply V; exact He|].
          unfold p in *. rewrite Er, app_nil_r. reflexivity. }
      destruct (PF l1 e l2 _ E Pp) as [y [Hy [Cy Ky]]].
      assert (y = x); [|subst; congruence].
      apply same_comps_same_entry; auto. rewrite Ax. exact Cy. }
    rewrite (step_clean content_of s e F1 Np F3 B2). fold p.
    destruct (kind_part_clean content_of s e p (e_apath e) F1 Np (KU e He) (TG e He)
                (fun C => RT e He C)) as (K1 & K2 & K3 & K4 & _ & K6).
    unfold BuiltR. rewrite K1, K2, K3, B3, map_app. repeat split; auto.
    - intros a Ha. destruct (K4 a Ha) as [H|[-> K]].
      + destruct (B4 a H) as [x [Hx Px]]. exists x. split; [apply in_app_iff; left; exact Hx|exact Px].
      + exists e. split; [apply in_app_iff; right; left; reflexivity|auto].
    - intros q Hq. rewrite (K6 Hp q), listed_snoc. fold p.
      destruct (rpath_eqb p q) eqn:Eq.
      + apply rpath_eqb_eq in Eq. subst q. rewrite F2. reflexivity.
      + rewrite (B5 q Hq). destruct (listed (filter u l1) q); reflexivity.
  Qed.

  Definition SubInv (l1 : list entry) (s : dstate) : Prop :=
    (~ In d l1 /\ filter u l1 = [] /\ s = start []) \/ (In d l1 /\ BuiltR (filter u l1) s).

  Lemma sub_loop l2 : forall l1 s,
    es = l1 ++ l2 -> SubInv l1 s ->
    SubInv (l1 ++ l2) (fold_left (restore_entry content_of false) (filter u l2) s).
  Proof.
    induction l2 as [|e l2 IH]; intros l1 s E I; [rewrite app_nil_r; exact I|].
    replace (l1 ++ e :: l2) with ((l1 ++ [e]) ++ l2) by (rewrite <- app_assoc; reflexivity).
    cbn [filter]. destruct (u e) eqn:Ue.
    - cbn [fold_left]. apply IH; [rewrite <- app_assoc; exact E|].
      right. split; [|rewrite filter_app; cbn [filter]; rewrite Ue].
      + destruct I as [[Nd _]|[Hdl _]].
        * rewrite (first_is_root l1 e l2 E Ue Nd). apply in_app_iff. right. left. reflexivity.
        * apply in_app_iff. left. exact Hdl.
      + destruct I as [[Nd [F0 ->]]|[Hdl B]].
        * rewrite F0. cbn [app]. rewrite (first_is_root l1 e l2 E Ue Nd). exact root_turn.
        * exact (sub_turn l1 e l2 s E Ue Hdl B).
    - apply IH; [rewrite <- app_assoc; exact E|].
      unfold SubInv. rewrite filter_app. cbn [filter]. rewrite Ue, app_nil_r.
      destruct I as [[Nd [F0 ->]]|[Hdl B]]; [left|right].
      + split; [|auto]. intros H. apply in_app_iff in H. destruct H as [H|[H|[]]]; [contradiction|].
        subst e. rewrite ud in Ue. discriminate.
      + split; [apply in_app_iff; left; exact Hdl|exact B].
  Qed.

  Lemma sub_built : BuiltR (subtree_of root es) (fold_left (restore_entry content_of false) (subtree_of root es) (start [])).
  Proof.
    destruct (sub_loop es [] (start []) eq_refl) as [[Nd _]|[_ B]].
    - left. split; [intros []|auto].
    - contradiction.
    - exact B.
  Qed.
End Subtree.

Lemma fresh_good content_of es :
  (forall e, In e es -> is_valid (e_apath e) = true) -> NoDup (map e_apath es) ->
  Good (fold_left (restore_entry content_of false) es (start [])).
Proof.
  intros V N. apply fresh_loop; auto.
  - apply Good_start, tree_like_nil.
  - intros q L. destruct q; discriminate.
  - intros a [].
Qed.

Theorem subtree_restore_builds_the_subtree :
  forall content_of es root s,
    tree_listing es ->
    (root = [] \/ exists d, In d es /\ comps (e_apath d) = root /\ e_kind d = KDir) ->
    restore_into content_of false [] (subtree_of root es) = Some s ->
    d_esc s = 0 /\ d_errs s = 0 /\ d_done s = map e_apath (subtree_of root es) /\
    (forall p, p <> [] -> node_at (d_fs s) p = sub_spec content_of es root p).
Proof.
  intros content_of es root s TL HR H.
  destruct root as [|c0 r0] eqn:Er.
  - (* the whole tree *)
    assert (E : subtree_of [] es = es) by (apply filter_all; intros x; reflexivity).
    rewrite E in *. destruct (fresh_restore_builds_the_tree content_of es s TL H) as (H1 & H2 & H3 & H4).
    repeat split; auto.
  - rewrite <- Er in *. assert (Hroot : root <> []) by (rewrite Er; discriminate). clear Er c0 r0.
    destruct HR as [->|(d & Hd & Cd & Kd)]; [congruence|].
    unfold restore_into in H. cbn [negb andb] in H. injection H as <-.
    pose proof (sub_built content_of es root d TL Hroot Hd Cd Kd) as (B1 & _ & B3 & _ & B5).
    pose proof TL as (V & N & _).
    assert (G : Good (fold_left (restore_entry content_of false) (subtree_of root es) (start []))).
    { apply fresh_good.
      - intros e He. apply V. apply filter_In in He. tauto.
      - apply NoDup_map_filter'. exact N. }
    rewrite (apply_deferrals_good _ G). split; [apply G|]. split; [exact B1|]. split; [exact B3|].
    intros p Hp. rewrite (B5 p Hp). unfold sub_spec, spec_node.
    destruct (under root p) eqn:U.
    + assert (EL : listed (subtree_of root es) p = listed es p).
      { unfold listed, subtree_of. apply find_filter. intros x Hx. apply rpath_eqb_eq in Hx. rewrite Hx. exact U. }
      rewrite EL. destruct (listed es p) eqn:L; [reflexivity|].
      destruct (under p root) eqn:U2; [exfalso|reflexivity].
      assert (p = root) by (apply under_antisym; assumption). subst p.
      rewrite <- Cd in L. rewrite (listed_unique es d V N Hd) in L. discriminate.
    + destruct (listed (subtree_of root es) p) as [x|] eqn:L; [exfalso|reflexivity].
      destruct (listed_some _ _ _ L) as [Hx Cx]. apply filter_In in Hx. destruct Hx as [_ Ux].
      rewrite Cx in Ux. congruence.
Qed.

(* ------------------------------------------------------------------------- *)
(** * 6. A single file or symlink                                              *)
(* ------------------------------------------------------------------------- *)
Theorem single_entry_restore :
  forall content_of e s,
    is_valid (e_apath e) = true -> comps (e_apath e) <> [] ->
    (e_kind e = KFile \/ (e_kind e = KSymlink /\ e_target e <> None)) ->
    restore_into content_of false [] [e] = Some s ->
    d_esc s = 0 /\ d_errs s = 0 /\ d_done s = [e_apath e] /\
    (forall q, q <> [] ->
       node_at (d_fs s) q =
       if rpath_eqb (comps (e_apath e)) q then Some (node_of content_of e)
       else if under q (comps (e_apath e)) then Some NDir        (* made by create_dir_all of the parent *)
       else None).
Proof.
  intros content_of e s V Hp HK H.
  unfold restore_into in H. cbn [negb andb] in H. injection H as <-.
  assert (G : Good (fold_left (restore_entry content_of false) [e] (start []))).
  { apply fresh_good.
    - intros x [<-|[]]. exact V.
    - cbn. constructor; [intros []|constructor]. }
  cbn [fold_left] in G. rewrite (apply_deferrals_good _ G). split; [apply G|]. clear G.
  rewrite restore_entry_false_eq. change (d_links (start [])) with (@nil str). cbn [existsb].
  set (p := comps (e_apath e)) in *.
  assert (Kn : kind_eqb (e_kind e) KDir = false) by (destruct HK as [->|[-> _]]; reflexivity).
  (* the parent is made *)
  set (f3 := match parent p with [] => [] | _ => mkdirs [] (parent p) end).
  assert (E3 : par_part (start []) e p (e_apath e) = (with_fs (start []) f3, true)).
  { unfold par_part. rewrite Kn. cbn [negb andb start d_failed existsb d_fs].
    unfold exists_follow. rewrite through_empty. unfold f3.
    destruct (parent p) as [|c par] eqn:Ep; [reflexivity|]. rewrite <- Ep.
    rewrite node_at_empty by (rewrite Ep; discriminate). rewrite mkdir_all_empty. reflexivity. }
  assert (F3 : forall q, q <> [] -> node_at f3 q = if negb (rpath_eqb p q) && under q p then Some NDir else None).
  { intros q Hq. unfold f3. destruct (parent p) as [|c par] eqn:Ep.
    - rewrite (node_at_empty q Hq). destruct (rpath_eqb p q) eqn:E; [reflexivity|]. cbn [negb andb].
      destruct (under q p) eqn:U; [exfalso|reflexivity].
      assert (Ne : q <> p) by (intros ->; rewrite rpath_eqb_refl in E; discriminate).
      apply (under_ppre q p Hq Ne) in U. exact (parent_nil_no_ppre q p Ep U).
    - rewrite <- Ep. rewrite (mkdirs_empty_node (parent p) q Hq).
      assert (Hpar : parent p <> []) by (rewrite Ep; discriminate).
      assert (PP : ppre (parent p) p) by (apply ppre_parent; split; [exact Hp|]; split; [exact Hpar|left; reflexivity]).
      destruct (rpath_eqb p q) eqn:E.
      + apply rpath_eqb_eq in E. subst q. cbn [negb andb].
        destruct (ppre_under _ _ PP) as [U Ne]. rewrite (rpath_eqb_neq (parent p) p Ne). cbn [orb negb andb].
        destruct (under p (parent p)) eqn:U2; [exfalso|reflexivity].
        apply Ne. apply under_antisym; assumption.
      + cbn [negb andb]. assert (Ne : q <> p) by (intros ->; rewrite rpath_eqb_refl in E; discriminate).
        destruct (rpath_eqb (parent p) q) eqn:E2.
        * apply rpath_eqb_eq in E2. subst q. cbn [orb]. rewrite (proj1 (ppre_under _ _ PP)). reflexivity.
        * cbn [orb negb andb].
          assert (Ne2 : q <> parent p) by (intros ->; rewrite rpath_eqb_refl in E2; discriminate).
          destruct (under q (parent p)) eqn:U.
          -- apply (under_ppre q (parent p) Hq Ne2) in U.
             assert (P : ppre q p) by (apply ppre_parent; split; [exact Hp|]; split; [exact Hpar|right; exact U]).
             rewrite (proj1 (ppre_under _ _ P)). reflexivity.
          -- destruct (under q p) eqn:U2; [exfalso|reflexivity].
             apply (under_ppre q p Hq Ne) in U2. apply ppre_parent in U2.
             destruct U2 as (_ & _ & [->|P]); [congruence|].
             rewrite (proj1 (ppre_under _ _ P)) in U. discriminate. }
  rewrite E3. cbn [negb].
  assert (F1 : forall q, ppre q p -> node_at (d_fs (with_fs (start []) f3)) q = Some NDir).
  { intros q P. cbn [with_fs d_fs]. rewrite F3 by apply P.
    destruct (ppre_under _ _ P) as [U Ne]. rewrite (rpath_eqb_neq p q) by congruence. cbn. rewrite U. reflexivity. }
  assert (Np : p <> [] -> node_at (d_fs (with_fs (start []) f3)) p = None).
  { intros _. cbn [with_fs d_fs]. rewrite (F3 p Hp), rpath_eqb_refl. reflexivity. }
  destruct (kind_part_clean content_of (with_fs (start []) f3) e p (e_apath e) F1 Np) as (K1 & _ & K3 & _ & _ & K6).
  { destruct HK as [->|[-> _]]; discriminate. }
  { intros KS. destruct HK as [K|[_ T]]; [congruence|exact T]. }
  { intros C. congruence. }
  split; [rewrite K1; reflexivity|]. split; [rewrite K3; reflexivity|].
  intros q Hq. rewrite (K6 Hp q). cbn [with_fs d_fs]. destruct (rpath_eqb p q) eqn:E; [reflexivity|].
  rewrite (F3 q Hq), E. reflexivity.
Qed.

(* ------------------------------------------------------------------------- *)
(** * 7. Instances                                                             *)
(* ------------------------------------------------------------------------- *)
(* the listing of DestTreeP: / /a /a/x /a/k->t /a/n /a/n/deep /b /b/c /b/c/d /z *)
Example subtree_example :
  tree_listingb ex_listing = true /\
  (* the subtree /a/n *)
  map e_apath (subtree_of [[97]; [110]] ex_listing) = [[47; 97; 47; 110]; [47; 97; 47; 110; 47; 100; 101; 101; 112]] /\
  (exists s, restore_into content_bang false [] (subtree_of [[97]; [110]] ex_listing) = Some s /\
     d_esc s = 0 /\ d_errs s = 0 /\
     d_fs s = [ ([[97]; [110]; [100; 101; 101; 112]], NFile [47; 97; 47; 110; 47; 100; 101; 101; 112; 33]);
                ([[97]; [110]], NDir); ([[97]], NDir) ]) /\
  (* the subtree /b *)
  (exists s, restore_into content_bang false [] (subtree_of [[98]] ex_listing) = Some s /\
     d_esc s = 0 /\ d_errs s = 0 /\
     d_fs s = [ ([[98]; [99]; [100]], NFile [47; 98; 47; 99; 47; 100; 33]); ([[98]; [99]], NDir); ([[98]], NDir) ]) /\
  (* the single file /b/c/d, the single symlink /a/k *)
  (exists s, restore_into content_bang false [] [mk_entry [47; 98; 47; 99; 47; 100] KFile None] = Some s /\
     d_esc s = 0 /\ d_errs s = 0 /\
     d_fs s = [ ([[98]; [99]; [100]], NFile [47; 98; 47; 99; 47; 100; 33]); ([[98]; [99]], NDir); ([[98]], NDir) ]) /\
  (exists s, restore_into content_bang false [] [mk_entry [47; 97; 47; 107] KSymlink (Some [116])] = Some s /\
     d_esc s = 0 /\ d_errs s = 0 /\
     d_fs s = [ ([[97]; [107]], NLink [116]); ([[97]], NDir) ]).
Proof.
  split; [vm_compute; reflexivity|]. split; [vm_compute; reflexivity|].
  repeat split; (eexists; split; [vm_compute; reflexivity|]; vm_compute; repeat split; reflexivity).
Qed.

(* the theorem on the instance *)
Example subtree_example_by_theorem :
  forall s, restore_into content_bang false [] (subtree_of [[97]; [110]] ex_listing) = Some s ->
  forall p, p <> [] -> node_at (d_fs s) p = sub_spec content_bang ex_listing [[97]; [110]] p.
Proof.
  intros s H.
  apply (subtree_restore_builds_the_subtree content_bang ex_listing [[97]; [110]] s
           (tree_listingb_sound ex_listing (proj1 tree_listing_example))); [|exact H].
  right. exists (mk_entry [47; 97; 47; 110] KDir None). split; [|split; reflexivity].
  cbn. tauto.
Qed.

Print Assumptions subtree_restore_builds_the_subtree.
Print Assumptions single_entry_restore.
Print Assumptions subtree_example.
Print Assumptions subtree_example_by_theorem.
