(* Other archive operations as programs over storage: create. (delete, list, restore,
   validate are in Delete.v / Read.v.)  Model file: definitions only. *)
From CV Require Import Base.Str Apath Entry Store.
Local Open Scope N_scope.

(* Archive::create *)
Definition init_prog : prog bool :=
  let rest :=
    Do (OpMkdir DBlocks) (fun r =>
      match r with
      | ROk => Do (OpWrite PHeader PlJson CreateNew) (fun r2 => match r2 with ROk => Ret true | _ => Ret false end)
      | _ => Ret false
      end) in
  Do (OpList DRoot) (fun r =>
    match r with
    | RList [] [] => rest
    | RList _ _ => Ret false                                   (* NewArchiveDirectoryNotEmpty *)
    | RErr ENotFound => Do (OpMkdir DRoot) (fun r1 => match r1 with ROk => rest | _ => Ret false end)
    | _ => Ret false
    end).
