(* C05, second clause, in terms of restore: "if the delete is killed at any point, or a
   storage operation fails, every REMAINING complete version still restores exactly".

   [delete_remaining_intact] (DeleteRemP.v): every band directory that exists in a state of
   a delete run -- named for deletion or not -- has its files and referenced blocks
   unchanged.  [restore_same_band] (HistoryP.v): restoring a complete band reads that band
   and the blocks it references only.  Together: at every state of every run of
   [delete_prog], a band that was complete when the delete started and is still there
   restores to exactly what it restored to before: the same entries, the same contents, the
   same error count.  ([HistoryP.delete_restore_stable] is the case [~ In b ids].) *)
From Coq Require Import Lia List Bool NArith.
From CV Require Import Base.Str Entry Store Backup Ops Delete Read SafeP Inv FrameP DeleteP History HistoryP DeleteRemP.
Import ListNotations.
Local Open Scope N_scope.

Section DeleteRemRestore.
  Variable pre : bytes -> N.

  (** EVERY REMAINING COMPLETE VERSION RESTORES EXACTLY: for every fault list of the delete
      (failures, a kill anywhere), whatever [ids] names, at every state the archive passes
      through and at the end: if the directory of band [b] (complete before the delete) is
      still there, [b] is still complete and restores to exactly what it restored to before. *)
  Theorem delete_remaining_restore_stable : forall ids dry brk hint keep a0 b phi,
    RInv pre a0 -> complete a0 b ->
    Forall (fun a => has_dir a (DBand b) = true ->
                     restore_of pre keep a b = restore_of pre keep a0 b /\ complete a b)
           (all_states pre (delete_prog ids dry brk hint) a0 phi).
  Proof.
    intros ids dry brk hint keep a0 b phi HI0 Hc.
    pose proof (delete_rinv_all pre ids dry brk hint a0 phi HI0) as HR.
    destruct (delete_remaining_intact pre ids dry brk hint a0 phi (RInv_WFhunks pre a0 HI0)) as [K1 K2].
    pose proof (In_all_states pre _ _ _ _ K1 K2) as HK.
    destruct (complete_opens_closed a0 b Hc) as [Hop Hcl].
    rewrite Forall_forall in *. intros a Hin Hba.
    destruct (HK a Hin b Hba) as [Hb [SB Hbl]]. pose proof (HR a Hin) as HIa. split.
    - apply (restore_same_band pre keep a0 a b (RInv_LWF pre a0 HI0) (RInv_LWF pre a HIa) SB Hcl);
        try assumption; try apply HI0; apply HIa.
    - apply (complete_same a0 a b SB Hc).
  Qed.

  (* the same, spelt out *)
  Corollary delete_remaining_restores : forall ids dry brk hint keep a0 b phi a,
    RInv pre a0 -> complete a0 b ->
    In a (run_states pre (delete_prog ids dry brk hint) a0 phi
          ++ [snd (fst (run pre (delete_prog ids dry brk hint) a0 phi))]) ->
    has_dir a (DBand b) = true ->
    snd (run pre (restore_prog (Specified b) keep) a []) = snd (run pre (restore_prog (Specified b) keep) a0 []).
  Proof.
    intros ids dry brk hint keep a0 b phi a HI0 Hc Hin Hb.
    pose proof (delete_remaining_restore_stable ids dry brk hint keep a0 b phi HI0 Hc) as H.
    rewrite Forall_forall in H. apply (H a Hin Hb).
  Qed.
End DeleteRemRestore.

(* ------------------------------------------------------------------------- *)
(** * Examples (non-vacuity), by computation                                  *)
(* ------------------------------------------------------------------------- *)
Module DeleteRemRestoreExamples.
  Import SafeExamples DeleteExamples DeleteRemExamples.

  Example ex_a3_rinv : RInv ex_pre ex_a3.
  Proof. apply rinv_b_sound. vm_compute. reflexivity. Qed.

  (* deleting b0000 and b0001 of ex_a3, killed after b0000 was removed: b0001, named for
     deletion, is still there, complete, and restores as before; as computed ... *)
  Example ex_kill_restore_computed :
    has_dir (final del01 ex_a3 phi_kill) (DBand 1) = true
    /\ restore_of ex_pre keep_all (final del01 ex_a3 phi_kill) 1 = restore_of ex_pre keep_all ex_a3 1
    /\ match restore_of ex_pre keep_all ex_a3 1 with
       | Store.Done rr => r_ok rr = true /\ r_merr rr = 0 /\ length (r_files rr) = 3%nat
       | _ => False
       end.
  Proof. vm_compute. repeat split; reflexivity. Qed.

  (* ... and as an instance of the theorem, at every state of that run *)
  Example ex_kill_restore_thm :
    Forall (fun a => has_dir a (DBand 1) = true ->
                     restore_of ex_pre keep_all a 1 = restore_of ex_pre keep_all ex_a3 1 /\ complete a 1)
           (all_states ex_pre del01 ex_a3 phi_kill).
  Proof.
    apply delete_remaining_restore_stable; [apply ex_a3_rinv | split; vm_compute; reflexivity].
  Qed.

  (* the run written out, so that the state is literally the last element of the list *)
  Example ex_kill_restores_final :
    snd (run ex_pre (restore_prog (Specified 1) keep_all)
           (snd (fst (run ex_pre (delete_prog [0; 1] false false []) ex_a3 phi_kill))) [])
    = snd (run ex_pre (restore_prog (Specified 1) keep_all) ex_a3 []).
  Proof.
    apply (delete_remaining_restores ex_pre [0; 1] false false [] keep_all ex_a3 1 phi_kill
             (snd (fst (run ex_pre (delete_prog [0; 1] false false []) ex_a3 phi_kill)))).
    - apply ex_a3_rinv.
    - split; vm_compute; reflexivity.
    - apply in_or_app. right. left. reflexivity.
    - vm_compute. reflexivity.
  Qed.
End DeleteRemRestoreExamples.

Print Assumptions delete_remaining_restore_stable.
Print Assumptions delete_remaining_restores.
