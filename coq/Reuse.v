(* C14, the positive half: "work already stored is never stored again".
   Definitions only (lemmas and theorems: ReuseP.v).

   1. what the lazily stitched basis reader of a backup still has to yield, as a pure
      function of the archive state and of the reader's state ([rem]);
   2. the basis of a backup started in a state ([basis_of]): the stitched listing of the
      newest band directory there is, exactly as [backup_prog] reads it;
   3. the predicates the theorems are stated with and their boolean checkers. *)
From Coq Require Import List NArith ZArith Bool.
From CV Require Import Base.Str Apath Entry Stitch Store StitchProg Codec Backup Inv Valid Truth.
Import ListNotations.
Local Open Scope N_scope.

(* ------------------------------------------------------------------------- *)
(** * 1. The rest of the stitched listing, from any state of the reader        *)
(* ------------------------------------------------------------------------- *)
Section Rest.
  Variable pre : bytes -> N.

  (* the InBand arm over the remaining hunks [hs] of band [n], every entry consumed:
     the entries and the final last_apath *)
  Fixpoint hl_rest (a : arch) (n : nat) (hs : list N) (after last : option str)
    : list entry * option str :=
    match hs with
    | [] => ([], last)
    | h :: hs' =>
        match rd a (PHunk (N.of_nat n) h) with
        | RErr ENotFound => ([], last)
        | RData (Good (PlHunk es)) =>
            match phstep (Some es) after with
            | (None, after') => hl_rest a n hs' after' last
            | (Some out, after') =>
                let '(r, l) := hl_rest a n hs' after' (pnlast out last) in (out ++ r, l)
            end
        | _ => hl_rest a n hs' after last
        end
    end.

  (* State::BeforeBand to the end of the band *)
  Definition ob_rest (a : arch) (n : nat) (last : option str) : list entry * option str :=
    match head_status (rd a (PHead (N.of_nat n))) with
    | HOk =>
        match ls pre a (DIndex (N.of_nat n)) with
        | RList _ _ => hl_rest a n (hunks_listed pre a (N.of_nat n)) last last
        | _ => ([], last)
        end
    | _ => ([], last)
    end.

  (* previous_existing_band and everything that follows *)
  Fixpoint below_rest (a : arch) (n : nat) (last : option str) : list entry :=
    match n with
    | O => []
    | S m =>
        if meta_is_file (mt a (PHead (N.of_nat m))) then
          let '(r, l) := ob_rest a m last in
          r ++ (if closed a (N.of_nat m) then [] else below_rest a m l)
        else below_rest a m last
    end.

  (* State::AfterBand *)
  Definition tail_rest (a : arch) (n : nat) (last : option str) : list entry :=
    if closed a (N.of_nat n) then [] else below_rest a n last.

  (* everything the reader in state [st] with last_apath [last] still yields *)
  Definition rem (a : arch) (st : sstate) (last : option str) : list entry :=
    match st with
    | SDone => []
    | SBefore n => let '(r, l) := ob_rest a n last in r ++ tail_rest a n l
    | SInBand n hs buf after => buf ++ (let '(r, l) := hl_rest a n hs after last in r ++ tail_rest a n l)
    | SAfter n => tail_rest a n last
    end.

  (* the band the reader is at *)
  Definition st_top (st : sstate) : nat :=
    match st with SDone => O | SBefore n | SInBand n _ _ _ | SAfter n => n end.

  (* ----------------------------------------------------------------------- *)
  (** * 2. The basis of a backup                                               *)
  (* ----------------------------------------------------------------------- *)
  (* archive.last_band_id(): the largest band directory of the archive *)
  Definition newest (a : arch) : option N := max_id (band_ids (children_dirs a DRoot)).

  (* the entries the basis reader of a backup started in [a] yields when it is run to its
     end: the stitched listing of the newest band (the program of StitchProg.v computes
     exactly this function: ValidP.snext_pure); no band: nothing *)
  Definition basis_of (a : arch) : list entry :=
    match newest a with
    | Some b => snd (fst (stitch_pure pre keep_all a (N.to_nat b)))
    | None => []
    end.
End Rest.

(* ------------------------------------------------------------------------- *)
(** * 3. Predicates                                                            *)
(* ------------------------------------------------------------------------- *)

(* content_heuristically_unchanged ([Backup.unchanged] ignores its writer-state argument) *)
Definition same_meta (s : sentry) (e : entry) : bool :=
  kind_eqb (e_kind e) (s_kind s) && Z.eqb (e_ts e) (s_mtime s) && N.eqb (e_size e) (s_size s).

(* the block file named [h] is there and is not zero-length: the listing of d/ that a backup
   takes when it starts shows it as present *)
Definition block_listed (a : arch) (h : bytes) : Prop :=
  exists x, get a (PBlock h) = Some x /\ nonempty x = true.

Definition blocks_listed (a : arch) (e : entry) : Prop :=
  forall ad, In ad (e_addrs e) -> block_listed a (a_hash ad).

(* [be] is a basis entry the backup of file item [it] must reuse *)
Definition Reusable (a0 : arch) (it : sitem) (be : entry) : Prop :=
  s_kind (si_e it) = KFile
  /\ e_apath be = s_apath (si_e it)
  /\ same_meta (si_e it) be = true
  /\ blocks_listed a0 be.

(* the entry a backup under [c] records for [it] when it reuses the addresses of [be] *)
Definition reused_entry (c : cfg) (it : sitem) (be : entry) : entry :=
  with_addrs (meta_from (c_owner c) (si_e it)) (e_addrs be).

(* THE postcondition of the general theorem: every file item of [src] that has a reusable
   entry in the basis of [a0] is recorded in the new band of [a1] with that entry's addresses *)
Definition ReusesAll (pre : bytes -> N) (c : cfg) (src : list sitem) (a0 : arch) (a1 : arch) : Prop :=
  forall it be, In it src -> In be (basis_of pre a0) -> Reusable a0 it be ->
                Recorded a1 (new_band a0) (reused_entry c it be).

(* the hypothesis of "the tree has not changed since version [b]": every file of the source is
   recorded in band [b] with its apath, kind, mtime and size *)
Definition UnchangedSince (a0 : arch) (b : N) (src : list sitem) : Prop :=
  forall it, In it src -> s_kind (si_e it) = KFile ->
    exists be, Recorded a0 b be /\ e_apath be = s_apath (si_e it) /\ same_meta (si_e it) be = true.

(* ---- checkers ---- *)
Definition block_listed_b (a : arch) (h : bytes) : bool :=
  match get a (PBlock h) with Some x => nonempty x | None => false end.
Definition blocks_listed_b (a : arch) (e : entry) : bool :=
  forallb (fun ad => block_listed_b a (a_hash ad)) (e_addrs e).

Definition recorded_b (a : arch) (b : N) (e : entry) : bool :=
  existsb (entry_eqb e) (Truth.band_entries a b).

(* every file item of [src] that has a reusable entry in [basis] is recorded in band [b] of
   [a] with the addresses of that entry *)
Definition reuse_check (c : cfg) (a0 : arch) (basis : list entry) (src : list sitem) (a : arch) (b : N) : bool :=
  forallb (fun it =>
    forallb (fun be =>
      if kind_eqb (s_kind (si_e it)) KFile && str_eqb (e_apath be) (s_apath (si_e it))
         && same_meta (si_e it) be && blocks_listed_b a0 be
      then recorded_b a b (reused_entry c it be) else true) basis) src.

(* number of (item, basis entry) pairs the check is about (non-vacuity) *)
Definition reuse_count (a0 : arch) (basis : list entry) (src : list sitem) : nat :=
  length (flat_map (fun it =>
    filter (fun be =>
      kind_eqb (s_kind (si_e it)) KFile && str_eqb (e_apath be) (s_apath (si_e it))
      && same_meta (si_e it) be && blocks_listed_b a0 be) basis) src).

(* every file item of [src] has an entry in band [b] of [a] with its apath, kind, mtime and size *)
Definition unchanged_since_b (a : arch) (b : N) (src : list sitem) : bool :=
  forallb (fun it =>
    match s_kind (si_e it) with
    | KFile => existsb (fun be => str_eqb (e_apath be) (s_apath (si_e it)) && same_meta (si_e it) be)
                       (Truth.band_entries a b)
    | _ => true
    end) src.

(* the file entries recorded in band [b] of [a] are all recorded in band [b'] of [a'] *)
Definition file_entries_kept (a : arch) (b : N) (a' : arch) (b' : N) : bool :=
  forallb (fun e => match e_kind e with KFile => recorded_b a' b' e | _ => true end) (Truth.band_entries a b).
Definition file_entries_count (a : arch) (b : N) : nat :=
  length (filter (fun e => kind_eqb (e_kind e) KFile) (Truth.band_entries a b)).
