(* Model of the source-tree walk, src/source.rs: struct Iter, Iter::new,
   Iter::visit_next_directory, Iterator::next.
   Model file: executable definitions only, no proofs.

   A source tree is a finite tree whose directory nodes list their children in
   arbitrary (readdir) order.  [walk_q] transcribes the two-deque algorithm;
   [walk_rec] is the structural specification of the same listing.

   Not modelled (the model has none of these): CACHEDIR.TAG-tagged directories,
   unreadable directories, non-UTF-8 names, metadata / file-type errors,
   unsupported file kinds, files vanishing during the walk. *)
From CV Require Import Base.Str Apath Entry.

(* [TLeaf] is anything that is not a directory (file, symlink); [TDir] is a
   directory with its children in readdir order.  [M] is per-node metadata. *)
Inductive tree (M : Type) : Type :=
| TLeaf (k : kind) (m : M)
| TDir (m : M) (children : list (str * tree M)).
Arguments TLeaf {M} k m.
Arguments TDir {M} m children.

(* ---- insertion sort on a key (stands for sort_unstable / sort_unstable_by;
   keys within one directory are distinct for well-formed trees, so stability
   is immaterial there) ---- *)
Section Sort.
  Context {A K : Type} (cmp : K -> K -> comparison) (key : A -> K).

  Fixpoint insert_by (x : A) (l : list A) : list A :=
    match l with
    | [] => [x]
    | y :: l' =>
        match cmp (key x) (key y) with
        | Gt => y :: insert_by x l'
        | _ => x :: l
        end
    end.

  Fixpoint isort_by (l : list A) : list A :=
    match l with
    | [] => []
    | x :: l' => insert_by x (isort_by l')
    end.
End Sort.

(* One element of the walk output: (apath, kind, metadata). *)
Definition item (M : Type) : Type := (str * kind * M)%type.
Definition path {M} (it : item M) : str := fst (fst it).
Definition ikind {M} (it : item M) : kind := snd (fst it).
Definition imeta {M} (it : item M) : M := snd it.

(* A pending directory: its apath, and what read_dir will return for it. *)
Definition dirent (M : Type) : Type := (str * list (str * tree M))%type.

Record wstate (M : Type) : Type := {
  dir_deque : list (dirent M);       (* directories yet to be visited *)
  entry_deque : list (item M)        (* entries seen but not yet returned *)
}.
Arguments dir_deque {M} w.
Arguments entry_deque {M} w.

(* one turn of the `loop` in Iterator::next *)
Inductive step (M : Type) : Type :=
| Yield (e : item M) (st : wstate M)     (* return Some(entry) *)
| Again (st : wstate M)                  (* visited a directory; loop *)
| Finished.                              (* return None *)
Arguments Yield {M} e st.
Arguments Again {M} st.
Arguments Finished {M}.

(* result of draining the iterator in a debug build *)
Inductive outcome (M : Type) : Type :=
| WOk (l : list (item M))
| WPanic                                 (* "apaths out of order" assertion failed *)
| WOutOfFuel.
Arguments WOk {M} l.
Arguments WPanic {M}.
Arguments WOutOfFuel {M}.

Section Walk.
  Context {M : Type}.

  Definition tkind (t : tree M) : kind :=
    match t with TLeaf k _ => k | TDir _ _ => KDir end.
  Definition tmeta (t : tree M) : M :=
    match t with TLeaf _ m => m | TDir m _ => m end.
  Definition tchildren (t : tree M) : list (str * tree M) :=
    match t with TLeaf _ _ => [] | TDir _ c => c end.
  Definition is_dir (t : tree M) : bool :=          (* ft.is_dir() *)
    match t with TLeaf _ _ => false | TDir _ _ => true end.

  Definition mk_item (p : str) (t : tree M) : item M := (p, tkind t, tmeta t).

  (* The `for dir_entry in dir_iter` loop of visit_next_directory.
     Result: (subdir_apaths, children), each in push order (= readdir order).
     subdir_apaths elements carry the sub-directory's own listing. *)
  Fixpoint scan (excl : str -> bool) (parent : str) (chs : list (str * tree M))
    : list (dirent M) * list (str * item M) :=
    match chs with
    | [] => ([], [])
    | c :: rest =>
        let child_name := fst c in
        let t := snd c in
        let child_apath := append parent child_name in
        let r := scan excl parent rest in
        if excl child_apath then r                                  (* continue *)
        else ((if is_dir t then [(child_apath, tchildren t)] else []) ++ fst r,
              (child_name, mk_item child_apath t) :: snd r)
    end.

  (* visit_next_directory: sorted sub-directories go to the FRONT of dir_deque
     (Rust: reversed iteration + push_front), children sorted by name are
     appended to entry_deque. *)
  Definition visit_next_directory (excl : str -> bool) (st : wstate M)
             (parent : str) (chs : list (str * tree M)) : wstate M :=
    let r := scan excl parent chs in
    {| dir_deque := isort_by apath_cmp fst (fst r) ++ dir_deque st;
       entry_deque := entry_deque st ++ map snd (isort_by str_cmp fst (snd r)) |}.

  Definition next_iter (excl : str -> bool) (st : wstate M) : step M :=
    match entry_deque st with
    | e :: rest => Yield e {| dir_deque := dir_deque st; entry_deque := rest |}
    | [] =>
        match dir_deque st with
        | d :: rest =>
            Again (visit_next_directory excl {| dir_deque := rest; entry_deque := [] |}
                                        (fst d) (snd d))
        | [] => Finished
        end
    end.

  (* Iter::new: the root entry is preloaded (never tested against the
     exclusions) and the root is queued as a directory whatever its kind;
     visiting a non-directory root reads nothing. *)
  Definition iter_new (t : tree M) : wstate M :=
    {| dir_deque := [([SLASH], tchildren t)];
       entry_deque := [mk_item [SLASH] t] |}.

  (* `.collect()` on the iterator; [None] = out of fuel. *)
  Fixpoint collect (excl : str -> bool) (fuel : nat) (st : wstate M) : option (list (item M)) :=
    match fuel with
    | O => None
    | S f =>
        match next_iter excl st with
        | Yield e st' => option_map (cons e) (collect excl f st')
        | Again st' => collect excl f st'
        | Finished => Some []
        end
    end.

  (* Debug builds (cfg(debug_assertions)): `self.check_order.check(&entry.apath)`
     asserts `last_apath < a` on every returned entry and panics otherwise.
     Release builds compile the check away; that is [collect] above. *)
  Definition order_ok (last : option str) (a : str) : bool :=
    match last with None => true | Some l => apath_ltb l a end.

  Fixpoint collect_dbg (excl : str -> bool) (fuel : nat) (last : option str) (st : wstate M)
    : outcome M :=
    match fuel with
    | O => WOutOfFuel
    | S f =>
        match next_iter excl st with
        | Yield e st' =>
            if order_ok last (path e) then
              match collect_dbg excl f (Some (path e)) st' with
              | WOk l => WOk (e :: l)
              | o => o
              end
            else WPanic
        | Again st' => collect_dbg excl f last st'
        | Finished => WOk []
        end
    end.

  (* number of nodes *)
  Fixpoint tsize (t : tree M) : nat :=
    match t with
    | TLeaf _ _ => 1
    | TDir _ chs => S (list_sum (map (fun c => tsize (snd c)) chs))
    end.

  (* one loop turn per returned entry, one per visited directory, one to finish *)
  Definition walk_fuel (t : tree M) : nat := S (tsize t + tsize t).

  Definition walk_q (excl : str -> bool) (t : tree M) : option (list (item M)) :=
    collect excl (walk_fuel t) (iter_new t).

  Definition walk_q_dbg (excl : str -> bool) (t : tree M) : outcome M :=
    collect_dbg excl (walk_fuel t) None (iter_new t).

  (* ---- structural specification ---- *)

  (* Listing of everything strictly below directory [p] with children [chs]:
     the kept children sorted by name, then for each kept child directory in
     apath order its own listing.  [rec p' t'] is the listing below child t' at
     p'; it is computed for every child before filtering and sorting so that
     the recursion is structural. *)
  Definition dir_listing (rec : str -> tree M -> list (item M)) (excl : str -> bool)
             (p : str) (chs : list (str * tree M)) : list (item M) :=
    let all := map (fun c => (c, rec (append p (fst c)) (snd c))) chs in
    let kept := filter (fun x => negb (excl (append p (fst (fst x))))) all in
    map (fun x => mk_item (append p (fst (fst x))) (snd (fst x)))
        (isort_by str_cmp (fun x => fst (fst x)) kept)
    ++ flat_map snd
         (isort_by apath_cmp (fun x => append p (fst (fst x)))
                   (filter (fun x => is_dir (snd (fst x))) kept)).

  Fixpoint contents (excl : str -> bool) (p : str) (t : tree M) : list (item M) :=
    match t with
    | TLeaf _ _ => []
    | TDir _ chs => dir_listing (contents excl) excl p chs
    end.

  Definition walk_rec (excl : str -> bool) (t : tree M) : list (item M) :=
    mk_item [SLASH] t :: contents excl [SLASH] t.

  (* ---- all nodes, in plain pre-order ---- *)
  Fixpoint nodes_below (p : str) (t : tree M) : list (item M) :=
    match t with
    | TLeaf _ _ => []
    | TDir _ chs =>
        flat_map (fun c => mk_item (append p (fst c)) (snd c)
                           :: nodes_below (append p (fst c)) (snd c)) chs
    end.

  Definition nodes (t : tree M) : list (item M) := mk_item [SLASH] t :: nodes_below [SLASH] t.
  Definition paths_of (t : tree M) : list str := map path (nodes t).

  (* ---- well-formedness, executable form (Prop form: TreeP.WFtree) ---- *)
  Definition name_ok (n : str) : bool := part_ok n && negb (mem_byte SLASH n).

  Fixpoint distinct (l : list str) : bool :=
    match l with
    | [] => true
    | x :: l' => negb (existsb (str_eqb x) l') && distinct l'
    end.

  Fixpoint wf_treeb (t : tree M) : bool :=
    match t with
    | TLeaf _ _ => true
    | TDir _ chs =>
        forallb name_ok (map fst chs) && distinct (map fst chs)
        && forallb (fun c => wf_treeb (snd c)) chs
    end.
End Walk.
