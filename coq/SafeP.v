(* C07 "archive files are write-once" and the syntactic half of C05.

   A small program logic over [Store.prog]: which transport operations a program can
   ever emit, for EVERY sequence of replies (hence every fault list); the operation
   classes of backup / init / list / restore / validate / delete; and the semantic
   consequences on the archive state (write-once, dry-run is a no-op, fresh band id). *)
From Coq Require Import Lia.
From CV Require Import Base.Str Base.StrP Apath Entry Stitch Tree Codec Store StitchProg Backup Ops Delete Read.
Local Open Scope N_scope.

Notation arch := Store.arch.

(* ------------------------------------------------------------------------- *)
(** * 1. The logic [emits_only]                                               *)
(* ------------------------------------------------------------------------- *)

Inductive emits_only {R : Type} (P : op -> Prop) : prog R -> Prop :=
| eo_ret : forall r, emits_only P (Ret r)
| eo_panic : emits_only P Panic
| eo_do : forall o k, P o -> (forall rep, emits_only P (k rep)) -> emits_only P (Do o k).

Lemma eo_mono {R} (P Q : op -> Prop) (p : prog R) :
  (forall o, P o -> Q o) -> emits_only P p -> emits_only Q p.
Proof.
  intros HPQ H. induction H as [r| |o k Ho _ IH]; constructor; auto.
Qed.

Lemma eo_bind {A B} (P : op -> Prop) (p : prog A) (f : A -> prog B) :
  emits_only P p -> (forall r, emits_only P (f r)) -> emits_only P (bind p f).
Proof.
  intros H Hf. induction H as [r| |o k Ho _ IH]; cbn [bind]; auto; constructor; auto.
Qed.

Lemma eo_inv {R} (P : op -> Prop) (p : prog R) :
  emits_only P p ->
  match p with Do o k => P o /\ (forall rep, emits_only P (k rep)) | _ => True end.
Proof. intros H. destruct H; auto. Qed.

Lemma eo_and {R} (P Q : op -> Prop) (p : prog R) :
  emits_only P p -> emits_only Q p -> emits_only (fun o => P o /\ Q o) p.
Proof.
  intros H. induction H as [r| |o k Ho _ IH]; intros HQ; try constructor.
  - split; [assumption | apply (eo_inv _ _ HQ)].
  - intros rep. apply IH. apply (eo_inv _ _ HQ).
Qed.

Section RunFacts.
  Variable pre : bytes -> N.

  (* [run] / [run_states] of a [Do], by projections *)
  Lemma run_Do {R} (o : op) (k : reply -> prog R) (a : arch) (phi : list fault) :
    run pre (Do o k) a phi =
    match hdf phi with
    | Crash => ([], a, Crashed)
    | CrashEmpty => ([], exec_empty pre a o, Crashed)
    | f => let r := run pre (k (snd (exec pre a o f))) (fst (exec pre a o f)) (tl phi) in
           ((o, snd (exec pre a o f)) :: fst (fst r), snd (fst r), snd r)
    end.
  Proof.
    cbn [run]. destruct (hdf phi) as [|e| |]; [| |reflexivity|reflexivity].
    - destruct (exec pre a o NoFault) as [a' rep]. cbn [fst snd].
      destruct (run pre (k rep) a' (tl phi)) as [[tr af] out]. reflexivity.
    - destruct (exec pre a o (Fail e)) as [a' rep]. cbn [fst snd].
      destruct (run pre (k rep) a' (tl phi)) as [[tr af] out]. reflexivity.
  Qed.

  Lemma run_states_Do {R} (o : op) (k : reply -> prog R) (a : arch) (phi : list fault) :
    run_states pre (Do o k) a phi =
    match hdf phi with
    | Crash => []
    | CrashEmpty => [exec_empty pre a o]
    | f => fst (exec pre a o f) :: run_states pre (k (snd (exec pre a o f))) (fst (exec pre a o f)) (tl phi)
    end.
  Proof.
    cbn [run_states]. destruct (hdf phi) as [|e| |]; [| |reflexivity|reflexivity].
    - destruct (exec pre a o NoFault) as [a' rep]. reflexivity.
    - destruct (exec pre a o (Fail e)) as [a' rep]. reflexivity.
  Qed.

  (* soundness: every executed operation satisfies P *)
  Lemma emits_only_sound {R} (P : op -> Prop) (p : prog R) :
    emits_only P p ->
    forall a phi, Forall (fun x => P (fst x)) (fst (fst (run pre p a phi))).
  Proof.
    intros H. induction H as [r| |o k Ho _ IH]; intros a phi; try (cbn; constructor).
    rewrite run_Do. destruct (hdf phi) as [|e| |]; cbn [fst snd]; constructor; cbn [fst]; auto.
  Qed.

  (* a state invariant kept by every P-operation under every fault is kept along every
     run of a program that emits only P-operations, at every intermediate state, at the
     state a crash leaves, and at the end *)
  Lemma run_invariant {R} (P : op -> Prop) (Inv : arch -> Prop) :
    (forall a o f, P o -> Inv a -> Inv (fst (exec pre a o f))) ->
    (forall a o, P o -> Inv a -> Inv (exec_empty pre a o)) ->
    forall (p : prog R), emits_only P p ->
    forall a phi, Inv a ->
      Forall Inv (run_states pre p a phi) /\ Inv (snd (fst (run pre p a phi))).
  Proof.
    intros Hex Hem p H. induction H as [r| |o k Ho _ IH]; intros a phi Ha;
      try (cbn; split; [constructor | assumption]).
    rewrite run_Do, run_states_Do.
    destruct (hdf phi) as [|e| |]; cbn [fst snd].
    - destruct (IH (snd (exec pre a o NoFault)) (fst (exec pre a o NoFault)) (tl phi)) as [H1 H2]; auto.
    - destruct (IH (snd (exec pre a o (Fail e))) (fst (exec pre a o (Fail e))) (tl phi)) as [H1 H2]; auto.
    - split; [constructor | assumption].
    - split; [constructor; [|constructor] |]; auto.
  Qed.
End RunFacts.

(* ------------------------------------------------------------------------- *)
(** * 2. Operation classes                                                    *)
(* ------------------------------------------------------------------------- *)

Definition reads_only (o : op) : Prop :=
  match o with OpRead _ | OpList _ | OpMeta _ => True | _ => False end.

(* reads, mkdir, create-new writes: never a removal, never an overwrite *)
Definition add_only (o : op) : Prop :=
  match o with
  | OpRead _ | OpList _ | OpMeta _ | OpMkdir _ => True
  | OpWrite _ _ CreateNew => True
  | _ => False
  end.

Lemma reads_add o : reads_only o -> add_only o.
Proof. destruct o; cbn; tauto. Qed.

(* one syntactic step of an [emits_only] goal *)
Ltac eo_op := cbn; auto; fail.
Ltac eo_step :=
  match goal with
  | |- emits_only _ (Ret _) => apply eo_ret
  | |- emits_only _ Panic => apply eo_panic
  | |- emits_only _ (Do _ _) => apply eo_do; [eo_op | intros ?]
  | |- emits_only _ (bind _ _) => apply eo_bind; [| intros ?]
  | |- emits_only _ (match ?x with _ => _ end) => destruct x eqn:?
  end.

(* ---- the lazy stitched reader: reads only, whatever its parameters, provided every
        continuation result is ---- *)
Section StitchReads.
  Variable P : op -> Prop.
  Hypothesis HP : forall o, reads_only o -> P o.
  Variables keep skip : entry -> bool.

  Local Hint Extern 1 (P _) => (apply HP; exact I) : core.

  Lemma list_subdirs_eo b subs : forall acc kfail k,
    emits_only P kfail ->
    (forall hs, emits_only P (k hs)) -> emits_only P (list_subdirs b subs acc kfail k).
  Proof.
    induction subs as [|s subs IH]; intros acc kfail k Hf Hk; cbn [list_subdirs]; auto.
    repeat eo_step; auto.
  Qed.

  Lemma hunks_loop_eo n hs : forall after last acc merr k,
    (forall l a m, emits_only P (k l a m)) ->
    emits_only P (hunks_loop keep skip n hs after last acc merr k).
  Proof.
    induction hs as [|h hs IH]; intros after last acc merr k Hk; cbn [hunks_loop]; auto.
    repeat eo_step; auto.
  Qed.

  Lemma open_band_eo n last acc merr k :
    (forall l a m, emits_only P (k l a m)) ->
    emits_only P (open_band keep skip n last acc merr k).
  Proof.
    intros Hk. unfold open_band. repeat eo_step; auto.
    apply list_subdirs_eo; [apply Hk|]. intros hs. repeat eo_step; auto. apply hunks_loop_eo. exact Hk.
  Qed.

  Lemma after_band_eo n below last acc merr :
    (forall l a m, emits_only P (below l a m)) ->
    emits_only P (after_band n below last acc merr).
  Proof. intros Hb. unfold after_band. repeat eo_step; auto. Qed.

  Lemma below_eo n : forall last acc merr, emits_only P (below keep skip n last acc merr).
  Proof.
    induction n as [|m IH]; intros last acc merr; cbn [below]; repeat eo_step; auto.
    apply open_band_eo. intros l a m'. apply after_band_eo. exact IH.
  Qed.

  Lemma snext_eo st last merr : emits_only P (snext keep skip st last merr).
  Proof.
    unfold snext. destruct st as [|n|n hs buf after|n].
    - constructor.
    - apply open_band_eo. intros. apply after_band_eo. apply below_eo.
    - repeat eo_step. apply hunks_loop_eo. intros. apply after_band_eo. apply below_eo.
    - apply after_band_eo. apply below_eo.
  Qed.
End StitchReads.

(* ---- the same logic with a postcondition on the result (used to carry "the band id in
        the writer state never changes" through the backup sub-programs) ---- *)
Inductive emits_post {R : Type} (P : op -> Prop) (Q : R -> Prop) : prog R -> Prop :=
| ep_ret : forall r, Q r -> emits_post P Q (Ret r)
| ep_panic : emits_post P Q Panic
| ep_do : forall o k, P o -> (forall rep, emits_post P Q (k rep)) -> emits_post P Q (Do o k).

Lemma ep_eo {R} P Q (p : prog R) : emits_post P Q p -> emits_only P p.
Proof. intros H. induction H; constructor; auto. Qed.

Lemma eo_ep {R} P (p : prog R) : emits_only P p -> emits_post P (fun _ => True) p.
Proof. intros H. induction H; constructor; auto. Qed.

Lemma ep_weaken {R} (P P' : op -> Prop) (Q Q' : R -> Prop) (p : prog R) :
  (forall o, P o -> P' o) -> (forall r, Q r -> Q' r) -> emits_post P Q p -> emits_post P' Q' p.
Proof. intros HP HQ H. induction H; constructor; auto. Qed.

Lemma ep_bind {A B} P (Q : A -> Prop) (Q' : B -> Prop) (p : prog A) (f : A -> prog B) :
  emits_post P Q p -> (forall r, Q r -> emits_post P Q' (f r)) -> emits_post P Q' (bind p f).
Proof.
  intros H Hf. induction H as [r Hr| |o k Ho _ IH]; cbn [bind]; auto; constructor; auto.
Qed.

(* ---- what the body of a backup into band [b] does to the archive ---- *)
Definition body_op (b : N) (o : op) : Prop :=
  match o with
  | OpRead _ | OpList _ | OpMeta _ => True
  | OpMkdir (DBlockSub _) => True
  | OpMkdir (DHunkSub b' _) => b' = b
  | OpWrite (PBlock c) (PlBlock c') CreateNew => c' = c
  | OpWrite (PHunk b' _) (PlHunk _) CreateNew => b' = b
  | OpWrite (PTail b') (PlTail _) CreateNew => b' = b
  | _ => False
  end.

Lemma body_add b o : body_op b o -> add_only o.
Proof.
  destruct o as [f|f p m|d|d|f|f|d]; cbn; auto.
  destruct f, p, m; tauto.
Qed.

Lemma reads_body b o : reads_only o -> body_op b o.
Proof. destruct o; cbn; tauto. Qed.

Ltac ep_ret := apply ep_ret; cbn; auto; fail.
Ltac ep_step :=
  match goal with
  | |- emits_post _ _ (Ret _) => ep_ret
  | |- emits_post _ _ Panic => apply ep_panic
  | |- emits_post _ _ (Do _ _) => apply ep_do; [eo_op | intros ?]
  | |- emits_post _ _ (match ?x with _ => _ end) => destruct x eqn:?
  end.

Section BackupOps.
  Variable pre : bytes -> N.
  Variable b : N.                      (* the band being written *)

  (* postcondition of the writer-state transformers: the band id is unchanged *)
  Definition keeps {A} (rw : A * wst) : Prop := w_band (snd rw) = b.

  Lemma store_block_ep w c :
    w_band w = b -> emits_post (body_op b) keeps (store_block pre w c).
  Proof. intros Hb. unfold store_block, keeps. repeat ep_step. Qed.

  Lemma comb_flush_ep w :
    w_band w = b -> emits_post (body_op b) keeps (comb_flush pre w).
  Proof.
    intros Hb. unfold comb_flush. destruct (w_queue w) as [|q0 q]; [ep_ret|].
    eapply ep_bind; [apply store_block_ep; exact Hb|].
    intros [ok w'] Hw'. unfold keeps in *. cbn [snd] in Hw'. repeat ep_step.
  Qed.

  Lemma comb_push_ep c w e data :
    w_band w = b -> emits_post (body_op b) keeps (comb_push pre c w e data).
  Proof.
    intros Hb. unfold comb_push. destruct data as [|x data]; [ep_ret|].
    match goal with |- emits_post _ _ (if ?x then _ else _) => destruct x end; [|ep_ret].
    apply comb_flush_ep. exact Hb.
  Qed.

  Lemma finish_hunk_ep w :
    w_band w = b -> emits_post (body_op b) keeps (finish_hunk w).
  Proof. intros Hb. unfold finish_hunk, keeps. repeat ep_step. Qed.

  Lemma flush_group_ep w :
    w_band w = b -> emits_post (body_op b) keeps (flush_group pre w).
  Proof.
    intros Hb. unfold flush_group.
    eapply ep_bind; [apply comb_flush_ep; exact Hb|].
    intros [ok w1] Hw1. unfold keeps in Hw1. cbn [snd] in Hw1.
    destruct ok; [|ep_ret]. apply finish_hunk_ep. exact Hw1.
  Qed.

  Lemma store_chunks_ep cs : forall w acc,
    w_band w = b -> emits_post (body_op b) keeps (store_chunks pre w cs acc).
  Proof.
    induction cs as [|c cs IH]; intros w acc Hb; cbn [store_chunks]; [ep_ret|].
    eapply ep_bind; [apply store_block_ep; exact Hb|].
    intros [ok w'] Hw'. unfold keeps in Hw'. cbn [snd] in Hw'.
    destruct ok; [|ep_ret]. apply IH. exact Hw'.
  Qed.

  Lemma copy_entry_ep c w basis it :
    w_band w = b -> emits_post (body_op b) keeps (copy_entry pre c w basis it).
  Proof.
    intros Hb. unfold copy_entry.
    destruct (s_kind (si_e it)); try ep_ret.
    match goal with |- emits_post _ _ (match ?x with _ => _ end) => destruct x end; [ep_ret|].
    destruct (s_size (si_e it) =? 0); [ep_ret|].
    destruct (s_size (si_e it) <=? c_sfc c); [apply comb_push_ep; exact Hb|].
    eapply ep_bind; [apply store_chunks_ep; exact Hb|].
    intros [o w'] Hw'. unfold keeps in Hw'. cbn [snd] in Hw'. destruct o; ep_ret.
  Qed.

  Lemma merge_loop_eo c src : forall peek st last w,
    w_band w = b -> emits_only (body_op b) (merge_loop pre c src peek st last w).
  Proof.
    induction src as [|it src IH]; intros peek st last w Hb; cbn [merge_loop].
    - apply eo_bind; [apply snext_eo; apply reads_body|].
      intros [[[[skipped na] st'] last'] merr].
      apply (ep_eo _ (fun _ => True)).
      eapply ep_bind; [apply flush_group_ep; exact Hb|].
      intros [ok w2] Hw2. unfold keeps in Hw2. cbn [snd] in Hw2.
      repeat ep_step.
    - (* the continuation after the basis has been advanced *)
      assert (Hk : forall (skipped : list entry) na st' last' merr,
        emits_only (body_op b)
          (let w0 := upd_counts w (w_errors w) merr (w_deleted w + N.of_nat (length skipped)) in
           let '(basis, na') :=
             match na with
             | Some e => match apath_cmp (e_apath e) (s_apath (si_e it)) with
                         | Eq => (Some e, None) | _ => (None, na) end
             | None => (None, None)
             end in
           bind (copy_entry pre c w0 basis it) (fun rw =>
             let '(ok, w1) := rw in
             let w2 := if ok then w1 else upd_counts w1 (w_errors w1 + 1) (w_merr w1 + 1) (w_deleted w1) in
             if ok && (c_meph c <=? N.of_nat (length (w_entries w2)) + N.of_nat (length (w_queue w2))) then
               bind (flush_group pre w2) (fun rw2 =>
                 let '(ok2, w3) := rw2 in
                 if ok2 then merge_loop pre c src na' st' last' w3 else Ret (fail w3))
             else merge_loop pre c src na' st' last' w2))).
      { intros skipped na st' last' merr. cbv zeta.
        match goal with |- emits_only _ (let '(_, _) := ?x in _) => destruct x as [basis na'] end.
        apply (ep_eo _ (fun _ => True)).
        eapply ep_bind; [apply copy_entry_ep; exact Hb|].
        intros [ok w1] Hw1. unfold keeps in Hw1. cbn [snd] in Hw1.
        assert (Hw2 : w_band (if ok then w1 else upd_counts w1 (w_errors w1 + 1) (w_merr w1 + 1) (w_deleted w1)) = b)
          by (destruct ok; exact Hw1).
        match goal with |- emits_post _ _ (if ?x then _ else _) => destruct x end.
        - eapply ep_bind; [apply flush_group_ep; exact Hw2|].
          intros [ok2 w3] Hw3. unfold keeps in Hw3. cbn [snd] in Hw3.
          destruct ok2; [|ep_ret]. apply eo_ep. apply IH. exact Hw3.
        - apply eo_ep. apply IH. exact Hw2. }
      destruct peek as [e|].
      + match goal with |- emits_only _ (if ?x then _ else _) => destruct x end.
        * apply eo_bind; [apply snext_eo; apply reads_body|].
          intros [[[[skipped na] st'] last'] merr]. apply Hk.
        * exact (Hk [] (Some e) st last (w_merr w)).
      + apply eo_bind; [apply snext_eo; apply reads_body|].
        intros [[[[skipped na] st'] last'] merr]. apply Hk.
  Qed.

  Lemma list_blocks_eo (P : op -> Prop) subs : forall acc failed k,
    (forall o, reads_only o -> P o) ->
    (forall r, emits_only P (k r)) -> emits_only P (list_blocks subs acc failed k).
  Proof.
    induction subs as [|s subs IH]; intros acc failed k HP Hk; cbn [list_blocks]; auto.
    apply eo_do; [apply HP; exact I|]. intros rep. destruct rep; auto.
  Qed.
End BackupOps.

(* ---- the whole operations ---- *)
Section WholeOps.
  Variable pre : bytes -> N.

  (* every sub-program of backup, in the coarse class *)
  Lemma store_block_add w c : emits_only add_only (store_block pre w c).
  Proof. eapply eo_mono; [apply (body_add (w_band w))|]. eapply ep_eo, store_block_ep; reflexivity. Qed.
  Lemma comb_flush_add w : emits_only add_only (comb_flush pre w).
  Proof. eapply eo_mono; [apply (body_add (w_band w))|]. eapply ep_eo, comb_flush_ep; reflexivity. Qed.
  Lemma comb_push_add c w e data : emits_only add_only (comb_push pre c w e data).
  Proof. eapply eo_mono; [apply (body_add (w_band w))|]. eapply ep_eo, comb_push_ep; reflexivity. Qed.
  Lemma finish_hunk_add w : emits_only add_only (finish_hunk w).
  Proof. eapply eo_mono; [apply (body_add (w_band w))|]. eapply ep_eo, finish_hunk_ep; reflexivity. Qed.
  Lemma flush_group_add w : emits_only add_only (flush_group pre w).
  Proof. eapply eo_mono; [apply (body_add (w_band w))|]. eapply ep_eo, flush_group_ep; reflexivity. Qed.
  Lemma store_chunks_add w cs acc : emits_only add_only (store_chunks pre w cs acc).
  Proof. eapply eo_mono; [apply (body_add (w_band w))|]. eapply ep_eo, store_chunks_ep; reflexivity. Qed.
  Lemma copy_entry_add c w basis it : emits_only add_only (copy_entry pre c w basis it).
  Proof. eapply eo_mono; [apply (body_add (w_band w))|]. eapply ep_eo, copy_entry_ep; reflexivity. Qed.
  Lemma merge_loop_add c src peek st last w : emits_only add_only (merge_loop pre c src peek st last w).
  Proof. eapply eo_mono; [apply (body_add (w_band w))|]. apply merge_loop_eo; reflexivity. Qed.
  Lemma list_blocks_add subs acc failed k :
    (forall r, emits_only add_only (k r)) -> emits_only add_only (list_blocks subs acc failed k).
  Proof. intros Hk. apply list_blocks_eo; [apply reads_add | exact Hk]. Qed.

  Theorem backup_emits_add_only : forall c src, emits_only add_only (backup_prog pre c src).
  Proof.
    intros c src. unfold backup_prog, open_archive.
    repeat eo_step.
    apply list_blocks_add. intros [ex|]; [|constructor]. apply merge_loop_add.
  Qed.

  Theorem init_emits_add_only : emits_only add_only init_prog.
  Proof. unfold init_prog. repeat eo_step. Qed.
End WholeOps.

(* ---- list / restore / validate: reads only ---- *)
Section ReadOps.
  Variable P : op -> Prop.
  Hypothesis HP : forall o, reads_only o -> P o.
  Local Hint Extern 1 (P _) => (apply HP; exact I) : core.
  Local Hint Resolve snext_eo : core.

  Lemma last_complete_eo {R} ids : forall (k : option N -> prog R),
    (forall o, emits_only P (k o)) -> emits_only P (last_complete ids k).
  Proof.
    induction ids as [|b ids IH]; intros k Hk; cbn [last_complete]; auto.
    repeat eo_step; auto.
  Qed.

  Lemma resolve_eo {R} p (k : option N -> prog R) :
    (forall o, emits_only P (k o)) -> emits_only P (resolve p k).
  Proof.
    intros Hk. unfold resolve. destruct p; auto; repeat eo_step; auto.
    apply last_complete_eo. exact Hk.
  Qed.

  Lemma open_tree_eo {R} p (k : option N -> prog R) :
    (forall o, emits_only P (k o)) -> emits_only P (open_tree p k).
  Proof.
    intros Hk. unfold open_tree. apply resolve_eo. intros [b|]; auto. repeat eo_step; auto.
  Qed.

  Lemma list_prog_eo p keep : emits_only P (list_prog p keep).
  Proof.
    unfold list_prog. repeat eo_step.
    apply open_tree_eo. intros [b|]; [|constructor].
    apply eo_bind; auto. intros [[[[es o] st] last] merr]. constructor.
  Qed.

  Lemma read_file_eo addrs : forall cache acc k,
    (forall c o, emits_only P (k c o)) -> emits_only P (read_file cache addrs acc k).
  Proof.
    induction addrs as [|a addrs IH]; intros cache acc k Hk; cbn [read_file]; auto.
    repeat eo_step; auto.
  Qed.

  Lemma restore_entries_eo es : forall cache acc merr, emits_only P (restore_entries es cache acc merr).
  Proof.
    induction es as [|e es IH]; intros cache acc merr; cbn [restore_entries]; [constructor|].
    destruct (e_kind e); auto. apply read_file_eo. intros. apply IH.
  Qed.

  Lemma list_blocks_r_eo subs : forall ok k,
    (forall ok', emits_only P (k ok')) -> emits_only P (list_blocks_r subs ok k).
  Proof.
    induction subs as [|s subs IH]; intros ok k Hk; cbn [list_blocks_r]; auto.
    repeat eo_step; auto.
  Qed.

  Lemma restore_prog_eo p keep : emits_only P (restore_prog p keep).
  Proof.
    unfold restore_prog. repeat eo_step.
    apply open_tree_eo. intros [b|]; [|constructor].
    repeat eo_step. apply list_blocks_r_eo. intros [|]; [|constructor].
    apply eo_bind; auto. intros [[[[es o] st] last] merr]. apply restore_entries_eo.
  Qed.

  Lemma validate_bands_eo ids : forall lens errs k,
    (forall l e, emits_only P (k l e)) -> emits_only P (validate_bands ids lens errs k).
  Proof.
    induction ids as [|b ids IH]; intros lens errs k Hk; cbn [validate_bands]; auto.
    repeat eo_step; auto.
  Qed.

  Lemma list_blocks_v_eo subs : forall acc failed k,
    (forall o, emits_only P (k o)) -> emits_only P (list_blocks_v subs acc failed k).
  Proof.
    induction subs as [|s subs IH]; intros acc failed k Hk; cbn [list_blocks_v]; auto.
    repeat eo_step; auto.
  Qed.

  Lemma read_all_eo l : forall acc errs k,
    (forall a e, emits_only P (k a e)) -> emits_only P (read_all l acc errs k).
  Proof.
    induction l as [|c l IH]; intros acc errs k Hk; cbn [read_all]; auto.
    repeat eo_step; auto.
  Qed.

  Lemma validate_prog_eo skip hint : emits_only P (validate_prog skip hint).
  Proof.
    unfold validate_prog. repeat eo_step.
    apply validate_bands_eo. intros lens errs. repeat eo_step.
    apply list_blocks_v_eo. intros [present0|]; [|constructor].
    destruct skip; [constructor|]. apply read_all_eo. intros. constructor.
  Qed.
End ReadOps.

Theorem list_emits_reads_only : forall p keep, emits_only reads_only (list_prog p keep).
Proof. intros. apply list_prog_eo. auto. Qed.
Theorem restore_emits_reads_only : forall p keep, emits_only reads_only (restore_prog p keep).
Proof. intros. apply restore_prog_eo. auto. Qed.
Theorem validate_emits_reads_only : forall skip hint, emits_only reads_only (validate_prog skip hint).
Proof. intros. apply validate_prog_eo. auto. Qed.

(* ------------------------------------------------------------------------- *)
(** * 3. Semantic consequences: write-once                                    *)
(* ------------------------------------------------------------------------- *)

Lemma fpath_eqb_spec x y : reflect (x = y) (fpath_eqb x y).
Proof.
  apply iff_reflect. destruct x, y; cbn; try (split; congruence).
  - rewrite N.eqb_eq. split; congruence.
  - rewrite N.eqb_eq. split; congruence.
  - rewrite andb_true_iff, !N.eqb_eq. split; [intros H; inversion H; auto | intros [-> ->]; auto].
  - rewrite str_eqb_eq. split; congruence.
Qed.

Lemma dpath_eqb_spec x y : reflect (x = y) (dpath_eqb x y).
Proof.
  apply iff_reflect. destruct x, y; cbn; try (split; congruence).
  - rewrite N.eqb_eq. split; congruence.
  - rewrite N.eqb_eq. split; congruence.
  - rewrite andb_true_iff, !N.eqb_eq. split; [intros H; inversion H; auto | intros [-> ->]; auto].
  - rewrite N.eqb_eq. split; congruence.
Qed.

Lemma has_dir_In (a : arch) d : has_dir a d = true <-> In d (dirs a).
Proof.
  unfold has_dir. rewrite existsb_exists. split.
  - intros [x [Hx E]]. destruct (dpath_eqb_spec d x); [subst; assumption | discriminate].
  - intros H. exists d. split; [assumption|]. destruct (dpath_eqb_spec d d); congruence.
Qed.

Lemma lookup_set_file f c l g :
  lookup g (set_file f c l) = if fpath_eqb g f then Some c else lookup g l.
Proof.
  induction l as [|[h d] l IH]; cbn [set_file lookup]; [reflexivity|].
  destruct (fpath_eqb_spec f h) as [->|Hfh]; cbn [lookup].
  - destruct (fpath_eqb g h); reflexivity.
  - rewrite IH. destruct (fpath_eqb_spec g h) as [->|Hgh]; [|reflexivity].
    destruct (fpath_eqb_spec h f); congruence.
Qed.

Lemma lookup_remove_file f l g :
  lookup g (remove_file f l) = if fpath_eqb g f then None else lookup g l.
Proof.
  unfold remove_file. induction l as [|[h d] l IH]; cbn [filter lookup fst].
  - destruct (fpath_eqb g f); reflexivity.
  - destruct (fpath_eqb_spec f h) as [->|Hfh]; cbn [negb lookup].
    + rewrite IH. destruct (fpath_eqb g h); reflexivity.
    + rewrite IH. destruct (fpath_eqb_spec g h) as [->|Hgh]; [|reflexivity].
      destruct (fpath_eqb_spec h f); congruence.
Qed.

(* everything that existed in [a0] (directories; files with their non-empty content)
   is still there, unchanged, in [a] *)
Definition Old (a0 a : arch) : Prop :=
  (forall d, In d (dirs a0) -> has_dir a d = true) /\
  (forall f c, get a0 f = Some c -> c <> Empty -> get a f = Some c).

Lemma Old_refl a : Old a a.
Proof. split; [intros d Hd; apply has_dir_In; exact Hd | auto]. Qed.

Lemma Old_trans a b c : Old a b -> Old b c -> Old a c.
Proof.
  intros [D1 F1] [D2 F2]. split.
  - intros d Hd. apply D2. apply has_dir_In. auto.
  - intros f x Hx Hne. auto.
Qed.

(* a checkable sufficient condition (used by the examples) *)
Lemma lookup_Some_In f l c : lookup f l = Some c -> exists g, In (g, c) l /\ f = g /\ lookup g l = Some c.
Proof.
  induction l as [|[h d] l IH]; cbn [lookup]; [discriminate|].
  destruct (fpath_eqb_spec f h) as [->|Hfh].
  - intros E; inversion E; subst. exists h. split; [left; reflexivity|]. split; [reflexivity|].
    cbn [lookup]. destruct (fpath_eqb_spec h h); congruence.
  - intros E. destruct (IH E) as [g [Hin [-> Hl]]]. exists g. split; [right; assumption|].
    split; [reflexivity|]. cbn [lookup]. destruct (fpath_eqb_spec g h); congruence.
Qed.

Lemma Old_check (a0 a : arch) :
  Forall (fun d => has_dir a d = true) (dirs a0) ->
  Forall (fun gc => snd gc = Empty \/ get a0 (fst gc) <> Some (snd gc) \/ get a (fst gc) = Some (snd gc)) (files a0) ->
  Old a0 a.
Proof.
  intros HD HF. rewrite Forall_forall in HD, HF. split; [exact HD|].
  intros f c Hc Hne. destruct (lookup_Some_In _ _ _ Hc) as [g [Hin [-> Hg]]].
  destruct (HF _ Hin) as [H|[H|H]]; cbn [fst snd] in H; [contradiction | | exact H].
  exfalso. apply H. exact Hg.
Qed.

Section WriteOnce.
  Variable pre : bytes -> N.

  Lemma In_has_dir (a : arch) d : In d (dirs a) -> has_dir a d = true.
  Proof. apply has_dir_In. Qed.

  Lemma Old_set_file (a : arch) f c :
    get a f = None \/ get a f = Some Empty ->
    Old a {| dirs := dirs a; files := set_file f c (files a) |}.
  Proof.
    intros Hf. split; cbn [dirs files]; [intros d Hd; apply In_has_dir; exact Hd|].
    intros g x Hx Hne. unfold get in *. cbn [files]. rewrite lookup_set_file.
    destruct (fpath_eqb_spec g f) as [->|]; [|assumption].
    destruct Hf as [Hf|Hf]; congruence.
  Qed.

  Lemma Old_add_dir (a : arch) d : Old a {| dirs := dirs a ++ [d]; files := files a |}.
  Proof.
    split; [|auto]. intros x Hx. unfold has_dir. cbn [dirs]. rewrite existsb_app.
    apply orb_true_iff. left. apply (In_has_dir a x Hx).
  Qed.

  (* one add-only operation, under ANY fault, keeps everything that was there *)
  Lemma exec_add_Old a o flt : add_only o -> Old a (fst (exec pre a o flt)).
  Proof.
    intros Ho.
    assert (Hok : Old a (fst (exec_ok pre a o))).
    { destruct o as [f|f p m|d|d|f|f|d]; cbn in Ho; try contradiction; cbn [exec_ok].
      - destruct (get a f); apply Old_refl.
      - destruct m; [|contradiction].
        destruct (has_dir a (parent_f pre f)); [|apply Old_refl].
        destruct (get a f) as [[q| |]|] eqn:G; cbn [fst]; try apply Old_refl;
          apply Old_set_file; auto.
      - destruct (has_dir a d); apply Old_refl.
      - destruct (has_dir a d) eqn:Hd; [apply Old_refl|].
        destruct (parent_d d) as [p|]; [destruct (has_dir a p)|]; cbn [fst];
          auto using Old_refl, Old_add_dir.
      - destruct (get a f); apply Old_refl. }
    destruct flt; cbn [exec fst]; auto using Old_refl.
  Qed.

  (* the state a killed write leaves: at most a new zero-length file *)
  Lemma exec_empty_Old a o : Old a (exec_empty pre a o).
  Proof.
    destruct o as [f|f p m|d|d|f|f|d]; cbn [exec_empty]; try apply Old_refl.
    destruct (has_dir a (parent_f pre f)); [|apply Old_refl].
    destruct (get a f) eqn:G; [apply Old_refl|].
    apply Old_set_file; auto.
  Qed.

  Theorem add_only_write_once {R} (p : prog R) :
    emits_only add_only p ->
    forall a0 a phi, Old a0 a ->
      Forall (Old a0) (run_states pre p a phi) /\ Old a0 (snd (fst (run pre p a phi))).
  Proof.
    intros Hp a0. apply (run_invariant pre add_only (Old a0)); [| |exact Hp].
    - intros a o f Ho Ha. eapply Old_trans; [exact Ha|]. apply exec_add_Old. exact Ho.
    - intros a o _ Ha. eapply Old_trans; [exact Ha|]. apply exec_empty_Old.
  Qed.

  (* WRITE-ONCE: every directory and every non-empty file that existed before a backup
     still exists with identical content at EVERY intermediate state, at every crash
     point, for every fault sequence *)
  Theorem backup_write_once : forall c src a0 phi,
    Forall (Old a0) (run_states pre (backup_prog pre c src) a0 phi)
    /\ Old a0 (snd (fst (run pre (backup_prog pre c src) a0 phi))).
  Proof.
    intros. apply add_only_write_once; [apply backup_emits_add_only | apply Old_refl].
  Qed.

  Theorem init_write_once : forall a0 phi,
    Forall (Old a0) (run_states pre init_prog a0 phi)
    /\ Old a0 (snd (fst (run pre init_prog a0 phi))).
  Proof.
    intros. apply add_only_write_once; [apply init_emits_add_only | apply Old_refl].
  Qed.
End WriteOnce.

Section WrittenOnce.
  Variable pre : bytes -> N.

  (* a successful create-new write found the path absent or zero-length, and leaves the
     payload there *)
  Lemma exec_create_ok a f p flt a' :
    exec pre a (OpWrite f p CreateNew) flt = (a', ROk) ->
    (get a f = None \/ get a f = Some Empty) /\ get a' f = Some (Good p).
  Proof.
    assert (Hok : exec_ok pre a (OpWrite f p CreateNew) = (a', ROk) ->
                  (get a f = None \/ get a f = Some Empty) /\ get a' f = Some (Good p)).
    { cbn [exec_ok]. destruct (has_dir a (parent_f pre f)); [|discriminate].
      destruct (get a f) as [[q| |]|] eqn:G; try discriminate;
        (intros E; inversion E; subst; split; [auto|]; unfold get; cbn [files];
         rewrite lookup_set_file; destruct (fpath_eqb_spec f f); congruence). }
    destruct flt; cbn [exec]; auto; discriminate.
  Qed.

  Lemma exec_create_ok' a f p flt :
    snd (exec pre a (OpWrite f p CreateNew) flt) = ROk ->
    (get a f = None \/ get a f = Some Empty)
    /\ get (fst (exec pre a (OpWrite f p CreateNew) flt)) f = Some (Good p).
  Proof.
    intros H. apply (exec_create_ok a f p flt).
    destruct (exec pre a (OpWrite f p CreateNew) flt) as [a' r]. cbn [fst snd] in *. subst. reflexivity.
  Qed.

  (* the state in which the i-th operation of the trace was executed *)
  Definition state_before {R} (p : prog R) (a : arch) (phi : list fault) (i : nat) : option arch :=
    nth_error (a :: run_states pre p a phi) i.

  Lemma state_before_S {R} o (k : reply -> prog R) a phi i x :
    nth_error (fst (fst (run pre (Do o k) a phi))) (S i) = Some x ->
    let flt := hdf phi in
    nth_error (fst (fst (run pre (k (snd (exec pre a o flt))) (fst (exec pre a o flt)) (tl phi)))) i = Some x /\
    state_before (Do o k) a phi (S i)
    = state_before (k (snd (exec pre a o flt))) (fst (exec pre a o flt)) (tl phi) i.
  Proof.
    unfold state_before. rewrite run_Do, run_states_Do.
    destruct (hdf phi) as [|e| |] eqn:E; cbn [fst snd nth_error]; try discriminate; intros H;
      split; auto.
  Qed.

  Lemma trace_0 {R} o (k : reply -> prog R) a phi x :
    nth_error (fst (fst (run pre (Do o k) a phi))) 0 = Some x ->
    x = (o, snd (exec pre a o (hdf phi))).
  Proof.
    rewrite run_Do.
    destruct (hdf phi) as [|e| |] eqn:E; cbn [fst snd nth_error]; try discriminate; intros H;
      inversion H; reflexivity.
  Qed.

  (* NO PATH WRITTEN TWICE (1): in every run of an add-only program, each successful
     write found its path absent or holding a zero-length leftover *)
  Theorem no_path_written_twice {R} (p : prog R) :
    emits_only add_only p ->
    forall a phi i f pl m,
      nth_error (fst (fst (run pre p a phi))) i = Some (OpWrite f pl m, ROk) ->
      exists ab, state_before p a phi i = Some ab /\ (get ab f = None \/ get ab f = Some Empty).
  Proof.
    intros H. induction H as [r| |o k Ho Hk IH]; intros a phi i f pl m Hi;
      try (cbn in Hi; destruct i; discriminate).
    destruct i as [|i].
    - pose proof (trace_0 _ _ _ _ _ Hi) as E. inversion E as [[E1 E2]]. subst o.
      cbn in Ho. destruct m; [|contradiction].
      exists a. split; [reflexivity|].
      apply (exec_create_ok' a f pl (hdf phi)). symmetry. exact E2.
    - destruct (state_before_S _ _ _ _ _ _ Hi) as [Hi' Hs].
      rewrite Hs. eapply IH. exact Hi'.
  Qed.

  (* NO PATH WRITTEN TWICE (2): hence no path is successfully written twice within one run *)
  Theorem written_at_most_once {R} (p : prog R) :
    emits_only add_only p ->
    forall a phi i j f p1 m1 p2 m2, (i < j)%nat ->
      nth_error (fst (fst (run pre p a phi))) i = Some (OpWrite f p1 m1, ROk) ->
      nth_error (fst (fst (run pre p a phi))) j = Some (OpWrite f p2 m2, ROk) -> False.
  Proof.
    intros H. induction H as [r| |o k Ho Hk IH]; intros a phi i j f p1 m1 p2 m2 Hij Hi Hj;
      try (cbn in Hi; destruct i; discriminate).
    destruct j as [|j]; [lia|].
    destruct (state_before_S _ _ _ _ _ _ Hj) as [Hj' Hs].
    destruct i as [|i].
    - pose proof (trace_0 _ _ _ _ _ Hi) as E.
      inversion E as [[E1 E2]]. subst o. cbn in Ho. destruct m1; [|contradiction].
      destruct (exec_create_ok' a f p1 (hdf phi) (eq_sym E2)) as [_ Ha'].
      remember (fst (exec pre a (OpWrite f p1 CreateNew) (hdf phi))) as a' eqn:Ea'.
      remember (snd (exec pre a (OpWrite f p1 CreateNew) (hdf phi))) as rep eqn:Erep.
      destruct (no_path_written_twice _ (Hk rep) _ _ _ _ _ _ Hj') as [ab [Hab Hget]].
      destruct (add_only_write_once pre _ (Hk rep) a' a' (tl phi) (Old_refl a')) as [Hall _].
      assert (HO : Old a' ab).
      { unfold state_before in Hab. destruct j as [|j]; cbn [nth_error] in Hab.
        - inversion Hab; subst ab. apply Old_refl.
        - rewrite Forall_forall in Hall. apply Hall. eapply nth_error_In. exact Hab. }
      destruct HO as [_ HF]. specialize (HF f (Good p1) Ha').
      rewrite HF in Hget by discriminate. destruct Hget; discriminate.
    - destruct (state_before_S _ _ _ _ _ _ Hi) as [Hi' _].
      eapply (IH _ _ _ i j); [lia | exact Hi' | exact Hj'].
  Qed.

  Theorem backup_no_path_written_twice : forall c src a phi i f pl m,
    nth_error (fst (fst (run pre (backup_prog pre c src) a phi))) i = Some (OpWrite f pl m, ROk) ->
    exists ab, state_before (backup_prog pre c src) a phi i = Some ab
               /\ (get ab f = None \/ get ab f = Some Empty).
  Proof. intros c src. apply no_path_written_twice. apply backup_emits_add_only. Qed.

  Theorem backup_written_at_most_once : forall c src a phi i j f p1 m1 p2 m2, (i < j)%nat ->
    nth_error (fst (fst (run pre (backup_prog pre c src) a phi))) i = Some (OpWrite f p1 m1, ROk) ->
    nth_error (fst (fst (run pre (backup_prog pre c src) a phi))) j = Some (OpWrite f p2 m2, ROk) -> False.
  Proof. intros c src. apply written_at_most_once. apply backup_emits_add_only. Qed.

  (* ---- read-only programs never change the archive ---- *)
  Lemma exec_read_same a o flt : reads_only o -> fst (exec pre a o flt) = a.
  Proof.
    intros Ho.
    assert (Hok : fst (exec_ok pre a o) = a).
    { destruct o as [f|f p m|d|d|f|f|d]; cbn in Ho; try contradiction; cbn [exec_ok].
      - destruct (get a f); reflexivity.
      - destruct (has_dir a d); reflexivity.
      - destruct (get a f); reflexivity. }
    destruct flt; cbn [exec fst]; auto.
  Qed.

  Lemma exec_empty_read_same a o : reads_only o -> exec_empty pre a o = a.
  Proof. destruct o; cbn; tauto. Qed.

  Theorem reads_only_state {R} (p : prog R) :
    emits_only reads_only p ->
    forall a phi, Forall (eq a) (run_states pre p a phi) /\ snd (fst (run pre p a phi)) = a.
  Proof.
    intros Hp a phi.
    assert (H : Forall (eq a) (run_states pre p a phi) /\ a = snd (fst (run pre p a phi))).
    { apply (run_invariant pre reads_only (eq a)); auto.
      - intros x o f Ho <-. symmetry. apply exec_read_same. exact Ho.
      - intros x o Ho <-. symmetry. apply exec_empty_read_same. exact Ho. }
    destruct H as [H1 H2]. split; [exact H1 | symmetry; exact H2].
  Qed.

  Theorem list_state_unchanged : forall p keep a phi,
    Forall (eq a) (run_states pre (list_prog p keep) a phi)
    /\ snd (fst (run pre (list_prog p keep) a phi)) = a.
  Proof. intros. apply reads_only_state, list_emits_reads_only. Qed.

  Theorem restore_state_unchanged : forall p keep a phi,
    Forall (eq a) (run_states pre (restore_prog p keep) a phi)
    /\ snd (fst (run pre (restore_prog p keep) a phi)) = a.
  Proof. intros. apply reads_only_state, restore_emits_reads_only. Qed.

  Theorem validate_state_unchanged : forall skip hint a phi,
    Forall (eq a) (run_states pre (validate_prog skip hint) a phi)
    /\ snd (fst (run pre (validate_prog skip hint) a phi)) = a.
  Proof. intros. apply reads_only_state, validate_emits_reads_only. Qed.
End WrittenOnce.

(* ------------------------------------------------------------------------- *)
(** * 5. Delete                                                               *)
(* ------------------------------------------------------------------------- *)

Definition delete_op (ids : list N) (o : op) : Prop :=
  match o with
  | OpRead _ | OpList _ | OpMeta _ => True
  | OpWrite PLock PlJson CreateNew => True
  | OpRemoveFile PLock => True
  | OpRemoveFile (PBlock _) => True
  | OpRemoveDirAll (DBand b) => In b ids
  | _ => False
  end.

(* a dry run: reads, and taking / releasing the lock *)
Definition lock_op (o : op) : Prop :=
  match o with
  | OpRead _ | OpList _ | OpMeta _ => True
  | OpWrite PLock PlJson CreateNew => True
  | OpRemoveFile PLock => True
  | _ => False
  end.

Lemma lock_delete ids o : lock_op o -> delete_op ids o.
Proof.
  destruct o as [f|f p m|d|d|f|f|d]; cbn; auto; try tauto.
  destruct f; tauto.
Qed.

Section DeleteOps.
  Variable pre : bytes -> N.
  Variable P : op -> Prop.
  Hypothesis HPr : forall o, reads_only o -> P o.
  Hypothesis HPrel : P (OpRemoveFile PLock).
  Hypothesis HPacq : P (OpWrite PLock PlJson CreateNew).

  Local Hint Extern 1 (P _) => (apply HPr; exact I) : core.

  Lemma release_fail_eo : emits_only P release_fail.
  Proof. unfold release_fail. repeat eo_step. Qed.
  Local Hint Resolve release_fail_eo : core.

  Lemma ref_hunks_eo b hs : forall acc k,
    (forall acc', emits_only P (k acc')) -> emits_only P (ref_hunks b hs acc k).
  Proof.
    induction hs as [|h hs IH]; intros acc k Hk; cbn [ref_hunks]; auto.
    repeat eo_step; auto.
  Qed.

  Lemma ref_subdirs_eo b subs : forall acc k,
    (forall hs, emits_only P (k hs)) -> emits_only P (ref_subdirs b subs acc k).
  Proof.
    induction subs as [|s subs IH]; intros acc k Hk; cbn [ref_subdirs]; auto.
    repeat eo_step; auto.
  Qed.

  Lemma ref_bands_eo bands : forall acc k,
    (forall acc', emits_only P (k acc')) -> emits_only P (ref_bands bands acc k).
  Proof.
    induction bands as [|b bands IH]; intros acc k Hk; cbn [ref_bands]; auto.
    repeat eo_step; auto.
    apply ref_subdirs_eo. intros hs. apply ref_hunks_eo. intros acc'. apply IH. exact Hk.
  Qed.

  Lemma list_blocks_d_eo subs : forall acc failed k,
    (forall l, emits_only P (k l)) -> emits_only P (list_blocks_d subs acc failed k).
  Proof.
    induction subs as [|s subs IH]; intros acc failed k Hk; cbn [list_blocks_d];
      [destruct failed; auto|].
    repeat eo_step; auto.
  Qed.

  Lemma measure_eo l : forall k, emits_only P k -> emits_only P (measure l k).
  Proof.
    induction l as [|c l IH]; intros k Hk; cbn [measure]; auto.
    repeat eo_step; auto.
  Qed.

  Lemma delete_the_bands_eo ids : forall n k,
    (forall b, In b ids -> P (OpRemoveDirAll (DBand b))) ->
    (forall n', emits_only P (k n')) -> emits_only P (delete_the_bands ids n k).
  Proof.
    induction ids as [|b ids IH]; intros n k Hids Hk; cbn [delete_the_bands]; auto.
    apply eo_do; [apply Hids; left; reflexivity|]. intros rep.
    destruct rep; auto. apply IH; auto. intros b' Hb'. apply Hids. right. exact Hb'.
  Qed.

  Lemma delete_blocks_eo l : forall errs k,
    (forall c, P (OpRemoveFile (PBlock c))) ->
    (forall e, emits_only P (k e)) -> emits_only P (delete_blocks l errs k).
  Proof.
    induction l as [|c l IH]; intros errs k Hc Hk; cbn [delete_blocks]; auto.
    apply eo_do; [apply Hc|]. intros rep. apply IH; auto.
  Qed.

  Lemma acquire_eo k : (forall last, emits_only P (k last)) -> emits_only P (acquire k).
  Proof. intros Hk. unfold acquire. repeat eo_step; auto. Qed.

  Lemma delete_prog_eo ids dry brk hint :
    (dry = false -> forall b, In b ids -> P (OpRemoveDirAll (DBand b))) ->
    (dry = false -> forall c, P (OpRemoveFile (PBlock c))) ->
    emits_only P (delete_prog ids dry brk hint).
  Proof.
    intros Hbands Hblocks.
    unfold delete_prog. repeat eo_step; auto;
    (apply acquire_eo; intros last; repeat eo_step; auto;
     apply ref_bands_eo; intros referenced; repeat eo_step; auto;
     apply list_blocks_d_eo; intros present; apply measure_eo;
     destruct dry;
     [ repeat eo_step; auto
     | repeat eo_step; auto;
       (apply delete_the_bands_eo; [apply Hbands; reflexivity|]); intros nb;
       (apply delete_blocks_eo; [apply Hblocks; reflexivity|]); intros errs;
       repeat eo_step; auto ]).
  Qed.
End DeleteOps.

Theorem delete_emits : forall ids dry brk hint,
  emits_only (delete_op ids) (delete_prog ids dry brk hint).
Proof. intros. apply delete_prog_eo; cbn; auto. intros o; destruct o; cbn; tauto. Qed.

(* a dry run never removes a band directory or a block *)
Theorem delete_dry_run_ops : forall ids brk hint,
  emits_only lock_op (delete_prog ids true brk hint).
Proof.
  intros. apply delete_prog_eo; cbn; auto; try discriminate. intros o; destruct o; cbn; tauto.
Qed.

(* same directories, same files with the same content, GC_LOCK aside *)
Definition same_but_lock (a0 a : arch) : Prop :=
  dirs a = dirs a0 /\ forall f, f <> PLock -> get a f = get a0 f.

Section DryRun.
  Variable pre : bytes -> N.

  Lemma same_but_lock_refl a : same_but_lock a a.
  Proof. split; auto. Qed.

  Lemma exec_lock_same a0 a o flt :
    lock_op o -> same_but_lock a0 a -> same_but_lock a0 (fst (exec pre a o flt)).
  Proof.
    intros Ho Ha.
    assert (Hok : same_but_lock a0 (fst (exec_ok pre a o))).
    { destruct o as [f|f p m|d|d|f|f|d]; cbn in Ho; try contradiction; cbn [exec_ok].
      - destruct (get a f); exact Ha.
      - destruct f; try contradiction. destruct p; try contradiction. destruct m; try contradiction.
        destruct (has_dir a (parent_f pre PLock)); [|exact Ha].
        assert (Hset : same_but_lock a0 {| dirs := dirs a; files := set_file PLock (Good PlJson) (files a) |}).
        { destruct Ha as [HD HF]. split; [exact HD|]. intros g Hg. rewrite <- (HF g Hg).
          unfold get. cbn [files]. rewrite lookup_set_file.
          destruct (fpath_eqb_spec g PLock); [contradiction | reflexivity]. }
        destruct (get a PLock) as [[q| |]|]; cbn [fst]; auto.
      - destruct (has_dir a d); exact Ha.
      - destruct (get a f); exact Ha.
      - destruct f; try contradiction.
        destruct (get a PLock); [|exact Ha]. cbn [fst].
        destruct Ha as [HD HF]. split; [exact HD|]. intros g Hg. rewrite <- (HF g Hg).
        unfold get. cbn [files]. rewrite lookup_remove_file.
        destruct (fpath_eqb_spec g PLock); [contradiction | reflexivity]. }
    destruct flt; cbn [exec fst]; auto.
  Qed.

  Lemma exec_empty_lock_same a0 a o :
    lock_op o -> same_but_lock a0 a -> same_but_lock a0 (exec_empty pre a o).
  Proof.
    intros Ho Ha. destruct o as [f|f p m|d|d|f|f|d]; cbn in Ho; try contradiction; cbn [exec_empty]; auto.
    destruct f; try contradiction.
    destruct (has_dir a (parent_f pre PLock)); [|exact Ha].
    destruct (get a PLock); [exact Ha|].
    destruct Ha as [HD HF]. split; [exact HD|]. intros g Hg. rewrite <- (HF g Hg).
    unfold get. cbn [files]. rewrite lookup_set_file.
    destruct (fpath_eqb_spec g PLock); [contradiction | reflexivity].
  Qed.

  (* DRY RUN IS A NO-OP: every intermediate state, the state any crash leaves and the final
     state agree with the initial one on every directory and every file but GC_LOCK,
     for every fault sequence *)
  Theorem delete_dry_run_noop : forall ids brk hint a0 phi,
    Forall (same_but_lock a0) (run_states pre (delete_prog ids true brk hint) a0 phi)
    /\ same_but_lock a0 (snd (fst (run pre (delete_prog ids true brk hint) a0 phi))).
  Proof.
    intros. apply (run_invariant pre lock_op (same_but_lock a0)).
    - intros a o f Ho Ha. apply exec_lock_same; assumption.
    - intros a o Ho Ha. apply exec_empty_lock_same; assumption.
    - apply delete_dry_run_ops.
    - apply same_but_lock_refl.
  Qed.
End DryRun.

(* ------------------------------------------------------------------------- *)
(** * 4. History-dependent classes: the new band id is fresh                  *)
(* ------------------------------------------------------------------------- *)

(* what may be emitted next may depend on the trace so far *)
Inductive emits_h {R : Type} (P : list (op * reply) -> op -> Prop) : list (op * reply) -> prog R -> Prop :=
| eh_ret : forall h r, emits_h P h (Ret r)
| eh_panic : forall h, emits_h P h Panic
| eh_do : forall h o k, P h o -> (forall rep, emits_h P (h ++ [(o, rep)]) (k rep)) -> emits_h P h (Do o k).

Lemma eo_eh {R} (Q : op -> Prop) (P : list (op * reply) -> op -> Prop) (p : prog R) :
  emits_only Q p -> forall h, (forall h' o, Q o -> P (h ++ h') o) -> emits_h P h p.
Proof.
  intros H. induction H as [r| |o k Ho _ IH]; intros h HQ; constructor.
  - rewrite <- (app_nil_r h). apply HQ. exact Ho.
  - intros rep. apply IH. intros h' o' Ho'. rewrite <- app_assoc. apply HQ. exact Ho'.
Qed.

Lemma In_firstn_nth {A} (x : A) i : forall l, In x (firstn i l) -> exists j, (j < i)%nat /\ nth_error l j = Some x.
Proof.
  induction i as [|i IH]; intros [|y l]; cbn [firstn]; try (intros Hf; contradiction Hf).
  intros [->|H].
  - exists 0%nat. split; [lia | reflexivity].
  - destruct (IH _ H) as [j [Hj E]]. exists (S j). split; [lia | exact E].
Qed.

Section HistSound.
  Variable pre : bytes -> N.

  Lemma emits_h_sound {R} (P : list (op * reply) -> op -> Prop) h (p : prog R) :
    emits_h P h p ->
    forall a phi i o rep,
      nth_error (fst (fst (run pre p a phi))) i = Some (o, rep) ->
      P (h ++ firstn i (fst (fst (run pre p a phi)))) o.
  Proof.
    intros H. induction H as [h r|h|h o k Ho _ IH]; intros a phi i o' rep Hi;
      try (cbn in Hi; destruct i; discriminate).
    destruct i as [|i].
    - pose proof (trace_0 pre _ _ _ _ _ Hi) as E. inversion E; subst.
      cbn [firstn]. rewrite app_nil_r. exact Ho.
    - destruct (state_before_S pre _ _ _ _ _ _ Hi) as [Hi' _].
      specialize (IH _ _ _ _ _ _ Hi'). rewrite <- app_assoc in IH. cbn [app] in IH.
      rewrite run_Do.
      destruct (hdf phi) as [|e| |] eqn:E; cbn [fst snd firstn]; try exact IH;
        rewrite run_Do, E in Hi; cbn in Hi; discriminate.
  Qed.

  (* each trace element was produced by [exec] in the corresponding state *)
  Lemma trace_exec {R} (p : prog R) : forall a phi i o rep,
    nth_error (fst (fst (run pre p a phi))) i = Some (o, rep) ->
    exists ai flt, state_before pre p a phi i = Some ai /\ snd (exec pre ai o flt) = rep.
  Proof.
    induction p as [r|o k IH|]; intros a phi i o' rep Hi; try (cbn in Hi; destruct i; discriminate).
    destruct i as [|i].
    - pose proof (trace_0 pre _ _ _ _ _ Hi) as E. inversion E; subst.
      exists a, (hdf phi). split; reflexivity.
    - destruct (state_before_S pre _ _ _ _ _ _ Hi) as [Hi' Hs]. rewrite Hs. eapply IH. exact Hi'.
  Qed.
End HistSound.

Lemma fold_max_ge l : forall x, x <= fold_left N.max l x /\ forall y, In y l -> y <= fold_left N.max l x.
Proof.
  induction l as [|z l IH]; intros x; cbn [fold_left]; [split; [lia | intros y []]|].
  destruct (IH (N.max x z)) as [H1 H2]. split; [lia|].
  intros y [->|Hy]; [lia | auto].
Qed.

Lemma max_id_ge l b : In b l -> exists m, max_id l = Some m /\ b <= m.
Proof.
  destruct l as [|x l]; [intros []|]. intros Hb. cbn [max_id]. eexists. split; [reflexivity|].
  destruct (fold_max_ge l x) as [H1 H2]. destruct Hb as [->|Hb]; auto.
Qed.

Lemma band_ids_In ds b : In (DBand b) ds -> In b (band_ids ds).
Proof.
  intros H. unfold band_ids. apply in_flat_map. exists (DBand b). split; [exact H | left; reflexivity].
Qed.

Lemma next_id_fresh ds b :
  In (DBand b) ds -> b < match max_id (band_ids ds) with Some m => m + 1 | None => 0 end.
Proof.
  intros H. destruct (max_id_ge _ _ (band_ids_In _ _ H)) as [m [-> Hm]]. lia.
Qed.

(* what a whole backup may emit, given the trace so far *)
Definition backup_hist (h : list (op * reply)) (o : op) : Prop :=
  match o with
  | OpRead _ | OpList _ | OpMeta _ => True
  | OpMkdir (DBand id) =>
      exists ds fs, In (OpList DRoot, RList ds fs) h /\ forall b, In (DBand b) ds -> b < id
  | OpMkdir (DIndex b) | OpMkdir (DHunkSub b _) => In (OpMkdir (DBand b), ROk) h
  | OpMkdir (DBlockSub _) => True
  | OpWrite (PHead b) (PlHead _) CreateNew
  | OpWrite (PTail b) (PlTail _) CreateNew
  | OpWrite (PHunk b _) (PlHunk _) CreateNew => In (OpMkdir (DBand b), ROk) h
  | OpWrite (PBlock c) (PlBlock c') CreateNew => c' = c
  | _ => False
  end.

Lemma body_hist b h o : In (OpMkdir (DBand b), ROk) h -> body_op b o -> backup_hist h o.
Proof.
  intros Hh. destruct o as [f|f p m|d|d|f|f|d]; cbn; auto.
  - destruct f, p, m; auto; intros Ho; try contradiction; subst; exact Hh.
  - destruct d; auto; intros Ho; try contradiction; subst; exact Hh.
Qed.

Section BandFresh.
  Variable pre : bytes -> N.

  Lemma is_ok_ROk r : is_ok r = true -> r = ROk.
  Proof. destruct r; cbn; congruence. Qed.

  Theorem backup_emits_hist : forall c src, emits_h backup_hist [] (backup_prog pre c src).
  Proof.
    intros c src. unfold backup_prog, open_archive.
    apply eh_do; [exact I|]. intros r0.
    destruct r0 as [| |[[| | | |]| |]| |]; try apply eh_ret.
    apply eh_do; [exact I|]. intros r.
    destruct r as [|[| | |]| | |]; try apply eh_ret.
    apply eh_do; [exact I|]. intros r1. destruct r1 as [| | |ds1 fs1|]; try apply eh_ret.
    apply eh_do; [exact I|]. intros r2. destruct r2 as [| | |ds2 fs2|]; try apply eh_ret.
    cbv zeta.
    set (id := match max_id (band_ids ds2) with Some m => m + 1 | None => 0 end).
    apply eh_do.
    { cbn [backup_hist]. exists ds2, fs2. split; [apply in_or_app; right; left; reflexivity|].
      intros b Hb. apply next_id_fresh. exact Hb. }
    intros r3. destruct (is_ok r3) eqn:E3; [|apply eh_ret]. apply is_ok_ROk in E3. subst r3.
    match goal with |- emits_h _ ?h _ =>
      assert (Hin : forall h', In (OpMkdir (DBand id), ROk) (h ++ h'))
        by (intros h'; apply in_or_app; left; apply in_or_app; right; left; reflexivity)
    end.
    apply eh_do; [cbn [backup_hist]; rewrite <- (app_nil_r (_ ++ _)); apply Hin|]. intros r4.
    destruct (is_ok r4); [|apply eh_ret].
    apply eh_do; [cbn [backup_hist]; rewrite <- app_assoc; apply Hin|]. intros r5.
    destruct (is_ok r5); [|apply eh_ret].
    apply (eo_eh (body_op id)).
    - repeat eo_step. apply list_blocks_eo; [apply reads_body|].
      intros [ex|]; [|constructor]. apply merge_loop_eo. reflexivity.
    - intros h' o Ho. apply (body_hist id); [|exact Ho].
      rewrite <- !app_assoc. apply Hin.
  Qed.

  Theorem backup_hist_sound : forall c src a phi i o rep,
    nth_error (fst (fst (run pre (backup_prog pre c src) a phi))) i = Some (o, rep) ->
    backup_hist (firstn i (fst (fst (run pre (backup_prog pre c src) a phi)))) o.
  Proof.
    intros c src a phi i o rep Hi.
    apply (emits_h_sound pre backup_hist [] _ (backup_emits_hist c src) a phi i o rep Hi).
  Qed.

  (* the id of the band directory a backup creates is above every band id of a listing of
     the archive root taken earlier in the same run *)
  Theorem backup_band_fresh : forall c src a phi i id rep,
    nth_error (fst (fst (run pre (backup_prog pre c src) a phi))) i = Some (OpMkdir (DBand id), rep) ->
    exists j ds fs, (j < i)%nat
      /\ nth_error (fst (fst (run pre (backup_prog pre c src) a phi))) j = Some (OpList DRoot, RList ds fs)
      /\ forall b, In (DBand b) ds -> b < id.
  Proof.
    intros c src a phi i id rep Hi.
    pose proof (backup_hist_sound _ _ _ _ _ _ _ Hi) as H. cbn [backup_hist] in H.
    destruct H as [ds [fs [Hin Hlt]]]. destruct (In_firstn_nth _ _ _ Hin) as [j [Hj Ej]].
    exists j, ds, fs. auto.
  Qed.

  (* a successful listing of the root names every band directory there is *)
  Lemma list_root_complete a flt ds fs b :
    snd (exec pre a (OpList DRoot) flt) = RList ds fs -> has_dir a (DBand b) = true -> In (DBand b) ds.
  Proof.
    intros H Hb.
    assert (Hok : snd (exec_ok pre a (OpList DRoot)) = RList ds fs).
    { destruct flt; cbn [exec] in H; auto; discriminate. }
    cbn [exec_ok] in Hok. destruct (has_dir a DRoot); cbn [snd] in Hok; [|discriminate].
    inversion Hok; subst. unfold children_dirs. apply filter_In. split; [apply has_dir_In; exact Hb | reflexivity].
  Qed.

  (* ... hence that directory did not exist in the state that listing saw *)
  Theorem backup_band_fresh_state : forall c src a phi i id rep,
    nth_error (fst (fst (run pre (backup_prog pre c src) a phi))) i = Some (OpMkdir (DBand id), rep) ->
    exists j aj, (j < i)%nat
      /\ state_before pre (backup_prog pre c src) a phi j = Some aj
      /\ has_dir aj (DBand id) = false.
  Proof.
    intros c src a phi i id rep Hi.
    destruct (backup_band_fresh _ _ _ _ _ _ _ Hi) as [j [ds [fs [Hj [Ej Hlt]]]]].
    destruct (trace_exec pre _ _ _ _ _ _ Ej) as [aj [flt [Hs Hx]]].
    exists j, aj. split; [exact Hj|]. split; [exact Hs|].
    destruct (has_dir aj (DBand id)) eqn:Hd; [|reflexivity].
    pose proof (Hlt _ (list_root_complete _ _ _ _ _ Hx Hd)). lia.
  Qed.

  (* every band file a backup writes, every index directory it creates, lies in a band
     whose directory it created successfully earlier in the same run; blocks are written
     under their own content's name; nothing else is ever written *)
  Definition band_of_op (o : op) : option N :=
    match o with
    | OpWrite (PHead b) _ _ | OpWrite (PTail b) _ _ | OpWrite (PHunk b _) _ _ => Some b
    | OpMkdir (DIndex b) | OpMkdir (DHunkSub b _) => Some b
    | _ => None
    end.

  Theorem backup_writes_in_new_band : forall c src a phi i o rep b,
    nth_error (fst (fst (run pre (backup_prog pre c src) a phi))) i = Some (o, rep) ->
    band_of_op o = Some b ->
    exists j, (j < i)%nat
      /\ nth_error (fst (fst (run pre (backup_prog pre c src) a phi))) j = Some (OpMkdir (DBand b), ROk).
  Proof.
    intros c src a phi i o rep b Hi Hb.
    pose proof (backup_hist_sound _ _ _ _ _ _ _ Hi) as H.
    assert (Hin : In (OpMkdir (DBand b), ROk) (firstn i (fst (fst (run pre (backup_prog pre c src) a phi))))).
    { destruct o as [f|f p m|d|d|f|f|d]; cbn in Hb; try discriminate.
      - destruct f; try discriminate; inversion Hb; subst; cbn in H;
          destruct p; try contradiction; destruct m; try contradiction; exact H.
      - destruct d; try discriminate; inversion Hb; subst; exact H. }
    destruct (In_firstn_nth _ _ _ Hin) as [j [Hj Ej]]. exists j. auto.
  Qed.
End BandFresh.

(* ------------------------------------------------------------------------- *)
(** * Examples (non-vacuity), by computation                                  *)
(* ------------------------------------------------------------------------- *)
Module SafeExamples.
  Definition ex_pre (c : bytes) : N := N.of_nat (length c) mod 4.
  Definition ex_cfg : cfg := {| c_meph := 2; c_mbs := 4; c_sfc := 2; c_owner := false |}.
  Definition mk_s (path : str) (k : kind) (size : N) (mt : Z) : sentry :=
    {| s_apath := path; s_kind := k; s_size := size; s_target := None; s_mtime := mt;
       s_mode := 420; s_user := None; s_group := None |}.
  (* "/", "/a" (2 bytes, goes through the combiner), "/b" (6 bytes, two blocks of <= 4) *)
  Definition ex_src (x : N) : list sitem :=
    [ {| si_e := mk_s [47] KDir 0 1000000000; si_data := [] |};
      {| si_e := mk_s [47;97] KFile 2 1000000000; si_data := [1;2] |};
      {| si_e := mk_s [47;98] KFile 6 (1000000000 + Z.of_N x); si_data := [1;2;3;4;5;x] |} ].
  Definition final {R} (p : prog R) (a : arch) (phi : list fault) : arch := snd (fst (run ex_pre p a phi)).
  Definition trace {R} (p : prog R) (a : arch) (phi : list fault) := fst (fst (run ex_pre p a phi)).
  Definition backup (x : N) := backup_prog ex_pre ex_cfg (ex_src x).

  Definition ex_a1 := final init_prog arch0 [].                 (* after init *)
  Definition ex_a2 := final (backup 6) ex_a1 [].                (* after a first backup: b0000 *)
  Definition ex_a3 := final (backup 7) ex_a2 [].                (* after a second one: b0001 *)

  Ltac old_by_computation :=
    apply Old_check; vm_compute;
    repeat (apply Forall_cons; [first [reflexivity | right; right; reflexivity | left; reflexivity]|]);
    apply Forall_nil.

  Example ex_a2_contents :
    map fst (files ex_a2)
    = [PHeader; PHead 0; PBlock [1;2]; PHunk 0 0; PBlock [1;2;3;4]; PBlock [5;6]; PHunk 0 1; PTail 0]
    /\ length (trace (backup 7) ex_a2 []) = 24%nat.
  Proof. vm_compute. split; reflexivity. Qed.

  (* Old, checked by computation on pairs of states *)
  Example ex_old_init_backup : Old ex_a1 ex_a2.
  Proof. old_by_computation. Qed.
  Example ex_old_backup_backup : Old ex_a2 ex_a3.
  Proof. old_by_computation. Qed.

  (* a crash in the middle of the second backup (the 16th operation, the write of the first
     index hunk, killed leaving a zero-length file), and an I/O error on a block write *)
  Definition ex_phi_crash := repeat NoFault 17 ++ [CrashEmpty].
  Definition ex_phi_fail := repeat NoFault 20 ++ [Fail EOther].
  Example ex_crash_state :
    length (run_states ex_pre (backup 7) ex_a2 ex_phi_crash) = 18%nat
    /\ get (final (backup 7) ex_a2 ex_phi_crash) (PHunk 1 0) = Some Empty
    /\ snd (run ex_pre (backup 7) ex_a2 ex_phi_crash) = Crashed.
  Proof. vm_compute. repeat split; reflexivity. Qed.
  Example ex_old_crash : Old ex_a2 (final (backup 7) ex_a2 ex_phi_crash).
  Proof. old_by_computation. Qed.
  Example ex_old_fail : Old ex_a2 (final (backup 7) ex_a2 ex_phi_fail)
    /\ nth_error (trace (backup 7) ex_a2 ex_phi_fail) 20
       = Some (OpWrite (PBlock [5;7]) (PlBlock [5;7]) CreateNew, RErr EOther).
  Proof. split; [old_by_computation | vm_compute; reflexivity]. Qed.
  (* the same facts as instances of the theorem *)
  Example ex_old_crash_thm :
    Forall (Old ex_a2) (run_states ex_pre (backup 7) ex_a2 ex_phi_crash)
    /\ Old ex_a2 (final (backup 7) ex_a2 ex_phi_crash).
  Proof. apply backup_write_once. Qed.

  (* [Old] is not trivially true, and [add_only] is what makes it hold: an overwrite or a
     removal breaks it; a create-new on an existing non-empty file is refused *)
  Example ex_overwrite_breaks_old :
    ~ Old ex_a2 (fst (exec ex_pre ex_a2 (OpWrite (PTail 0) (PlTail None) Overwrite) NoFault)).
  Proof.
    intros [_ H]. specialize (H (PTail 0) (Good (PlTail (Some 2))) eq_refl).
    vm_compute in H. assert (X : Good (PlTail (Some 2)) <> Empty) by discriminate.
    specialize (H X). discriminate H.
  Qed.
  Example ex_remove_breaks_old :
    ~ Old ex_a2 (fst (exec ex_pre ex_a2 (OpRemoveFile (PTail 0)) NoFault)).
  Proof.
    intros [_ H]. specialize (H (PTail 0) (Good (PlTail (Some 2))) eq_refl).
    vm_compute in H. assert (X : Good (PlTail (Some 2)) <> Empty) by discriminate.
    specialize (H X). discriminate H.
  Qed.
  Example ex_create_new_refused :
    exec ex_pre ex_a2 (OpWrite (PTail 0) (PlTail None) CreateNew) NoFault = (ex_a2, RErr EAlreadyExists).
  Proof. vm_compute. reflexivity. Qed.

  (* no_path_written_twice: both disjuncts occur.  A first backup killed while writing the
     block [1;2] leaves it zero-length; the next backup completes it. *)
  Definition ex_c1 := final (backup 6) ex_a1 (repeat NoFault 10 ++ [CrashEmpty]).
  Example ex_leftover_completed :
    get ex_c1 (PBlock [1;2]) = Some Empty
    /\ nth_error (trace (backup 6) ex_c1 []) 15 = Some (OpWrite (PBlock [1;2]) (PlBlock [1;2]) CreateNew, ROk)
    /\ (exists ab, state_before ex_pre (backup 6) ex_c1 [] 15 = Some ab /\ get ab (PBlock [1;2]) = Some Empty)
    /\ nth_error (trace (backup 6) ex_c1 []) 6 = Some (OpWrite (PHead 1) (PlHead HvOk) CreateNew, ROk)
    /\ (exists ab, state_before ex_pre (backup 6) ex_c1 [] 6 = Some ab /\ get ab (PHead 1) = None).
  Proof.
    vm_compute. repeat split; try reflexivity; eexists; split; reflexivity.
  Qed.

  (* band freshness: the second backup lists b0000, creates b0001 *)
  Example ex_band_fresh :
    nth_error (trace (backup 7) ex_a2 []) 4 = Some (OpMkdir (DBand 1), ROk)
    /\ nth_error (trace (backup 7) ex_a2 []) 3 = Some (OpList DRoot, RList [DBlocks; DBand 0] [(PHeader, true)]).
  Proof. vm_compute. split; reflexivity. Qed.

  (* delete: a dry run takes and releases the lock and changes nothing; a crash in between
     leaves the lock behind (hence "other than GC_LOCK"); a real run removes the band and
     the block only it referenced *)
  Example ex_delete_dry :
    final (delete_prog [0] true false []) ex_a3 [] = ex_a3
    /\ nth_error (trace (delete_prog [0] true false []) ex_a3 []) 4 = Some (OpWrite PLock PlJson CreateNew, ROk)
    /\ length (trace (delete_prog [0] true false []) ex_a3 []) = 16%nat
    /\ get (final (delete_prog [0] true false []) ex_a3 (repeat NoFault 10 ++ [Crash])) PLock = Some (Good PlJson)
    /\ get ex_a3 PLock = None.
  Proof. vm_compute. repeat split; reflexivity. Qed.
  Example ex_delete_real :
    has_dir (final (delete_prog [0] false false []) ex_a3 []) (DBand 0) = false
    /\ get (final (delete_prog [0] false false []) ex_a3 []) (PBlock [5;6]) = None
    /\ has_dir ex_a3 (DBand 0) = true /\ get ex_a3 (PBlock [5;6]) = Some (Good (PlBlock [5;6])).
  Proof. vm_compute. repeat split; reflexivity. Qed.

  (* reading operations do read *)
  Example ex_list_reads :
    length (trace (list_prog Latest keep_all) ex_a3 []) = 10%nat
    /\ final (list_prog Latest keep_all) ex_a3 [] = ex_a3
    /\ length (trace (restore_prog Latest keep_all) ex_a3 []) = 16%nat
    /\ length (trace (validate_prog false []) ex_a3 []) = 30%nat.
  Proof. vm_compute. repeat split; reflexivity. Qed.
End SafeExamples.

Print Assumptions emits_only_sound.
Print Assumptions backup_emits_add_only.
Print Assumptions init_emits_add_only.
Print Assumptions list_emits_reads_only.
Print Assumptions restore_emits_reads_only.
Print Assumptions validate_emits_reads_only.
Print Assumptions backup_write_once.
Print Assumptions no_path_written_twice.
Print Assumptions written_at_most_once.
Print Assumptions backup_no_path_written_twice.
Print Assumptions backup_written_at_most_once.
Print Assumptions reads_only_state.
Print Assumptions list_state_unchanged.
Print Assumptions restore_state_unchanged.
Print Assumptions validate_state_unchanged.
Print Assumptions delete_emits.
Print Assumptions delete_dry_run_ops.
Print Assumptions delete_dry_run_noop.
Print Assumptions backup_emits_hist.
Print Assumptions backup_band_fresh.
Print Assumptions backup_band_fresh_state.
Print Assumptions backup_writes_in_new_band.
