(* C13 "everything written conforms to the documented archive format": the conformance
   predicates on an archive state, per band, their boolean checkers, and the invariant of the
   backup writer state used to prove them.  Definitions only (lemmas: ConfP.v). *)
From Coq Require Import List NArith Bool Sorted Permutation.
From CV Require Import Base.Str Apath Entry Store Stitch StitchProg Codec Backup.
Import ListNotations.
Local Open Scope N_scope.

Notation arch := Store.arch.

(* strict order of two entries by apath *)
Definition elt (x y : entry) : Prop := apath_cmp (e_apath x) (e_apath y) = Lt.
Definition plt (p q : str) : Prop := apath_cmp p q = Lt.

(* ------------------------------------------------------------------------- *)
(*  The documented format, per band [b] of a state [a]                       *)
(* ------------------------------------------------------------------------- *)

(* Hunk numbers are 0..n-1 without a gap: a hunk that has a successor is a good, non-empty
   hunk; the last one may also be the zero-length leftover of a killed write; nothing else
   is ever found under a hunk name. *)
Definition HunksConsecutive (a : arch) (b : N) : Prop :=
  (forall h, get a (PHunk b (h + 1)) <> None ->
             exists es, get a (PHunk b h) = Some (Good (PlHunk es)) /\ es <> [])
  /\ (forall h x, get a (PHunk b h) = Some x ->
                  x = Empty \/ exists es, x = Good (PlHunk es) /\ es <> []).

(* apaths strictly increase inside every hunk and from one hunk to every later one *)
Definition HunksSorted (a : arch) (b : N) : Prop :=
  (forall h es, get a (PHunk b h) = Some (Good (PlHunk es)) -> StronglySorted elt es)
  /\ (forall h h' es es' e e',
        h < h' ->
        get a (PHunk b h) = Some (Good (PlHunk es)) ->
        get a (PHunk b h') = Some (Good (PlHunk es')) ->
        In e es -> In e' es' -> elt e e').

(* one index entry is well formed *)
Definition EWF (e : entry) : Prop :=
  is_valid (e_apath e) = true
  /\ e_kind e <> KUnknown
  /\ (e_kind e <> KFile -> e_addrs e = [])
  /\ (e_target e <> None -> e_kind e = KSymlink)
  /\ Forall (fun ad => 0 < a_len ad) (e_addrs e).

Definition EntriesWF (a : arch) (b : N) : Prop :=
  forall h es, get a (PHunk b h) = Some (Good (PlHunk es)) -> Forall EWF es.

(* a band tail tells the truth: it counts exactly the hunks there are, all good *)
Definition TailTrue (a : arch) (b : N) : Prop :=
  forall n, get a (PTail b) = Some (Good (PlTail (Some n))) ->
    forall h, (h < n -> exists es, get a (PHunk b h) = Some (Good (PlHunk es)))
              /\ (n <= h -> get a (PHunk b h) = None).

Definition ConfBand (a : arch) (b : N) : Prop :=
  HunksConsecutive a b /\ HunksSorted a b /\ EntriesWF a b /\ TailTrue a b.

Definition Conf (a : arch) : Prop := forall b, ConfBand a b.

(* ------------------------------------------------------------------------- *)
(*  Hypotheses on the source and on the start state                          *)
(* ------------------------------------------------------------------------- *)
Definition spath (it : sitem) : str := s_apath (si_e it).

(* the order of the source walk (proved of the walk elsewhere: walk_strictly_sorted) *)
Definition SrcSorted (src : list sitem) : Prop := StronglySorted plt (map spath src).
Definition SrcValid (src : list sitem) : Prop := Forall (fun it => is_valid (spath it) = true) src.

(* only symlinks have a target; the bytes read from a file are as many as its size says *)
Definition ItemWF (it : sitem) : Prop :=
  (s_target (si_e it) <> None -> s_kind (si_e it) = KSymlink)
  /\ (s_kind (si_e it) = KFile -> N.of_nat (length (si_data it)) = s_size (si_e it)).
Definition SrcWF (src : list sitem) : Prop := Forall ItemWF src.

(* every file has its parent directory, every directory its parent *)
Definition WFparents (pre : bytes -> N) (a : arch) : Prop :=
  (forall f c, get a f = Some c -> has_dir a (parent_f pre f) = true)
  /\ (forall d p, In d (dirs a) -> parent_d d = Some p -> has_dir a p = true).

(* what the backup needs of it: a band whose directory does not exist has no index file *)
Definition NoOrphans (a : arch) : Prop :=
  forall b, has_dir a (DBand b) = false ->
    (forall h, get a (PHunk b h) = None) /\ get a (PTail b) = None.

(* ------------------------------------------------------------------------- *)
(*  Where an entry of a band written by this backup comes from                *)
(* ------------------------------------------------------------------------- *)
(* [e] is the metadata of a source item, with some addresses; a file's addresses add up to
   the size the source reported (with max_block_size = 0 a large file is stored without any
   content, in the Rust code as in the model: hence the side condition) *)
Definition FromSrc (c : cfg) (src : list sitem) (e : entry) : Prop :=
  exists it, In it src
    /\ e = with_addrs (meta_from (c_owner c) (si_e it)) (e_addrs e)
    /\ (s_kind (si_e it) = KFile -> 0 < c_mbs c -> e_size e = s_size (si_e it)).

(* every entry of every band that did not exist in [a0] comes from the source *)
Definition NewFromSrc (a0 : arch) (c : cfg) (src : list sitem) (a : arch) : Prop :=
  forall b h es, has_dir a0 (DBand b) = false ->
    get a (PHunk b h) = Some (Good (PlHunk es)) -> Forall (FromSrc c src) es.

(* ------------------------------------------------------------------------- *)
(*  The writer state during a backup into band [w_band w]                     *)
(* ------------------------------------------------------------------------- *)

(* apaths of everything pending: the index writer's entries, the combiner's finished and
   queued files *)
Definition ppaths (w : wst) : list str :=
  map e_apath (w_entries w) ++ map e_apath (w_fin w) ++ map (fun q => e_apath (snd q)) (w_queue w).

(* every pending entry satisfies [P], whatever block the queued files end up in *)
Definition EInv (P : entry -> Prop) (w : wst) : Prop :=
  Forall P (w_entries w) /\ Forall P (w_fin w)
  /\ Forall (fun q => forall blk, P (queued_entry blk q)) (w_queue w).

(* [x] is the apath of an entry already written into a hunk of band [b] *)
Definition Written (a : arch) (b : N) (x : str) : Prop :=
  exists h es e, get a (PHunk b h) = Some (Good (PlHunk es)) /\ In e es /\ e_apath e = x.

(* [U]: the apaths of the source entries still to come *)
Definition CInv (P : entry -> Prop) (U : list str) (a : arch) (w : wst) : Prop :=
  w_hunks w = w_seq w
  /\ (forall h, w_seq w <= h -> get a (PHunk (w_band w) h) = None)
  /\ (forall h, h < w_seq w ->
        exists es, get a (PHunk (w_band w) h) = Some (Good (PlHunk es)) /\ es <> [])
  /\ get a (PTail (w_band w)) = None
  /\ NoDup (ppaths w)
  /\ (forall p, In p (ppaths w) ->
        (forall x, Written a (w_band w) x -> plt x p) /\ (forall u, In u U -> plt p u))
  /\ (forall x u, Written a (w_band w) x -> In u U -> plt x u)
  /\ EInv P w
  /\ (forall h es, get a (PHunk (w_band w) h) = Some (Good (PlHunk es)) -> Forall P es).

(* the state keeps all its index hunks and tails *)
Definition BandEq (a a' : arch) : Prop :=
  forall b, (forall h, get a' (PHunk b h) = get a (PHunk b h)) /\ get a' (PTail b) = get a (PTail b).

(* how a step of the writer changes what is pending: only entries satisfying [cand] are
   new, their apaths are among [ps]; entries may be dropped, never duplicated *)
Definition Trans (cand : entry -> Prop) (ps : list str) (w w' : wst) : Prop :=
  w_band w' = w_band w /\ w_seq w' = w_seq w /\ w_hunks w' = w_hunks w
  /\ (forall P, EInv P w -> (forall x, cand x -> P x) -> EInv P w')
  /\ exists l, Permutation (ps ++ ppaths w) (ppaths w' ++ l).

Definition nocand (_ : entry) : Prop := False.

(* what FileCombiner::push_file can make of [e] *)
Definition candq (e : entry) (data : bytes) (x : entry) : Prop :=
  (data = [] /\ x = e)
  \/ (data <> [] /\ exists blk st, x = set_addrs e [{| a_hash := blk; a_start := st;
                                                       a_len := N.of_nat (length data) |}]).

(* operations that touch no index hunk and no band tail *)
Definition neutral (o : op) : Prop :=
  match o with
  | OpRead _ | OpList _ | OpMeta _ | OpMkdir _ => True
  | OpWrite f _ _ => match f with PHunk _ _ | PTail _ => False | _ => True end
  | _ => False
  end.

Definition SameIdx (w w' : wst) : Prop :=
  w_band w' = w_band w /\ w_seq w' = w_seq w /\ w_hunks w' = w_hunks w
  /\ w_entries w' = w_entries w /\ w_fin w' = w_fin w /\ w_queue w' = w_queue w /\ w_buf w' = w_buf w.

(* the entries [copy_entry] can make of a source item *)
Definition made (c : cfg) (basis : option entry) (it : sitem) (x : entry) : Prop :=
  let s := si_e it in
  let e := meta_from (c_owner c) s in
  match s_kind s with
  | KDir | KSymlink => x = e
  | KUnknown => False
  | KFile =>
      (exists b, basis = Some b /\ e_size b = s_size s /\ x = with_addrs e (e_addrs b))
      \/ (s_size s = 0 /\ x = e)
      \/ (si_data it = [] /\ x = e)
      \/ (si_data it <> []
          /\ exists blk st, x = set_addrs e [{| a_hash := blk; a_start := st;
                                                a_len := N.of_nat (length (si_data it)) |}])
      \/ (s_size s <> 0
          /\ x = with_addrs e (map chunk_addr (chunks (block_size_nat c (si_data it)) (si_data it))))
  end.

(* the stitched basis reader only holds entries satisfying [P] *)
Definition SInvP (P : entry -> Prop) (st : sstate) : Prop :=
  match st with SInBand _ _ buf _ => Forall P buf | _ => True end.
Definition optP (P : entry -> Prop) (o : option entry) : Prop :=
  match o with Some e => P e | None => True end.
Definition sresP (P : entry -> Prop) (r : sres) : Prop :=
  let '(skipped, o, st, _, _) := r in Forall P skipped /\ optP P o /\ SInvP P st.

(* ------------------------------------------------------------------------- *)
(*  Boolean checkers (sound: ConfP.v)                                         *)
(* ------------------------------------------------------------------------- *)
Definition eltb (x y : entry) : bool :=
  match apath_cmp (e_apath x) (e_apath y) with Lt => true | _ => false end.

Fixpoint ssorted_b (es : list entry) : bool :=
  match es with
  | [] => true
  | e :: es' => forallb (eltb e) es' && ssorted_b es'
  end.

Definition good_nonempty_hunk (o : option fcontent) : bool :=
  match o with Some (Good (PlHunk (_ :: _))) => true | _ => false end.
Definition good_hunk (o : option fcontent) : bool :=
  match o with Some (Good (PlHunk _)) => true | _ => false end.

(* the hunk paths (band, number) that occur in the file list *)
Definition hunk_keys (a : arch) : list (N * N) :=
  flat_map (fun p => match fst p with PHunk b h => [(b, h)] | _ => [] end) (files a).
Definition tail_keys (a : arch) : list N :=
  flat_map (fun p => match fst p with PTail b => [b] | _ => [] end) (files a).

Definition consecutive_b (a : arch) : bool :=
  forallb (fun k => let '(b, h) := k in
             match get a (PHunk b h) with
             | Some Empty => true
             | Some (Good (PlHunk (_ :: _))) => true
             | None => true
             | _ => false
             end
             && (N.eqb h 0 || good_nonempty_hunk (get a (PHunk b (N.pred h)))))
          (hunk_keys a).

Definition sorted_b (a : arch) : bool :=
  forallb (fun k => let '(b, h) := k in
             match get a (PHunk b h) with
             | Some (Good (PlHunk es)) =>
                 ssorted_b es
                 && forallb (fun k' => let '(b', h') := k' in
                              if N.eqb b' b && (h <? h') then
                                match get a (PHunk b h') with
                                | Some (Good (PlHunk es')) =>
                                    forallb (fun e => forallb (eltb e) es') es
                                | _ => true
                                end
                              else true) (hunk_keys a)
             | _ => true
             end) (hunk_keys a).

Definition kind_neqb (k k' : kind) : bool := negb (kind_eqb k k').
Definition ewf_b (e : entry) : bool :=
  is_valid (e_apath e)
  && kind_neqb (e_kind e) KUnknown
  && (kind_eqb (e_kind e) KFile || match e_addrs e with [] => true | _ => false end)
  && (match e_target e with None => true | Some _ => kind_eqb (e_kind e) KSymlink end)
  && forallb (fun ad => 0 <? a_len ad) (e_addrs e).

Definition entrieswf_b (a : arch) : bool :=
  forallb (fun k => let '(b, h) := k in
             match get a (PHunk b h) with
             | Some (Good (PlHunk es)) => forallb ewf_b es
             | _ => true
             end) (hunk_keys a).

(* all of 0..n-1 satisfy [f] *)
Definition all_below (f : N -> bool) (n : N) : bool :=
  N.peano_rect (fun _ => bool) true (fun h acc => acc && f h) n.

Definition tailtrue_b (a : arch) : bool :=
  forallb (fun b =>
             match get a (PTail b) with
             | Some (Good (PlTail (Some n))) =>
                 all_below (fun h => good_hunk (get a (PHunk b h))) n
                 && forallb (fun k' => let '(b', h') := k' in
                              if N.eqb b' b then
                                match get a (PHunk b h') with None => true | Some _ => h' <? n end
                              else true) (hunk_keys a)
             | _ => true
             end) (tail_keys a).

Definition conf_b (a : arch) : bool :=
  consecutive_b a && sorted_b a && entrieswf_b a && tailtrue_b a.

(* a band directory that is absent has no index file (checker for NoOrphans) *)
Definition noorphans_b (a : arch) : bool :=
  forallb (fun k => has_dir a (DBand (fst k))) (hunk_keys a)
  && forallb (fun b => has_dir a (DBand b)) (tail_keys a).

Definition wfparents_b (pre : bytes -> N) (a : arch) : bool :=
  forallb (fun p => has_dir a (parent_f pre (fst p))) (files a)
  && forallb (fun d => match parent_d d with Some p => has_dir a p | None => true end) (dirs a).

Fixpoint psorted_b (l : list str) : bool :=
  match l with
  | [] => true
  | p :: l' => forallb (fun q => match apath_cmp p q with Lt => true | _ => false end) l' && psorted_b l'
  end.
Definition srcsorted_b (src : list sitem) : bool := psorted_b (map spath src).
Definition srcvalid_b (src : list sitem) : bool := forallb (fun it => is_valid (spath it)) src.
Definition itemwf_b (it : sitem) : bool :=
  (match s_target (si_e it) with None => true | Some _ => kind_eqb (s_kind (si_e it)) KSymlink end)
  && (negb (kind_eqb (s_kind (si_e it)) KFile)
      || N.eqb (N.of_nat (length (si_data it))) (s_size (si_e it))).
Definition srcwf_b (src : list sitem) : bool := forallb itemwf_b src.
