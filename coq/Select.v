(* C12 / C15 at program level: definitions (lemmas and theorems: SelectP.v).
   Model file: executable definitions only.

   The stitched reader of list / restore takes ONE yield-time filter [keep : entry -> bool]
   (src/stitch.rs via archive.iter_entries(subtree, exclude): `.filter(|e|
   subtree.is_prefix_of(e.apath()) && !exclude.matches(e.apath()))`).  Here: what a filter does
   to a listing result and to a restore result, and the two filters of the properties
   (subtree selection, exclusions). *)
From Coq Require Import List NArith Bool.
From CV Require Import Base.Str Apath Entry Store Backup Read Conf.
Import ListNotations.
Local Open Scope N_scope.

(* ---- a filter applied to a listing result ---- *)
Definition lsel (keep : entry -> bool) (r : lres) : lres :=
  {| l_ok := l_ok r; l_entries := filter keep (l_entries r); l_merr := l_merr r |}.

(* ---- restore results ---- *)
Definition entry_of (rf : rfile) : entry := match rf with RFile e _ => e end.
(* restore could not produce this entry (a block missing / short / corrupt, unknown kind):
   it was reported to the monitor *)
Definition rf_failed (rf : rfile) : bool := match rf with RFile _ None => true | RFile _ (Some _) => false end.
Definition rf_keep (keep : entry -> bool) (rf : rfile) : bool := keep (entry_of rf).
Definition nfailed (l : list rfile) : N := N.of_nat (length (filter rf_failed l)).

(* ---- C12: the subtree filter, and what it is meant to be ---- *)
Definition subtree_keep (S : str) (e : entry) : bool := is_prefix_of S (e_apath e).
(* [e] lies at or below [S], by whole path components *)
Definition at_or_below (S : str) (e : entry) : bool := comp_prefix (comps S) (comps (e_apath e)).

(* checker: every entry of every decodable index hunk has a valid apath *)
Definition valid_hunks_b (a : arch) : bool :=
  forallb (fun p => match snd p with
                    | Good (PlHunk es) => forallb (fun e => is_valid (e_apath e)) es
                    | _ => true
                    end) (files a).

(* ---- C15: exclusions ---- *)
(* at list / restore time: an entry is yielded unless its path is excluded *)
Definition excl_keep (x : str -> bool) (e : entry) : bool := negb (x (e_apath e)).
(* the source items that are not excluded *)
Definition src_excl (x : str -> bool) (src : list sitem) : list sitem :=
  filter (fun it => negb (x (spath it))) src.
(* what a backup with exclusions reads: the walk never tests the root (the first item) and
   prunes below it *)
Definition src_excl_walk (x : str -> bool) (src : list sitem) : list sitem :=
  match src with
  | [] => []
  | root :: rest => root :: src_excl x rest
  end.
