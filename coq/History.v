(* C02, the composition over histories: "after any sequence of backups (completed or
   interrupted), deletes of other versions and gc, restoring a completed version that has
   not been deleted yields exactly the tree that was its source when it was made".
   Model file: executable definitions and predicates only (lemmas and theorems: HistoryP.v).

   1. [RInv]: what EVERY operation (backup, delete, gc) keeps under EVERY fault list: it is
      [E2E.Ready] without "there is no GC_LOCK file" (a killed delete leaves the lock);
   2. histories whose every step runs under its own fault list ([hop2]): storage failures,
      kills and torn writes anywhere, in backups and in deletes;
   3. "the backup started in state [a] completed into band [b]";
   4. checkers for the examples. *)
From Coq Require Import List NArith Bool.
From CV Require Import Base.Str Apath Entry Store Stitch StitchProg Codec Tree Backup Ops Delete Read
  Inv Conf Valid Truth E2E.
Import ListNotations.
Local Open Scope N_scope.

Section HistoryDefs.
  Variable pre : bytes -> N.

  (* ---- 1. the invariant of all operations under all faults ---- *)
  (* the archive header, the block directory, every file and directory inside an existing
     directory, no directory listed twice, referential integrity, format conformance *)
  Definition RInv (a : arch) : Prop :=
    get a PHeader = Some (Good PlJson)
    /\ has_dir a DBlocks = true
    /\ WFparents pre a
    /\ NoDup (dirs a)
    /\ AInv a
    /\ Conf a.

  Definition rinv_b (a : arch) : bool :=
    match get a PHeader with Some (Good PlJson) => true | _ => false end
    && has_dir a DBlocks
    && wfparents_b pre a && nodup_dirs (dirs a) && ainv_b a && conf_b a.

  (* final state of a run; every state of a run (the intermediate ones, what a kill leaves,
     the last) *)
  Definition final2 {R} (p : prog R) (a : arch) (phi : list fault) : arch := snd (fst (run pre p a phi)).
  Definition all_states {R} (p : prog R) (a : arch) (phi : list fault) : list arch :=
    run_states pre p a phi ++ [final2 p a phi].

  (* ---- 2. histories ---- *)
  Inductive hop2 :=
  | H2Backup (c : cfg) (src : list sitem) (phi : list fault)
  | H2Delete (ids : list N) (dry brk : bool) (hint : list bytes) (phi : list fault).  (* ids = []: gc *)

  Definition run_hop2 (a : arch) (o : hop2) : arch :=
    match o with
    | H2Backup c src phi => final2 (backup_prog pre c src) a phi
    | H2Delete ids dry brk hint phi => final2 (delete_prog ids dry brk hint) a phi
    end.

  Definition run_history2 (a : arch) (l : list hop2) : arch := fold_left run_hop2 l a.

  (* every state the archive passes through during one step, the last included *)
  Definition hop2_states (a : arch) (o : hop2) : list arch :=
    match o with
    | H2Backup c src phi => all_states (backup_prog pre c src) a phi
    | H2Delete ids dry brk hint phi => all_states (delete_prog ids dry brk hint) a phi
    end.

  (* every state of a history: the start, then every state of every step *)
  Fixpoint history_states2 (a : arch) (l : list hop2) : list arch :=
    match l with
    | [] => [a]
    | o :: l' => a :: hop2_states a o ++ history_states2 (run_hop2 a o) l'
    end.

  (* the sources are what the walk yields: strictly sorted, valid paths, well-formed items *)
  Definition hop2_src_ok (o : hop2) : Prop :=
    match o with
    | H2Backup _ src _ => SrcSorted src /\ SrcValid src /\ SrcWF src
    | H2Delete _ _ _ _ _ => True
    end.

  (* the step does not delete band [b] *)
  Definition hop2_keeps (b : N) (o : hop2) : Prop :=
    match o with
    | H2Backup _ _ _ => True
    | H2Delete ids _ _ _ _ => ~ In b ids
    end.

  (* the step cannot leave GC_LOCK behind: a delete meets no fault (backups: any faults) *)
  Definition hop2_unlocking (o : hop2) : Prop :=
    match o with
    | H2Backup _ _ _ => True
    | H2Delete _ _ _ _ phi => phi = []
    end.

  (* ---- 3. a completed backup ---- *)
  (* the backup of [src] started in [a] under the faults [phi] ran to its end and reported
     success, no error, and band [b] *)
  Definition backup_completed (c : cfg) (src : list sitem) (a : arch) (phi : list fault) (b : N) : Prop :=
    exists r, snd (run pre (backup_prog pre c src) a phi) = Store.Done r
              /\ b_ok r = true /\ b_errors r = 0 /\ b_band r = Some b.

  Definition backup_completed_b (c : cfg) (src : list sitem) (a : arch) (phi : list fault) (b : N) : bool :=
    match snd (run pre (backup_prog pre c src) a phi) with
    | Store.Done r => b_ok r && N.eqb (b_errors r) 0
                && match b_band r with Some b' => N.eqb b' b | None => false end
    | _ => false
    end.

  (* what restoring band [b] returns, without faults *)
  Definition restore_of (keep : entry -> bool) (a : arch) (b : N) : Store.outcome rres :=
    snd (run pre (restore_prog (Specified b) keep) a []).

  (* ---- 4. checkers ---- *)
  (* restoring [b] from [a] reports no error and returns, in source order, every recorded
     source item with exactly the bytes read from the source *)
  Definition restores_exactly_b (c : cfg) (src : list sitem) (a : arch) (b : N) : bool :=
    match restore_of keep_all a b with
    | Store.Done rr => r_ok rr && N.eqb (r_merr rr) 0
                 && forall2b (rfile_exact_b c) (known_items src) (r_files rr)
    | _ => false
    end.

  (* what [resolve LatestClosed] selects, without faults *)
  Definition latest_closed_of (a : arch) : Store.outcome (option N) :=
    snd (run pre (resolve LatestClosed (fun o => Ret o)) a []).
End HistoryDefs.
