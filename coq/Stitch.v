(* Model of index stitching: src/index/stitch.rs (`Stitch::next`, `previous_existing_band`),
   src/index/mod.rs (`IndexHunkIter::next`, `advance_to_after`, `iter_available_hunks`),
   src/archive.rs (`band_exists`, `band_is_closed`), src/band.rs (`Band::open`),
   src/bandid.rs (`BandId::previous`).
   Model file: executable definitions only, no proofs (see StitchP.v).

   Generic over the key type (apaths), its comparison, and the entry type; instantiated in
   StitchInst.v with K := str, kcmp := apath_cmp.

   What is abstracted (see also the report at the end of StitchP.v):
   * Transport errors other than "file missing / undecodable" are not modelled
     (`band_exists(..).unwrap_or(false)`, `band_is_closed(..).unwrap_or(false)` collapse an I/O
     error to `false`, which is the same as the file being absent in this model).
   * `hunks_available` lists the hunk files that are present: sub-directory names sorted as
     strings, and inside each sub-directory the file names that parse as u32, sorted numerically.
     Hunk n is written to "{n/10000:05}/{n:09}", so for canonically placed files (and fewer than
     10^9 hunks) this is increasing hunk-number order.  `b_hunks` is that list, already read:
     `Some es` = decoded entries, `None` = present but unreadable/undecodable (`read_hunk` returns
     `Err`, `IndexHunkIter::next` does `continue`).  `read_hunk` returning `Ok(None)` (a number
     was listed but its canonical file is not found: a stray file in the wrong sub-directory, or
     a deletion race) ends the band's iteration in Rust; that case is not modelled.
   * `iter_available_hunks` panics (`expect`) if listing the index directory fails; not modelled.
   * The monitor/error reporting side channel is not modelled.                                  *)
From Coq Require Import List Bool.
Import ListNotations.

Section Stitch.
  Variable K : Type.                         (* keys: apaths *)
  Variable kcmp : K -> K -> comparison.      (* `impl Ord for Apath` *)
  Variable E : Type.                         (* index entries *)
  Variable key : E -> K.                     (* `entry.apath` *)

  Definition klt (a b : K) : Prop := kcmp a b = Lt.
  Definition kle (a b : K) : Prop := kcmp a b <> Gt.
  Definition kltb (a b : K) : bool := match kcmp a b with Lt => true | _ => false end.
  Definition kleb (a b : K) : bool := match kcmp a b with Gt => false | _ => true end.

  (* ---------------------------------------------------------------- archive view *)

  Record band := {
    b_head   : bool;   (* a BANDHEAD file exists: `Archive::band_exists` *)
    b_opens  : bool;   (* `Band::open` succeeds: head is present, decodes, version and flags are
                          supported.  (Well-formed views have b_opens = true -> b_head = true; no
                          theorem needs this.) *)
    b_closed : bool;   (* a BANDTAIL file exists: `Archive::band_is_closed` *)
    b_hunks  : list (option (list E))
                       (* index hunk files present, in increasing hunk-number order;
                          None = present but unreadable/undecodable *)
  }.

  (* band id |-> band directory; None = no such directory *)
  Definition arch := nat -> option band.

  Definition band_exists (a : arch) (n : nat) : bool :=
    match a n with Some b => b_head b | None => false end.
  Definition band_opens (a : arch) (n : nat) : bool :=
    match a n with Some b => b_opens b | None => false end.
  Definition band_closed (a : arch) (n : nat) : bool :=
    match a n with Some b => b_closed b | None => false end.
  Definition band_hunks (a : arch) (n : nat) : list (option (list E)) :=
    match a n with Some b => b_hunks b | None => [] end.

  (* `previous_existing_band`: `band_id.previous()` until `band_exists`; None when we ran past b0000.
     Structural on the band number exactly like the Rust loop. *)
  Fixpoint previous_existing_band (a : arch) (n : nat) : option nat :=
    match n with
    | O => None                                   (* BandId(0).previous() = None *)
    | S m => if band_exists a m then Some m else previous_existing_band a m
    end.

  (* ---------------------------------------------------------------- IndexHunkIter::next *)

  Fixpoint last_key (es : list E) : option K :=            (* entries.last().apath *)
    match es with [] => None | [e] => Some (key e) | _ :: es' => last_key es' end.
  Definition first_key (es : list E) : option K :=         (* entries.first().apath *)
    match es with [] => None | e :: _ => Some (key e) end.

  (* `entries[idx..]` with idx from `binary_search_by_key(&after, |e| &e.apath)`
     (Ok(i) => i+1, Err(i) => i).  On a hunk that is strictly sorted by key this is exactly
     "drop the leading entries whose key is <= after", which is what we model.  On an UNSORTED
     hunk the result of Rust's binary search is unspecified (some index, not a panic), so this
     model is only faithful for sorted hunks; all theorems that go through this branch assume
     `BandsSorted`. *)
  Fixpoint drop_le (x : K) (es : list E) : list E :=
    match es with
    | [] => []
    | e :: es' => if kleb (key e) x then drop_le x es' else es
    end.

  (* One iteration of the `loop` in `IndexHunkIter::next`, on one listed hunk `h`, with
     `self.after = after`.  Result: (Some out = `return Some(out)` | None = `continue`, self.after'). *)
  Definition hunk_step (h : option (list E)) (after : option K)
    : option (list E) * option K :=
    match h with
    | None => (None, after)                                       (* Err(_) => continue *)
    | Some es =>
        match after with
        | None => (match es with [] => None | _ => Some es end, None)   (* if !entries.is_empty() *)
        | Some x =>
            match last_key es with
            | Some l =>
                if kleb l x then (None, after)                    (* last.apath <= *after: continue *)
                else match first_key es with
                     | Some f =>
                         if kltb x f then (Some es, None)         (* first.apath > *after: clear *)
                         else (Some (drop_le x es), after)        (* binary search; `after` kept *)
                     | None => (Some (drop_le x es), after)       (* unreachable: es non-empty *)
                     end
            | None => (Some (drop_le x es), after)
                (* empty hunk while `after` is set: `last()`/`first()` are None, the binary search
                   gives Err(0), and `Some(vec![])` is returned *)
            end
        end
    end.

  (* ---------------------------------------------------------------- Stitch::next, InBand arm *)

  (* `if let Some(last_apath) = hunk.last().map(..) { self.last_apath = Some(last_apath) }` *)
  Definition newlast (out : list E) (last : option K) : option K :=
    match last_key out with Some l => Some l | None => last end.

  (* The `InBand` arm run until `index_hunks.next()` gives None: all remaining hunks `hs` of the band,
     hunk iterator state `after`, stitcher state `last` (= self.last_apath).
     Returns the entries yielded to the caller and the final `last_apath`.
     `keep e` = `subtree.is_prefix_of(&e.apath) && !exclude.matches(&e.apath)`: applied when an
     entry is taken out of `buffered_entries`, i.e. after `last_apath` was updated from the whole
     loaded hunk. *)
  Fixpoint band_loop (keep : E -> bool) (hs : list (option (list E)))
           (after : option K) (last : option K) : list E * option K :=
    match hs with
    | [] => ([], last)
    | h :: hs' =>
        let '(o, after') := hunk_step h after in
        match o with
        | None => band_loop keep hs' after' last
        | Some out =>
            let '(rest, last') := band_loop keep hs' after' (newlast out last) in
            (filter keep out ++ rest, last')
        end
    end.

  (* ---------------------------------------------------------------- Stitch::next, whole machine *)

  (* `BeforeBand n` followed by `InBand` until the band's hunks are exhausted:
     `Band::open` fails => nothing is read (straight to AfterBand, last_apath unchanged);
     otherwise iterate the available hunks, `advance_to_after(last)` if `last_apath` is set. *)
  Definition read_band (keep : E -> bool) (a : arch) (n : nat) (last : option K)
    : list E * option K :=
    if band_opens a n then band_loop keep (band_hunks a n) last last
    else ([], last).

  (* `BeforeBand n` ... `AfterBand n`, with the continuation `below` standing for
     "state BeforeBand(previous_existing_band n), or Done if there is none". *)
  Definition visit_band (keep : E -> bool) (a : arch) (n : nat) (last : option K)
             (below : option K -> list E) : list E :=
    let '(out, last') := read_band keep a n last in
    out ++ (if band_closed a n then []            (* band_is_closed => Done *)
            else below last').

  (* `stitch_below keep a n last`: continue with the nearest existing band whose id is < n
     (the `previous_existing_band` search fused with the main loop so that the whole thing is
     one structural recursion on the band number; StitchP.stitch_below_eq shows it is
     `match previous_existing_band a n with None => [] | Some p => stitch_from .. p .. end`). *)
  Fixpoint stitch_below (keep : E -> bool) (a : arch) (n : nat) (last : option K) : list E :=
    match n with
    | O => []
    | S m =>
        if band_exists a m then visit_band keep a m last (stitch_below keep a m)
        else stitch_below keep a m last
    end.

  (* The machine started in state `BeforeBand n` with `last_apath = last`, run to `Done`;
     the list of everything `next()` returns. *)
  Definition stitch_from (keep : E -> bool) (a : arch) (n : nat) (last : option K) : list E :=
    visit_band keep a n last (stitch_below keep a n).

  (* `Stitch::new(archive, n, subtree, exclude)` then `collect_all()` *)
  Definition stitch_keep (keep : E -> bool) (a : arch) (n : nat) : list E :=
    stitch_from keep a n None.

  (* no subtree restriction / exclusions *)
  Definition keep_all (e : E) : bool := true.
  Definition stitch (a : arch) (n : nat) (last : option K) : list E := stitch_from keep_all a n last.
  Definition stitch_start (a : arch) (n : nat) : list E := stitch_keep keep_all a n.

  (* ---------------------------------------------------------------- explicit state machine *)
  (* The same thing as a literal transition system, one `loop` iteration of `Stitch::next` per
     step (the InBand arm collapsed to one step by `band_loop`), run with fuel.  Only used to
     cross-check the fused recursion above: StitchP.machine_eq_stitch shows that fuel 2n+3
     suffices from `BeforeBand n` and the result is `stitch_from`. *)
  Inductive state := Done | BeforeBand (n : nat) | AfterBand (n : nat).

  Definition machine_step (keep : E -> bool) (a : arch) (st : state) (last : option K)
    : list E * state * option K :=
    match st with
    | Done => ([], Done, last)
    | BeforeBand n =>
        let '(out, last') := read_band keep a n last in (out, AfterBand n, last')
    | AfterBand n =>
        if band_closed a n then ([], Done, last)
        else match previous_existing_band a n with
             | Some p => ([], BeforeBand p, last)
             | None => ([], Done, last)
             end
    end.

  (* None = out of fuel *)
  Fixpoint machine_run (fuel : nat) (keep : E -> bool) (a : arch) (st : state) (last : option K)
    : option (list E) :=
    match st with
    | Done => Some []
    | _ =>
        match fuel with
        | O => None
        | S fuel' =>
            let '(out, st', last') := machine_step keep a st last in
            match machine_run fuel' keep a st' last' with
            | Some rest => Some (out ++ rest)
            | None => None
            end
        end
    end.

  (* ---------------------------------------------------------------- specification *)
  (* The documented rule ("the new index hunks for as much of the tree as they cover, then the
     next older index from that apath onwards, recursively, until a complete index or no older
     index"), written without reference to hunks, `after`-clearing or `last_apath` updates. *)

  (* concatenation of the decodable hunks *)
  Definition hunks_entries (hs : list (option (list E))) : list E :=
    concat (map (fun h => match h with Some es => es | None => [] end) hs).

  (* the index of band n as far as it can be read *)
  Definition entries (a : arch) (n : nat) : list E :=
    if band_opens a n then hunks_entries (band_hunks a n) else [].

  Definition gt_after (after : option K) (e : E) : bool :=
    match after with None => true | Some x => kltb x (key e) end.

  (* the larger of two optional keys *)
  Definition max_after (after : option K) (o : option K) : option K :=
    match after, o with
    | None, _ => o
    | _, None => after
    | Some x, Some l => if kltb x l then Some l else Some x
    end.

  Definition spec_band (a : arch) (n : nat) (after : option K)
             (below : option K -> list E) : list E :=
    let es := filter (gt_after after) (entries a n) in
    es ++ (if band_closed a n then [] else below (max_after after (last_key es))).

  (* Coq needs a structural recursion, so the search for the previous existing band is fused
     into the recursion here as well; the intended, documented equation
        stitch_spec a n after =
          let es := filter (gt_after after) (entries a n) in
          es ++ (if band_closed a n then []
                 else match previous_existing_band a n with
                      | None => []
                      | Some p => stitch_spec a p (max_after after (last_key es))
                      end)
     is StitchP.stitch_spec_eqn, and StitchP.stitch_spec_unique shows that this equation has
     exactly one solution. *)
  Fixpoint spec_below (a : arch) (n : nat) (after : option K) : list E :=
    match n with
    | O => []
    | S m => if band_exists a m then spec_band a m after (spec_below a m)
             else spec_below a m after
    end.

  Definition stitch_spec (a : arch) (n : nat) (after : option K) : list E :=
    spec_band a n after (spec_below a n).

End Stitch.

Arguments b_head {E}.
Arguments b_opens {E}.
Arguments b_closed {E}.
Arguments b_hunks {E}.
Arguments Build_band {E}.
Arguments band_exists {E}.
Arguments band_opens {E}.
Arguments band_closed {E}.
Arguments band_hunks {E}.
Arguments previous_existing_band {E}.
