(* C03 / C04 / C13 core: referential integrity of the archive at every point of a backup.

   "At every point of a backup -- for every crash point and every sequence of storage
   failures -- no index entry anywhere refers to a block that is missing or shorter than the
   entry needs."

   The proof is a state-dependent weakest-precondition logic [safe] (Inv.v) over
   [Store.prog], sound for [run] / [run_states] under every fault list, with one rule for
   all add-only operations ([safe_step]); then one lemma per sub-program of the backup,
   with the invariant of the writer state ([WInv]) and of the lazily stitched basis
   ([SInv]) generalised. *)
From Coq Require Import Lia Permutation.
From CV Require Import Base.Str Base.StrP Apath Entry Stitch Tree Codec CodecP Store StitchProg Backup
  Ops Delete Read SafeP Inv.
Local Open Scope N_scope.

Notation arch := Store.arch.

(* ------------------------------------------------------------------------- *)
(** * 1. Monotonicity along [Old]                                             *)
(* ------------------------------------------------------------------------- *)

Lemma block_ok_mono a a' c : Old a a' -> block_ok a c -> block_ok a' c.
Proof. intros [_ HF] H. apply HF; [exact H | discriminate]. Qed.

Lemma addr_ok_mono a a' ad : Old a a' -> addr_ok a ad -> addr_ok a' ad.
Proof. intros HO [H1 H2]. split; [eapply block_ok_mono; eauto | exact H2]. Qed.

Lemma entry_ok_mono a a' e : Old a a' -> entry_ok a e -> entry_ok a' e.
Proof.
  intros HO H. unfold entry_ok in *. eapply Forall_impl; [|exact H].
  intros ad. apply addr_ok_mono. exact HO.
Qed.

Lemma entries_ok_mono a a' es : Old a a' -> Forall (entry_ok a) es -> Forall (entry_ok a') es.
Proof. intros HO H. eapply Forall_impl; [|exact H]. intros e. apply entry_ok_mono. exact HO. Qed.

Lemma blocks_ok_mono a a' l : Old a a' -> Forall (block_ok a) l -> Forall (block_ok a') l.
Proof. intros HO H. eapply Forall_impl; [|exact H]. intros e. apply block_ok_mono. exact HO. Qed.

Lemma WInv_mono a a' w : Old a a' -> WInv a w -> WInv a' w.
Proof.
  intros HO (H1 & H2 & H3 & H4). unfold WInv.
  repeat split; eauto using blocks_ok_mono, entries_ok_mono.
Qed.

Lemma SInv_mono a a' st : Old a a' -> SInv a st -> SInv a' st.
Proof. intros HO. destruct st; cbn [SInv]; auto. apply entries_ok_mono. exact HO. Qed.

Lemma opt_ok_mono a a' o : Old a a' -> opt_ok a o -> opt_ok a' o.
Proof. intros HO. destruct o; cbn [opt_ok]; auto. apply entry_ok_mono. exact HO. Qed.

(* ------------------------------------------------------------------------- *)
(** * 2. The association list of files                                        *)
(* ------------------------------------------------------------------------- *)

Lemma fpath_eqb_refl f : fpath_eqb f f = true.
Proof. destruct (fpath_eqb_spec f f); congruence. Qed.

Lemma lookup_None_notin f l : lookup f l = None -> ~ In f (map fst l).
Proof.
  induction l as [|[g d] l IH]; cbn [lookup map fst]; [intros _ []|].
  destruct (fpath_eqb_spec f g) as [->|Hfg]; [discriminate|].
  intros E [H|H]; [congruence | exact (IH E H)].
Qed.

Lemma lookup_In_nodup f x l : NoDup (map fst l) -> In (f, x) l -> lookup f l = Some x.
Proof.
  induction l as [|[g d] l IH]; cbn [lookup map fst]; [intros _ []|].
  intros ND [E|Hin].
  - inversion E; subst. rewrite fpath_eqb_refl. reflexivity.
  - inversion ND as [|? ? Hnot ND']; subst.
    destruct (fpath_eqb_spec f g) as [->|Hfg]; [|auto].
    exfalso. apply Hnot. apply (in_map fst) in Hin. exact Hin.
Qed.

Lemma set_file_keys f c l :
  map fst (set_file f c l) = match lookup f l with Some _ => map fst l | None => map fst l ++ [f] end.
Proof.
  induction l as [|[g d] l IH]; cbn [set_file lookup map fst app]; [reflexivity|].
  destruct (fpath_eqb f g); cbn [map fst]; [reflexivity|].
  rewrite IH. destruct (lookup f l); reflexivity.
Qed.

Lemma set_file_nodup f c l : NoDup (map fst l) -> NoDup (map fst (set_file f c l)).
Proof.
  intros ND. rewrite set_file_keys. destruct (lookup f l) eqn:E; [exact ND|].
  apply (Permutation_NoDup (Permutation_cons_append (map fst l) f)).
  constructor; [apply lookup_None_notin; exact E | exact ND].
Qed.

(* ------------------------------------------------------------------------- *)
(** * 3. One operation keeps the archive invariant                            *)
(* ------------------------------------------------------------------------- *)

Lemma AInv_files (a a' : arch) : files a' = files a -> AInv a -> AInv a'.
Proof.
  intros E (HR & HB & HN).
  assert (G : forall f, get a' f = get a f) by (intros f; unfold get; rewrite E; reflexivity).
  assert (HBk : forall c, block_ok a c -> block_ok a' c)
    by (intros c; unfold block_ok; rewrite G; auto).
  assert (HE : forall e, entry_ok a e -> entry_ok a' e).
  { intros e H. unfold entry_ok in *. eapply Forall_impl; [|exact H].
    intros ad [H1 H2]. split; auto. }
  split; [|split].
  - intros b h es H. rewrite G in H. eapply Forall_impl; [|exact (HR b h es H)]. exact HE.
  - intros c x H. rewrite G in H. exact (HB c x H).
  - unfold FilesND. rewrite E. exact HN.
Qed.

Lemma AInv_set_file (a : arch) f x :
  AInv a -> (get a f = None \/ get a f = Some Empty) -> content_ok a f x ->
  AInv {| dirs := dirs a; files := set_file f x (files a) |}.
Proof.
  intros (HR & HB & HN) Hf Hx.
  pose proof (Old_set_file a f x Hf) as HO.
  set (a' := {| dirs := dirs a; files := set_file f x (files a) |}) in *.
  assert (G : forall g, get a' g = if fpath_eqb g f then Some x else get a g).
  { intros g. unfold get, a'. cbn [files]. apply lookup_set_file. }
  split; [|split].
  - intros b h es H. rewrite G in H.
    destruct (fpath_eqb_spec (PHunk b h) f) as [E|_].
    + inversion H; subst x. cbn [content_ok] in Hx. destruct Hx as [_ Hx].
      eapply entries_ok_mono; [exact HO|]. apply Hx. reflexivity.
    + eapply entries_ok_mono; [exact HO|]. exact (HR b h es H).
  - intros c y H. rewrite G in H.
    destruct (fpath_eqb_spec (PBlock c) f) as [E|_]; [|exact (HB c y H)].
    inversion H; subst y. destruct x as [p| |]; cbn [content_ok] in Hx; [|auto|contradiction].
    left. destruct Hx as [Hx _]. rewrite (Hx c (eq_sym E)). reflexivity.
  - unfold FilesND, a'. cbn [files]. apply set_file_nodup. exact HN.
Qed.

Section Step.
  Variable pre : bytes -> N.

  Lemma exec_ok_write_cases (a : arch) f p :
    (exec_ok pre a (OpWrite f p CreateNew) = (a, RErr EAlreadyExists)
     \/ exec_ok pre a (OpWrite f p CreateNew) = (a, RErr ENotFound))
    \/ ((get a f = None \/ get a f = Some Empty)
        /\ exec_ok pre a (OpWrite f p CreateNew)
           = ({| dirs := dirs a; files := set_file f (Good p) (files a) |}, ROk)).
  Proof.
    cbn [exec_ok]. destruct (has_dir a (parent_f pre f)); [|left; right; reflexivity].
    destruct (get a f) as [[q| |]|]; auto.
  Qed.

  Lemma exec_empty_cases (a : arch) o :
    exec_empty pre a o = a
    \/ exists f, get a f = None
                 /\ exec_empty pre a o = {| dirs := dirs a; files := set_file f Empty (files a) |}.
  Proof.
    destruct o as [f|f p m|d|d|f|f|d]; cbn [exec_empty]; auto.
    destruct (has_dir a (parent_f pre f)); auto.
    destruct (get a f) eqn:G; auto. right. exists f. auto.
  Qed.

  Lemma exec_empty_AInv (a : arch) o : AInv a -> AInv (exec_empty pre a o).
  Proof.
    intros HI. destruct (exec_empty_cases a o) as [E|[f [G E]]]; rewrite E; [exact HI|].
    apply AInv_set_file; auto. exact Logic.I.
  Qed.

  Lemma exec_mkdir_files (a : arch) d flt : files (fst (exec pre a (OpMkdir d) flt)) = files a.
  Proof.
    assert (H : files (fst (exec_ok pre a (OpMkdir d))) = files a).
    { cbn [exec_ok]. destruct (has_dir a d); [reflexivity|].
      destruct (parent_d d) as [p|]; [destruct (has_dir a p)|]; reflexivity. }
    destruct flt; cbn [exec fst]; auto.
  Qed.

  Lemma exec_read_reply (a : arch) o flt :
    reads_only o -> reply_ok pre a o (snd (exec pre a o flt)).
  Proof.
    intros Ho.
    assert (H : reply_ok pre a o (snd (exec_ok pre a o))).
    { destruct o as [f|f p m|d|d|f|f|d]; cbn in Ho; try contradiction; cbn [exec_ok].
      - destruct (get a f) eqn:G; cbn [snd reply_ok]; auto.
      - destruct (has_dir a d); cbn [snd reply_ok]; auto.
      - destruct (get a f); cbn [snd reply_ok]; auto. }
    destruct flt; cbn [exec snd]; auto.
    destruct o; cbn; auto.
  Qed.

  (* the single-step lemma: an add-only operation whose payload is admissible, under ANY
     fault, keeps the invariant, only adds, and answers truthfully *)
  Lemma exec_step (a : arch) o flt :
    add_only o -> op_pre a o -> AInv a ->
    AInv (fst (exec pre a o flt)) /\ Old a (fst (exec pre a o flt))
    /\ op_post pre a o (snd (exec pre a o flt)) (fst (exec pre a o flt)).
  Proof.
    intros Ho Hp HI. split; [|split; [apply exec_add_Old; exact Ho|]].
    - destruct o as [f|f p m|d|d|f|f|d]; cbn in Ho; try contradiction.
      + rewrite exec_read_same by exact Logic.I. exact HI.
      + destruct m; [|contradiction]. cbn [op_pre] in Hp.
        destruct flt; cbn [exec fst]; try exact HI;
          (destruct (exec_ok_write_cases a f p) as [[E|E]|[G E]]; rewrite E; cbn [fst];
           [exact HI | exact HI | apply AInv_set_file; auto]).
      + rewrite exec_read_same by exact Logic.I. exact HI.
      + eapply AInv_files; [apply exec_mkdir_files | exact HI].
      + rewrite exec_read_same by exact Logic.I. exact HI.
    - destruct o as [f|f p m|d|d|f|f|d]; cbn in Ho; try contradiction; cbn [op_post].
      + split; [apply exec_read_same; exact Logic.I | apply exec_read_reply; exact Logic.I].
      + destruct m; [|contradiction]. intros E. apply exec_create_ok'. exact E.
      + split; [apply exec_read_same; exact Logic.I | apply exec_read_reply; exact Logic.I].
      + exact Logic.I.
      + split; [apply exec_read_same; exact Logic.I | apply exec_read_reply; exact Logic.I].
  Qed.

  (* ----------------------------------------------------------------------- *)
  (** * 4. The logic [safe]                                                   *)
  (* ----------------------------------------------------------------------- *)

  Notation safe := (Inv.safe pre AInv).

  Lemma safe_weaken {R} (Q Q' : R -> arch -> Prop) (p : prog R) :
    (forall r a, Q r a -> Q' r a) -> forall a, safe Q p a -> safe Q' p a.
  Proof.
    intros HQ. induction p as [r|o k IH|]; intros a H; cbn [Inv.safe] in *; auto.
    destruct H as [H1 H2]. split; [|exact H2].
    intros f. destruct (H1 f) as [Hi Hs]. split; [exact Hi|]. apply IH. exact Hs.
  Qed.

  Lemma safe_bind {A B} (Q : A -> arch -> Prop) (Q' : B -> arch -> Prop) (p : prog A) (g : A -> prog B) :
    (forall r a, Q r a -> safe Q' (g r) a) -> forall a, safe Q p a -> safe Q' (bind p g) a.
  Proof.
    intros Hg. induction p as [r|o k IH|]; intros a H; cbn [Inv.safe bind] in *; auto.
    destruct H as [H1 H2]. split; [|exact H2].
    intros f. destruct (H1 f) as [Hi Hs]. split; [exact Hi|]. apply IH. exact Hs.
  Qed.

  (* soundness: every state of every run, under every fault list, satisfies the invariant;
     so does the final state (also the one a crash leaves); a returned result satisfies [Q] *)
  Lemma safe_sound {R} (Q : R -> arch -> Prop) (p : prog R) :
    forall a phi, AInv a -> safe Q p a ->
      Forall AInv (run_states pre p a phi)
      /\ AInv (snd (fst (run pre p a phi)))
      /\ (forall r, snd (run pre p a phi) = Done r -> Q r (snd (fst (run pre p a phi)))).
  Proof.
    induction p as [r|o k IH|]; intros a phi Ha H.
    - cbn. split; [constructor|]. split; [exact Ha|]. intros r' E. inversion E; subst. exact H.
    - cbn [Inv.safe] in H. destruct H as [H1 H2].
      rewrite run_Do, run_states_Do.
      destruct (hdf phi) as [|e| |]; cbn [fst snd].
      + destruct (H1 NoFault) as [Hi Hs].
        destruct (IH _ _ (tl phi) Hi Hs) as (F1 & F2 & F3). split; [constructor; assumption|]. split; assumption.
      + destruct (H1 (Fail e)) as [Hi Hs].
        destruct (IH _ _ (tl phi) Hi Hs) as (F1 & F2 & F3). split; [constructor; assumption|]. split; assumption.
      + split; [constructor|]. split; [exact Ha|]. intros r E. discriminate E.
      + split; [constructor; [exact H2|constructor]|]. split; [exact H2|]. intros r E. discriminate E.
    - cbn. split; [constructor|]. split; [exact Ha|]. intros r E. discriminate E.
  Qed.

  (* the rule for every add-only operation *)
  Lemma safe_step {R} (Q : R -> arch -> Prop) o (k : reply -> prog R) (a : arch) :
    add_only o -> op_pre a o -> AInv a ->
    (forall rep a', AInv a' -> Old a a' -> op_post pre a o rep a' -> safe Q (k rep) a') ->
    safe Q (Do o k) a.
  Proof.
    intros Ho Hp HI Hk. cbn [Inv.safe]. split.
    - intros f. destruct (exec_step a o f Ho Hp HI) as (H1 & H2 & H3). split; [exact H1|].
      apply Hk; assumption.
    - apply exec_empty_AInv. exact HI.
  Qed.

  (* its instance for reads: the state does not change, the reply is truthful *)
  Lemma safe_read {R} (Q : R -> arch -> Prop) o (k : reply -> prog R) (a : arch) :
    reads_only o -> AInv a ->
    (forall rep, reply_ok pre a o rep -> safe Q (k rep) a) ->
    safe Q (Do o k) a.
  Proof.
    intros Ho HI Hk. apply safe_step;
      [apply reads_add; exact Ho | destruct o; cbn in Ho; try contradiction; exact Logic.I | exact HI|].
    intros rep a' _ _ Hp. destruct o; cbn in Ho; try contradiction; cbn [op_post] in Hp;
      destruct Hp as [-> Hr]; apply Hk; exact Hr.
  Qed.
End Step.

(* ------------------------------------------------------------------------- *)
(** * 5. The lazily stitched basis: everything it yields was read from a hunk  *)
(* ------------------------------------------------------------------------- *)

Section Filters.
  Variable P : entry -> Prop.

  Lemma drop_le_Forall x es :
    Forall P es -> Forall P (drop_le str apath_cmp entry e_apath x es).
  Proof.
    induction es as [|e es IH]; intros H; cbn [drop_le]; [constructor|].
    destruct (kleb str apath_cmp (e_apath e) x); [|exact H].
    apply IH. inversion H; assumption.
  Qed.

  Lemma hstep_Forall es after out after' :
    hunk_step str apath_cmp entry e_apath (Some es) after = (Some out, after') ->
    Forall P es -> Forall P out.
  Proof.
    intros E H. unfold hunk_step in E.
    destruct after as [x|].
    - destruct (last_key str entry e_apath es) as [l|].
      + destruct (kleb str apath_cmp l x); [discriminate|].
        destruct (first_key str entry e_apath es) as [f|].
        * destruct (kltb str apath_cmp x f); inversion E; subst; auto using drop_le_Forall.
        * inversion E; subst; auto using drop_le_Forall.
      + inversion E; subst; auto using drop_le_Forall.
    - destruct es; inversion E; subst; exact H.
  Qed.

  Lemma scan_buf_Forall keep skip buf : forall acc acc' o,
    scan_buf keep skip buf acc = (acc', o) ->
    Forall P buf -> Forall P acc ->
    Forall P acc' /\ match o with Some (e, buf') => P e /\ Forall P buf' | None => True end.
  Proof.
    induction buf as [|e buf IH]; intros acc acc' o E Hb Ha; cbn [scan_buf] in E.
    - inversion E; subst. auto.
    - inversion Hb as [|? ? He Hb']; subst.
      destruct (keep e); [destruct (skip e)|].
      + eapply IH; [exact E | exact Hb' |]. apply Forall_app. auto.
      + inversion E; subst. auto.
      + eapply IH; eauto.
  Qed.
End Filters.

Section Reader.
  Variable pre : bytes -> N.
  Variables keep skip : entry -> bool.
  Variable a : arch.
  Hypothesis HI : AInv a.

  Notation safe := (Inv.safe pre AInv).
  (* reads never change the state; the results are entries of hunks of [a] *)
  Definition SQ (r : sres) (a' : arch) : Prop := a' = a /\ sres_ok a r.

  Let RI : RefInt a := proj1 HI.

  Lemma list_subdirs_safe b subs : forall acc kfail k,
    safe SQ kfail a -> (forall hs, safe SQ (k hs) a) -> safe SQ (list_subdirs b subs acc kfail k) a.
  Proof.
    induction subs as [|s subs IH]; intros acc kfail k Hf Hk; cbn [list_subdirs]; auto.
    apply safe_read; [exact Logic.I | exact HI|]. intros rep _. destruct rep; auto.
  Qed.

  Lemma hunks_loop_safe n hs : forall after last acc merr k,
    Forall (entry_ok a) acc ->
    (forall l acc' m, Forall (entry_ok a) acc' -> safe SQ (k l acc' m) a) ->
    safe SQ (hunks_loop keep skip n hs after last acc merr k) a.
  Proof.
    induction hs as [|h hs IH]; intros after last acc merr k Ha Hk; cbn [hunks_loop]; auto.
    apply safe_read; [exact Logic.I | exact HI|]. intros rep Hr.
    destruct rep as [|e|c|ds fs|ne]; auto.
    - destruct e; auto.
    - destruct c as [p| |]; auto. destruct p as [|v|t|es|c]; auto.
      cbn [reply_ok] in Hr. pose proof (RI _ _ _ Hr) as Hes.
      destruct (hunk_step str apath_cmp entry e_apath (Some es) after) as [[out|] after'] eqn:E; auto.
      pose proof (hstep_Forall _ _ _ _ _ E Hes) as Hout.
      destruct (scan_buf keep skip out acc) as [acc' o] eqn:Es.
      destruct (scan_buf_Forall _ _ _ _ _ _ _ Es Hout Ha) as [Hacc' Ho].
      destruct o as [[e buf']|]; auto.
      destruct Ho as [He Hb]. cbn [Inv.safe]. split; [reflexivity|].
      cbn [sres_ok opt_ok SInv]. auto.
  Qed.

  Lemma open_band_safe n last acc merr k :
    Forall (entry_ok a) acc ->
    (forall l acc' m, Forall (entry_ok a) acc' -> safe SQ (k l acc' m) a) ->
    safe SQ (open_band keep skip n last acc merr k) a.
  Proof.
    intros Ha Hk. unfold open_band.
    apply safe_read; [exact Logic.I | exact HI|]. intros rep _.
    destruct (head_status rep); auto; [|exact Logic.I].
    apply safe_read; [exact Logic.I | exact HI|]. intros rep2 _.
    destruct rep2; auto.
    apply list_subdirs_safe; auto. intros hs.
    apply safe_read; [exact Logic.I | exact HI|]. intros rep3 _.
    apply hunks_loop_safe; auto.
  Qed.

  Lemma after_band_safe n below last acc merr :
    Forall (entry_ok a) acc ->
    (forall l acc' m, Forall (entry_ok a) acc' -> safe SQ (below l acc' m) a) ->
    safe SQ (after_band n below last acc merr) a.
  Proof.
    intros Ha Hb. unfold after_band.
    apply safe_read; [exact Logic.I | exact HI|]. intros rep _.
    destruct (meta_is_closed rep); auto.
    cbn [Inv.safe]. split; [reflexivity|]. cbn [sres_ok opt_ok SInv]. auto.
  Qed.

  Lemma below_safe n : forall last acc merr,
    Forall (entry_ok a) acc -> safe SQ (below keep skip n last acc merr) a.
  Proof.
    induction n as [|m IH]; intros last acc merr Ha; cbn [below].
    - cbn [Inv.safe]. split; [reflexivity|]. cbn [sres_ok opt_ok SInv]. auto.
    - apply safe_read; [exact Logic.I | exact HI|]. intros rep _.
      destruct (meta_is_file rep); auto.
      apply open_band_safe; auto. intros l acc' m' Ha'. apply after_band_safe; auto.
  Qed.

  Lemma snext_safe st last merr : SInv a st -> safe SQ (snext keep skip st last merr) a.
  Proof.
    intros Hs. unfold snext. destruct st as [|n|n hs buf after|n].
    - cbn [Inv.safe]. split; [reflexivity|]. cbn [sres_ok opt_ok SInv]. auto.
    - apply open_band_safe; auto. intros. apply after_band_safe; auto. intros. apply below_safe; auto.
    - cbn [SInv] in Hs.
      destruct (scan_buf keep skip buf []) as [acc o] eqn:Es.
      destruct (scan_buf_Forall _ _ _ _ _ _ _ Es Hs (Forall_nil _)) as [Hacc Ho].
      destruct o as [[e buf']|].
      + destruct Ho as [He Hb]. cbn [Inv.safe]. split; [reflexivity|]. cbn [sres_ok opt_ok SInv]. auto.
      + apply hunks_loop_safe; auto. intros. apply after_band_safe; auto. intros. apply below_safe; auto.
    - apply after_band_safe; auto. intros. apply below_safe; auto.
  Qed.
End Reader.

(* ------------------------------------------------------------------------- *)
(** * 6. The writer: every sub-program of the backup                          *)
(* ------------------------------------------------------------------------- *)

Ltac wsimpl :=
  cbn [w_band w_entries w_seq w_hunks w_buf w_queue w_fin w_exists w_errors w_merr w_written
       w_deleted upd_blocks upd_comb upd_index upd_counts push_entry fst snd] in *.

Lemma mem_bytes_In c l : mem_bytes c l = true -> In c l.
Proof.
  unfold mem_bytes. rewrite existsb_exists. intros [x [Hx E]].
  apply str_eqb_eq in E. subst. exact Hx.
Qed.

Lemma wok_block a c : wok a (PBlock c) (PlBlock c).
Proof. split; [intros c' E; inversion E; reflexivity | intros es E; discriminate]. Qed.

Lemma wok_hunk a b h es : Forall (entry_ok a) es -> wok a (PHunk b h) (PlHunk es).
Proof. intros H. split; [intros c E; discriminate | intros es' E; inversion E; subst; exact H]. Qed.

Lemma wok_other a f p :
  (forall c, f <> PBlock c) -> (forall es, p <> PlHunk es) -> wok a f p.
Proof. intros Hf Hp. split; [intros c E; destruct (Hf c E) | intros es E; destruct (Hp es E)]. Qed.

Lemma entry_ok_nil_addrs a e : e_addrs e = [] -> entry_ok a e.
Proof. intros E. unfold entry_ok. rewrite E. constructor. Qed.

Lemma meta_from_addrs owner s : e_addrs (meta_from owner s) = [].
Proof. unfold meta_from. destruct (enc_time_floor (s_mtime s)). reflexivity. Qed.

Lemma chunk_addr_ok a c : block_ok a c -> addr_ok a (chunk_addr c).
Proof. intros H. split; [exact H|]. cbn [chunk_addr a_start a_len a_hash]. lia. Qed.

Lemma queued_entry_ok a blk q : block_ok a blk -> queue_ok blk q -> entry_ok a (queued_entry blk q).
Proof.
  destruct q as [[s l] e]. cbn [queue_ok queued_entry]. intros Hb Hq.
  unfold entry_ok, set_addrs. cbn [e_addrs]. constructor; [|constructor].
  split; [exact Hb | exact Hq].
Qed.

Section Writer.
  Variable pre : bytes -> N.
  Notation safe := (Inv.safe pre AInv).

  (* postcondition of the writer-state transformers, relative to the state they started in *)
  Definition WQ {A} (a : arch) (rw : A * wst) (a' : arch) : Prop :=
    Old a a' /\ AInv a' /\ WInv a' (snd rw).

  Lemma WQ_trans {A B} a a1 (rw : A * wst) (rw' : B * wst) a2 :
    Old a a1 -> WQ a1 rw' a2 -> snd rw = snd rw' -> WQ a rw a2.
  Proof. intros HO (H1 & H2 & H3) E. unfold WQ. rewrite E. eauto using Old_trans. Qed.

  Lemma store_block_safe w c a :
    AInv a -> WInv a w ->
    safe (fun rw a' => WQ a rw a' /\ (fst rw = true -> block_ok a' c)) (store_block pre w c) a.
  Proof.
    intros HI HW. unfold store_block.
    destruct (mem_bytes c (w_exists w)) eqn:M.
    - cbn [Inv.safe]. split; [split; [apply Old_refl | auto]|].
      intros _. destruct HW as [Hex _]. rewrite Forall_forall in Hex. apply Hex, mem_bytes_In, M.
    - apply safe_step; [exact Logic.I | exact Logic.I | exact HI|].
      intros rep a1 HI1 HO1 _.
      assert (HW1 : WInv a1 w) by (eapply WInv_mono; eauto).
      destruct (is_ok rep).
      + apply safe_step; [exact Logic.I | apply wok_block | exact HI1|].
        intros rep2 a2 HI2 HO2 HP2. cbn [op_post] in HP2.
        assert (HO : Old a a2) by (eapply Old_trans; eauto).
        destruct rep2; cbn [is_ok Inv.safe fst snd];
          try (split; [split; [exact HO | split; [exact HI2 | eapply WInv_mono; eauto]] | discriminate]).
        assert (Hb : block_ok a2 c) by (apply HP2; reflexivity).
        split; [|intros _; exact Hb]. split; [exact HO|]. split; [exact HI2|].
        destruct (WInv_mono _ _ _ HO2 HW1) as (W1 & W2 & W3 & W4).
        unfold WInv. wsimpl. repeat split; auto.
      + cbn [Inv.safe fst snd]. split; [|discriminate]. split; [exact HO1 | auto].
  Qed.

  Lemma comb_flush_safe w a :
    AInv a -> WInv a w -> safe (WQ a) (comb_flush pre w) a.
  Proof.
    intros HI HW. unfold comb_flush. destruct (w_queue w) as [|q0 q] eqn:Eq.
    - cbn [Inv.safe]. split; [apply Old_refl | auto].
    - eapply safe_bind; [|apply store_block_safe; [exact HI|]].
      + intros [ok w'] a1 [(HO1 & HI1 & HW1) Hb]. cbn [fst snd] in *.
        destruct ok; cbn [Inv.safe].
        * split; [exact HO1|]. split; [exact HI1|]. cbn [snd].
          destruct HW1 as (W1 & W2 & W3 & W4). destruct HW as (_ & _ & _ & V4).
          unfold WInv. wsimpl. repeat split; auto.
          apply Forall_app. split; [exact W3|].
          rewrite Eq in V4. rewrite Forall_map. eapply Forall_impl; [|exact V4].
          intros x Hx. apply queued_entry_ok; auto.
        * split; [exact HO1|]. split; [exact HI1 | exact HW1].
      + destruct HW as (W1 & W2 & W3 & W4). unfold WInv. wsimpl. repeat split; auto.
  Qed.

  Lemma comb_push_safe c w e data a :
    AInv a -> WInv a w -> entry_ok a e -> safe (WQ a) (comb_push pre c w e data) a.
  Proof.
    intros HI HW He. unfold comb_push. destruct HW as (W1 & W2 & W3 & W4).
    destruct data as [|x data].
    - cbn [Inv.safe]. split; [apply Old_refl|]. split; [exact HI|].
      unfold WInv. wsimpl. repeat split; auto. apply Forall_app. auto.
    - set (d := x :: data) in *.
      assert (HW1 : WInv a (upd_comb w (w_buf w ++ d)
                              (w_queue w ++ [(N.of_nat (length (w_buf w)), N.of_nat (length d), e)]) (w_fin w))).
      { unfold WInv. wsimpl. repeat split; auto. apply Forall_app. split.
        - eapply Forall_impl; [|exact W4]. intros [[s l] e']. cbn [queue_ok].
          rewrite app_length. lia.
        - constructor; [|constructor]. cbn [queue_ok]. rewrite app_length. lia. }
      match goal with |- Inv.safe _ _ _ (if ?b then _ else _) _ => destruct b end.
      + apply comb_flush_safe; assumption.
      + cbn [Inv.safe]. split; [apply Old_refl | auto].
  Qed.

  Lemma finish_hunk_safe w a :
    AInv a -> WInv a w -> safe (WQ a) (finish_hunk w) a.
  Proof.
    intros HI HW. unfold finish_hunk. destruct (w_entries w) as [|e0 es] eqn:Ee.
    - cbn [Inv.safe]. split; [apply Old_refl | auto].
    - assert (Hwrite : forall a1, Old a a1 -> AInv a1 ->
        safe (WQ a)
          (Do (OpWrite (PHunk (w_band w) (w_seq w)) (PlHunk (sort_entries (e0 :: es))) CreateNew) (fun r =>
             if is_ok r then Ret (true, upd_index w [] (w_seq w + 1) (w_hunks w + 1)) else Ret (false, w))) a1).
      { intros a1 HO1 HI1.
        destruct (WInv_mono _ _ _ HO1 HW) as (W1 & W2 & W3 & W4).
        apply safe_step; [exact Logic.I | | exact HI1|].
        - apply wok_hunk. rewrite Ee in W2.
          eapply Permutation_Forall; [apply Permutation_sym, sort_entries_perm | exact W2].
        - intros rep a2 HI2 HO2 _.
          assert (HO : Old a a2) by (eapply Old_trans; eauto).
          destruct (is_ok rep); cbn [Inv.safe]; (split; [exact HO|]; split; [exact HI2|]).
          + unfold WInv. wsimpl. repeat split; eauto using blocks_ok_mono, entries_ok_mono.
          + eapply WInv_mono; [exact HO2|]. unfold WInv. auto. }
      destruct (w_seq w mod HUNKS_PER_SUBDIR =? 0).
      + apply safe_step; [exact Logic.I | exact Logic.I | exact HI|].
        intros rep a1 HI1 HO1 _. destruct (is_ok rep); [apply Hwrite; assumption|].
        cbn [Inv.safe]. split; [exact HO1|]. split; [exact HI1|]. eapply WInv_mono; eauto.
      + apply Hwrite; [apply Old_refl | exact HI].
  Qed.

  Lemma flush_group_safe w a :
    AInv a -> WInv a w -> safe (WQ a) (flush_group pre w) a.
  Proof.
    intros HI HW. unfold flush_group.
    eapply safe_bind; [|apply comb_flush_safe; assumption].
    intros [ok w1] a1 (HO1 & HI1 & HW1). cbn [snd] in HW1.
    destruct ok.
    - eapply safe_weaken; [|apply finish_hunk_safe; [exact HI1|]].
      + intros rw a2 (HO2 & HI2 & HW2). split; [eapply Old_trans; eauto | auto].
      + destruct HW1 as (W1 & W2 & W3 & W4). unfold WInv. wsimpl. repeat split; auto.
        apply Forall_app. auto.
    - cbn [Inv.safe]. split; [exact HO1 | auto].
  Qed.

  Lemma store_chunks_safe cs : forall w acc a,
    AInv a -> WInv a w -> Forall (addr_ok a) acc ->
    safe (fun rw a' => WQ a rw a'
                       /\ match fst rw with Some addrs => Forall (addr_ok a') addrs | None => True end)
         (store_chunks pre w cs acc) a.
  Proof.
    induction cs as [|c cs IH]; intros w acc a HI HW Hacc; cbn [store_chunks].
    - cbn [Inv.safe fst snd]. split; [|exact Hacc]. split; [apply Old_refl | auto].
    - eapply safe_bind; [|apply store_block_safe; assumption].
      intros [ok w'] a1 [(HO1 & HI1 & HW1) Hb]. cbn [fst snd] in *.
      destruct ok.
      + eapply safe_weaken; [|apply IH; [exact HI1 | exact HW1 |]].
        * intros rw a2 [(HO2 & HI2 & HW2) Hr]. split; [|exact Hr].
          split; [eapply Old_trans; eauto | auto].
        * apply Forall_app. split.
          -- eapply Forall_impl; [|exact Hacc]. intros ad. apply addr_ok_mono. exact HO1.
          -- constructor; [|constructor]. apply chunk_addr_ok. apply Hb. reflexivity.
      + cbn [Inv.safe fst snd]. split; [|exact Logic.I]. split; [exact HO1 | auto].
  Qed.

  Lemma push_entry_WInv a w e : WInv a w -> entry_ok a e -> WInv a (push_entry w e).
  Proof.
    intros (W1 & W2 & W3 & W4) He. unfold WInv. wsimpl. repeat split; auto.
    apply Forall_app. auto.
  Qed.

  Lemma copy_entry_safe c w basis it a :
    AInv a -> WInv a w -> opt_ok a basis ->
    safe (WQ a) (copy_entry pre c w basis it) a.
  Proof.
    intros HI HW Hb. unfold copy_entry.
    assert (Hm : forall a', entry_ok a' (meta_from (c_owner c) (si_e it)))
      by (intros a'; apply entry_ok_nil_addrs, meta_from_addrs).
    assert (Hret : forall e, entry_ok a e -> safe (WQ a) (Ret (true, push_entry w e)) a).
    { intros e He. cbn [Inv.safe]. split; [apply Old_refl|]. split; [exact HI|].
      cbn [snd]. apply push_entry_WInv; assumption. }
    destruct (s_kind (si_e it)); auto.
    2:{ cbn [Inv.safe]. split; [apply Old_refl | auto]. }
    match goal with |- Inv.safe _ _ _ (match ?x with _ => _ end) _ => destruct x as [addrs|] eqn:Er end.
    - apply Hret. destruct basis as [b|]; [|discriminate].
      destruct (unchanged w (si_e it) b && blocks_present w b); [|discriminate].
      inversion Er; subst addrs. cbn [opt_ok] in Hb. exact Hb.
    - destruct (s_size (si_e it) =? 0); [apply Hret; auto|].
      destruct (s_size (si_e it) <=? c_sfc c); [apply comb_push_safe; auto|].
      eapply safe_bind; [|apply store_chunks_safe; [exact HI | exact HW | constructor]].
      intros [o w'] a1 [(HO1 & HI1 & HW1) Hr]. cbn [fst snd] in *.
      destruct o as [addrs|]; cbn [Inv.safe]; (split; [exact HO1|]; split; [exact HI1|]); [|exact HW1].
      cbn [snd]. apply push_entry_WInv; [exact HW1|]. exact Hr.
  Qed.
End Writer.

(* ------------------------------------------------------------------------- *)
(** * 7. The merge loop, the block listing, the whole backup                  *)
(* ------------------------------------------------------------------------- *)

Section Whole.
  Variable pre : bytes -> N.
  Notation safe := (Inv.safe pre AInv).

  Definition QT (_ : bres) (_ : arch) : Prop := True.

  Lemma upd_counts_WInv a w x y z : WInv a w -> WInv a (upd_counts w x y z).
  Proof. intros H. exact H. Qed.

  Lemma merge_loop_safe c src : forall peek st last w a,
    AInv a -> WInv a w -> SInv a st -> opt_ok a peek ->
    safe QT (merge_loop pre c src peek st last w) a.
  Proof.
    induction src as [|it src IH]; intros peek st last w a HI HW HS HP; cbn [merge_loop].
    - eapply safe_bind; [|apply snext_safe; assumption].
      intros [[[[skipped na] st'] last'] merr] a' [-> _].
      eapply safe_bind; [|apply flush_group_safe; [exact HI | apply upd_counts_WInv; exact HW]].
      intros [ok w2] a2 (HO2 & HI2 & HW2).
      destruct ok; [|exact Logic.I].
      apply safe_step; [exact Logic.I | | exact HI2|].
      + apply wok_other; [intros x E | intros x E]; discriminate.
      + intros rep a3 _ _ _. destruct (is_ok rep); exact Logic.I.
    - (* the continuation after the basis has been advanced *)
      assert (Hk : forall (skipped : list entry) na st' last' merr,
        opt_ok a na -> SInv a st' ->
        safe QT
          (let w0 := upd_counts w (w_errors w) merr (w_deleted w + N.of_nat (length skipped)) in
           let '(basis, na') :=
             match na with
             | Some e => match apath_cmp (e_apath e) (s_apath (si_e it)) with
                         | Eq => (Some e, None) | _ => (None, na) end
             | None => (None, None)
             end in
           bind (copy_entry pre c w0 basis it) (fun rw =>
             let '(ok, w1) := rw in
             let w2 := if ok then w1 else upd_counts w1 (w_errors w1 + 1) (w_merr w1 + 1) (w_deleted w1) in
             if ok && (c_meph c <=? N.of_nat (length (w_entries w2)) + N.of_nat (length (w_queue w2))) then
               bind (flush_group pre w2) (fun rw2 =>
                 let '(ok2, w3) := rw2 in
                 if ok2 then merge_loop pre c src na' st' last' w3 else Ret (fail w3))
             else merge_loop pre c src na' st' last' w2)) a).
      { intros skipped na st' last' merr Hna Hst'. cbv zeta.
        match goal with |- Inv.safe _ _ _ (let '(_, _) := ?x in _) _ => destruct x as [basis na'] eqn:Ex end.
        assert (Hbn : opt_ok a basis /\ opt_ok a na').
        { destruct na as [e|]; [|inversion Ex; subst; cbn; auto].
          destruct (apath_cmp (e_apath e) (s_apath (si_e it))); inversion Ex; subst; cbn [opt_ok]; auto. }
        destruct Hbn as [Hbasis Hna'].
        eapply safe_bind; [|apply copy_entry_safe; [exact HI | apply upd_counts_WInv; exact HW | exact Hbasis]].
        intros [ok w1] a1 (HO1 & HI1 & HW1). cbn [snd] in HW1.
        assert (HW2 : WInv a1 (if ok then w1 else upd_counts w1 (w_errors w1 + 1) (w_merr w1 + 1) (w_deleted w1)))
          by (destruct ok; exact HW1).
        match goal with |- Inv.safe _ _ _ (if ?x then _ else _) _ => destruct x end.
        - eapply safe_bind; [|apply flush_group_safe; [exact HI1 | exact HW2]].
          intros [ok2 w3] a2 (HO2 & HI2 & HW3). cbn [snd] in HW3.
          destruct ok2; [|exact Logic.I].
          assert (HO : Old a a2) by (eapply Old_trans; eauto).
          apply IH; eauto using SInv_mono, opt_ok_mono.
        - apply IH; eauto using SInv_mono, opt_ok_mono. }
      destruct peek as [e|].
      + match goal with |- Inv.safe _ _ _ (if ?x then _ else _) _ => destruct x end.
        * eapply safe_bind; [|apply snext_safe; assumption].
          intros [[[[skipped na] st'] last'] merr] a' [-> (_ & Hna & Hst')]. apply Hk; assumption.
        * exact (Hk [] (Some e) st last (w_merr w) HP HS).
      + eapply safe_bind; [|apply snext_safe; assumption].
        intros [[[[skipped na] st'] last'] merr] a' [-> (_ & Hna & Hst')]. apply Hk; assumption.
  Qed.

  (* a listed non-empty block file is a good block: the listing is truthful, files have one
     list element each, and every block file is good or zero-length *)
  Lemma listed_block_ok (a : arch) d c :
    AInv a -> In (PBlock c, true) (children_files pre a d) -> block_ok a c.
  Proof.
    intros (_ & HB & HN) Hin. unfold children_files in Hin.
    apply in_map_iff in Hin. destruct Hin as [[f x] [E Hin]]. cbn [fst snd] in E.
    apply filter_In in Hin. destruct Hin as [Hin _].
    inversion E; subst f.
    assert (G : get a (PBlock c) = Some x) by (apply lookup_In_nodup; assumption).
    unfold block_ok. rewrite G.
    destruct (HB c x G) as [->| ->]; [reflexivity | discriminate].
  Qed.

  Lemma list_blocks_safe subs : forall acc failed k a,
    AInv a -> Forall (block_ok a) acc ->
    (forall o, match o with Some ex => Forall (block_ok a) ex | None => True end -> safe QT (k o) a) ->
    safe QT (list_blocks subs acc failed k) a.
  Proof.
    induction subs as [|s subs IH]; intros acc failed k a HI Ha Hk; cbn [list_blocks].
    - apply Hk. destruct failed; auto.
    - apply safe_read; [exact Logic.I | exact HI|]. intros rep Hr.
      destruct rep as [|e|x|ds fs|ne]; try (apply IH; assumption).
      cbn [reply_ok] in Hr. subst fs. apply IH; auto.
      apply Forall_app. split; [exact Ha|].
      apply Forall_forall. intros c Hc. apply in_flat_map in Hc.
      destruct Hc as [[f b] [Hin Hc]].
      destruct f; try destruct Hc. destruct b; [destruct Hc as [<-|[]] | destruct Hc].
      eapply listed_block_ok; eauto.
  Qed.

  Theorem backup_safe c src a : AInv a -> safe QT (backup_prog pre c src) a.
  Proof.
    intros HI. unfold backup_prog, open_archive.
    apply safe_read; [exact Logic.I | exact HI|]. intros r0 _.
    destruct r0 as [| |[[| | | |]| |]| |]; try exact Logic.I.
    apply safe_read; [exact Logic.I | exact HI|]. intros r _.
    destruct r as [|[| | |]| | |]; try exact Logic.I.
    apply safe_read; [exact Logic.I | exact HI|]. intros r1 _.
    destruct r1 as [| | |ds1 fs1|]; try exact Logic.I.
    apply safe_read; [exact Logic.I | exact HI|]. intros r2 _.
    destruct r2 as [| | |ds2 fs2|]; try exact Logic.I.
    apply safe_step; [exact Logic.I | exact Logic.I | exact HI|]. intros r3 a3 HI3 _ _.
    destruct (is_ok r3); [|exact Logic.I].
    apply safe_step; [exact Logic.I | exact Logic.I | exact HI3|]. intros r4 a4 HI4 _ _.
    destruct (is_ok r4); [|exact Logic.I].
    apply safe_step; [exact Logic.I | | exact HI4|].
    { apply wok_other; intros x E; discriminate. }
    intros r5 a5 HI5 _ _.
    destruct (is_ok r5); [|exact Logic.I].
    apply safe_read; [exact Logic.I | exact HI5|]. intros r5b _.
    destruct r5b as [| | |ds5 fs5|]; try exact Logic.I.
    destruct (existsb (fun p => fpath_eqb (fst p) PLock) fs5); [exact Logic.I|].
    apply safe_read; [exact Logic.I | exact HI5|]. intros r6 _.
    destruct r6 as [| | |ds3 fs3|]; try exact Logic.I.
    apply list_blocks_safe; [exact HI5 | constructor|].
    intros [ex|] Hex; [|exact Logic.I].
    apply merge_loop_safe; [exact HI5 | | | exact Logic.I].
    - unfold WInv. cbn [w_exists w_entries w_fin w_queue w_buf]. repeat split; auto.
    - destruct (max_id (band_ids ds1)); exact Logic.I.
  Qed.

  (** MAIN THEOREM.  From any archive state with referential integrity (whose block files
      are good or zero-length, and whose file list has no repeated path), a backup of ANY
      source under ANY configuration keeps referential integrity at EVERY intermediate
      state, at every crash point (a plain crash, or one leaving a zero-length file), for
      EVERY sequence of storage failures. *)
  Theorem backup_ainv : forall c src a0 phi,
    AInv a0 ->
    Forall AInv (run_states pre (backup_prog pre c src) a0 phi)
    /\ AInv (snd (fst (run pre (backup_prog pre c src) a0 phi))).
  Proof.
    intros c src a0 phi HI.
    destruct (safe_sound pre QT (backup_prog pre c src) a0 phi HI (backup_safe c src a0 HI)) as (H1 & H2 & _).
    split; assumption.
  Qed.

  Theorem backup_refint : forall c src a0 phi,
    FilesND a0 -> BlocksWF a0 -> RefInt a0 ->
    Forall (fun a => RefInt a /\ BlocksWF a) (run_states pre (backup_prog pre c src) a0 phi)
    /\ (RefInt (snd (fst (run pre (backup_prog pre c src) a0 phi)))
        /\ BlocksWF (snd (fst (run pre (backup_prog pre c src) a0 phi)))).
  Proof.
    intros c src a0 phi HN HB HR.
    destruct (backup_ainv c src a0 phi) as [H1 H2]; [unfold AInv; auto|].
    split.
    - eapply Forall_impl; [|exact H1]. intros a (X & Y & _). auto.
    - destruct H2 as (X & Y & _). auto.
  Qed.
End Whole.

(* ------------------------------------------------------------------------- *)
(** * 8. [FilesND] is harmless: every operation of every program keeps it     *)
(* ------------------------------------------------------------------------- *)

Section NoDupFiles.
  Variable pre : bytes -> N.

  Lemma filter_keys_nodup (g : fpath -> bool) (l : list (fpath * fcontent)) :
    NoDup (map fst l) -> NoDup (map fst (filter (fun p => g (fst p)) l)).
  Proof.
    induction l as [|[f x] l IH]; cbn [filter map fst]; [auto|].
    intros ND. inversion ND as [|? ? Hnot ND']; subst.
    destruct (g f); cbn [map fst]; [|auto].
    constructor; [|auto]. intros Hin. apply Hnot.
    apply in_map_iff in Hin. destruct Hin as [p [E Hp]]. apply filter_In in Hp.
    apply in_map_iff. exists p. tauto.
  Qed.

  Lemma arch0_FilesND : FilesND arch0.
  Proof. constructor. Qed.

  Lemma exec_FilesND (a : arch) o flt : FilesND a -> FilesND (fst (exec pre a o flt)).
  Proof.
    intros HN.
    assert (H : FilesND (fst (exec_ok pre a o))).
    { unfold FilesND in *. destruct o as [f|f p m|d|d|f|f|d]; cbn [exec_ok].
      - destruct (get a f); exact HN.
      - destruct (has_dir a (parent_f pre f)); [|exact HN].
        destruct (get a f) as [[q| |]|]; destruct m; cbn [fst files]; auto using set_file_nodup.
      - destruct (has_dir a d); exact HN.
      - destruct (has_dir a d); [exact HN|].
        destruct (parent_d d) as [p|]; [destruct (has_dir a p)|]; exact HN.
      - destruct (get a f); exact HN.
      - destruct (get a f); [|exact HN]. cbn [fst files]. unfold remove_file.
        apply (filter_keys_nodup (fun g => negb (fpath_eqb f g))). exact HN.
      - destruct (has_dir a d); [|exact HN]. cbn [fst files].
        apply (filter_keys_nodup (fun g => negb (file_under pre d g))). exact HN. }
    destruct flt; cbn [exec fst]; auto.
  Qed.

  Lemma exec_empty_FilesND (a : arch) o : FilesND a -> FilesND (exec_empty pre a o).
  Proof.
    intros HN. destruct (exec_empty_cases pre a o) as [E|[f [G E]]]; rewrite E; [exact HN|].
    unfold FilesND. cbn [files]. apply set_file_nodup. exact HN.
  Qed.

  Lemma emits_anything {R} (p : prog R) : emits_only (fun _ => True) p.
  Proof. induction p; constructor; auto. Qed.

  (* along every run of every program, from the empty store or any state without repeated
     paths, no path is ever repeated *)
  Theorem any_run_FilesND {R} (p : prog R) (a : arch) phi :
    FilesND a ->
    Forall FilesND (run_states pre p a phi) /\ FilesND (snd (fst (run pre p a phi))).
  Proof.
    apply (run_invariant pre (fun _ => True) FilesND).
    - intros x o f _. apply exec_FilesND.
    - intros x o _. apply exec_empty_FilesND.
    - apply emits_anything.
  Qed.
End NoDupFiles.

(* ------------------------------------------------------------------------- *)
(** * 9. The boolean checkers decide the predicates                           *)
(* ------------------------------------------------------------------------- *)

Lemma addr_ok_b_iff a ad : addr_ok_b a ad = true <-> addr_ok a ad.
Proof.
  unfold addr_ok_b, addr_ok, block_ok. split.
  - destruct (get a (PBlock (a_hash ad))) as [[[| | | |c]| |]|]; try discriminate.
    rewrite andb_true_iff, str_eqb_eq, N.leb_le. intros [-> H]. auto.
  - intros [-> H]. rewrite andb_true_iff, str_eqb_eq, N.leb_le. auto.
Qed.

Lemma entry_ok_b_iff a e : entry_ok_b a e = true <-> entry_ok a e.
Proof.
  unfold entry_ok_b, entry_ok. rewrite forallb_forall, Forall_forall.
  split; intros H x Hx; apply addr_ok_b_iff; auto.
Qed.

Lemma entries_ok_b_iff a es : forallb (entry_ok_b a) es = true <-> Forall (entry_ok a) es.
Proof.
  rewrite forallb_forall, Forall_forall.
  split; intros H x Hx; apply entry_ok_b_iff; auto.
Qed.

Lemma refint_b_sound a : refint_b a = true -> RefInt a.
Proof.
  unfold refint_b. rewrite forallb_forall. intros H b h es G.
  destruct (lookup_Some_In _ _ _ G) as [g [Hin [<- _]]].
  specialize (H _ Hin). cbn in H. apply entries_ok_b_iff. exact H.
Qed.

Lemma blockswf_b_sound a : blockswf_b a = true -> BlocksWF a.
Proof.
  unfold blockswf_b. rewrite forallb_forall. intros H c x G.
  destruct (lookup_Some_In _ _ _ G) as [g [Hin [<- _]]].
  specialize (H _ Hin). cbn in H.
  destruct x as [[| | | |d]| |]; try discriminate; auto.
  apply str_eqb_eq in H. subst. auto.
Qed.

Lemma nodup_paths_sound l : nodup_paths l = true -> NoDup l.
Proof.
  induction l as [|x l IH]; cbn [nodup_paths]; [constructor|].
  rewrite andb_true_iff, negb_true_iff. intros [H1 H2]. constructor; [|auto].
  intros Hin. assert (E : existsb (fpath_eqb x) l = true).
  { apply existsb_exists. exists x. split; [exact Hin | apply fpath_eqb_refl]. }
  congruence.
Qed.

Lemma ainv_b_sound a : ainv_b a = true -> AInv a.
Proof.
  unfold ainv_b. rewrite !andb_true_iff. intros [[H1 H2] H3].
  split; [apply refint_b_sound; exact H1|]. split; [apply blockswf_b_sound; exact H2|].
  apply nodup_paths_sound. exact H3.
Qed.

(* a witness of broken referential integrity *)
Lemma refint_broken a b h es :
  get a (PHunk b h) = Some (Good (PlHunk es)) -> forallb (entry_ok_b a) es = false -> ~ RefInt a.
Proof.
  intros G Hb HR. apply HR in G. apply entries_ok_b_iff in G. congruence.
Qed.

(* ------------------------------------------------------------------------- *)
(** * 10. Reading back: with referential integrity every file can be read     *)
(* ------------------------------------------------------------------------- *)

Section Restore.
  Variable pre : bytes -> N.

  Lemma triple_eta {A B C} (x : A * B * C) : x = (fst (fst x), snd (fst x), snd x).
  Proof. destruct x as [[u v] w]. reflexivity. Qed.

  Lemma addr_ok_slice a ad :
    addr_ok a ad -> exists s, slice (a_hash ad) (a_start ad) (a_len ad) = Some s.
  Proof.
    intros [_ H]. unfold slice. apply N.leb_le in H. rewrite H. eexists. reflexivity.
  Qed.

  Lemma find_cache a cache h p :
    CacheOK a cache -> find (fun p => str_eqb (fst p) h) cache = Some p -> p = (h, h).
  Proof.
    intros HC E. apply find_some in E. destruct E as [Hin E]. destruct p as [h' c].
    cbn [fst] in E. apply str_eqb_eq in E. subst h'. destruct (HC _ _ Hin) as [-> _]. reflexivity.
  Qed.

  Lemma run_read_block (a : arch) h (k : reply -> prog rres) :
    block_ok a h ->
    run pre (Do (OpRead (PBlock h)) k) a []
    = let r := run pre (k (RData (Good (PlBlock h)))) a [] in
      ((OpRead (PBlock h), RData (Good (PlBlock h))) :: fst (fst r), snd (fst r), snd r).
  Proof.
    intros Hb. rewrite run_Do. cbn [hdf tl exec exec_ok]. unfold block_ok in Hb. rewrite Hb.
    cbn [fst snd]. reflexivity.
  Qed.

  (* without faults, reading the addresses of an entry that is [entry_ok] never fails: the
     continuation is entered with [Some] content, namely the concatenation of the slices *)
  Theorem restore_reads_ok a addrs : forall cache acc k,
    Forall (addr_ok a) addrs -> CacheOK a cache ->
    exists cache' s tr,
      CacheOK a cache'
      /\ read_addrs (fun h => Some h) addrs = Some s
      /\ run pre (read_file cache addrs acc k) a []
         = let r := run pre (k cache' (Some (acc ++ s))) a [] in
           (tr ++ fst (fst r), snd (fst r), snd r).
  Proof.
    induction addrs as [|ad addrs IH]; intros cache acc k Hok HC.
    - exists cache, [], []. split; [exact HC|]. split; [reflexivity|].
      cbn [read_file read_addrs app]. rewrite app_nil_r. apply triple_eta.
    - inversion Hok as [|? ? Had Hok']; subst.
      destruct (addr_ok_slice a ad Had) as [s0 Hs0].
      cbn [read_file read_addrs]. unfold read_address. rewrite Hs0.
      destruct (find (fun p => str_eqb (fst p) (a_hash ad)) cache) as [p|] eqn:Ef.
      + rewrite (find_cache _ _ _ _ HC Ef). rewrite Hs0.
        destruct (IH cache (acc ++ s0) k Hok' HC) as (cache' & s & tr & HC' & Hs & Hrun).
        exists cache', (s0 ++ s), tr. split; [exact HC'|]. split; [rewrite Hs; reflexivity|].
        rewrite Hrun. rewrite app_assoc. reflexivity.
      + destruct Had as [Hb _].
        assert (HC1 : CacheOK a ((a_hash ad, a_hash ad) :: cache)).
        { intros h c [E|Hin]; [inversion E; subst; auto | auto]. }
        destruct (IH ((a_hash ad, a_hash ad) :: cache) (acc ++ s0) k Hok' HC1)
          as (cache' & s & tr & HC' & Hs & Hrun).
        exists cache', (s0 ++ s), ((OpRead (PBlock (a_hash ad)), RData (Good (PlBlock (a_hash ad)))) :: tr).
        split; [exact HC'|]. split; [rewrite Hs; reflexivity|].
        rewrite run_read_block by exact Hb. rewrite str_eqb_refl, Hs0, Hrun.
        cbn [fst snd app]. rewrite app_assoc. reflexivity.
  Qed.

  (* what restore gives for one entry when nothing fails *)
  Definition restored (e : entry) : rfile :=
    RFile e (match e_kind e with
             | KFile => read_addrs (fun h => Some h) (e_addrs e)
             | KUnknown => None
             | _ => Some []
             end).

  Lemma entry_ok_readable a e : entry_ok a e -> read_addrs (fun h => Some h) (e_addrs e) <> None.
  Proof.
    intros H. destruct (restore_reads_ok a (e_addrs e) [] [] (fun _ _ => Ret rfail) H) as (_ & s & _ & _ & E & _).
    - intros h c [].
    - congruence.
  Qed.

  (* hence, on an archive with referential integrity, restoring any entries read from its
     hunks reads every file completely: no monitor error except for unknown kinds *)
  Theorem restore_entries_ok a es : forall cache acc merr,
    Forall (entry_ok a) es -> CacheOK a cache ->
    exists tr r,
      run pre (restore_entries es cache acc merr) a [] = (tr, a, Done r)
      /\ r_ok r = true
      /\ r_files r = acc ++ map restored es
      /\ r_merr r = merr + N.of_nat (length (filter (fun e => kind_eqb (e_kind e) KUnknown) es)).
  Proof.
    induction es as [|e es IH]; intros cache acc merr Hok HC.
    - eexists. eexists. cbn [restore_entries run]. split; [reflexivity|]. cbn.
      rewrite app_nil_r, N.add_0_r. auto.
    - inversion Hok as [|? ? He Hok']; subst. cbn [restore_entries map filter].
      unfold restored at 1. destruct (e_kind e) eqn:Ek; cbn [kind_eqb].
      + destruct (restore_reads_ok a (e_addrs e) cache []
                    (fun cache' o => restore_entries es cache' (acc ++ [RFile e o])
                                       (match o with Some _ => merr | None => merr + 1 end)) He HC)
          as (cache' & s & tr0 & HC' & Hs & Hrun).
        destruct (IH cache' (acc ++ [RFile e (Some ([] ++ s))]) merr Hok' HC') as (tr & r & Hr & R1 & R2 & R3).
        rewrite Hrun, Hr. cbn [fst snd]. eexists. eexists. split; [reflexivity|].
        rewrite Hs. cbn [app] in R2. rewrite R2, <- app_assoc. auto.
      + destruct (IH cache (acc ++ [RFile e (Some [])]) merr Hok' HC) as (tr & r & Hr & R1 & R2 & R3).
        exists tr, r. rewrite R2, <- app_assoc. auto.
      + destruct (IH cache (acc ++ [RFile e (Some [])]) merr Hok' HC) as (tr & r & Hr & R1 & R2 & R3).
        exists tr, r. rewrite R2, <- app_assoc. auto.
      + destruct (IH cache (acc ++ [RFile e None]) (merr + 1) Hok' HC) as (tr & r & Hr & R1 & R2 & R3).
        exists tr, r. rewrite R2, R3, <- app_assoc. cbn [length]. split; [exact Hr|]. split; [exact R1|].
        split; [reflexivity|]. lia.
  Qed.
End Restore.

(* ------------------------------------------------------------------------- *)
(** * 11. Examples (non-vacuity), by computation                              *)
(* ------------------------------------------------------------------------- *)
Module RefIntExamples.
  Import SafeExamples.

  (* init, then two backups (SafeP.SafeExamples): the invariant holds of each state, and the
     hunks do carry addresses (3 after the first backup, 6 after the second) *)
  Example ex_ainv_states : ainv_b ex_a1 = true /\ ainv_b ex_a2 = true /\ ainv_b ex_a3 = true.
  Proof. vm_compute. repeat split; reflexivity. Qed.
  Example ex_ainv_a1 : AInv ex_a1.
  Proof. apply ainv_b_sound. vm_compute. reflexivity. Qed.
  Example ex_ainv_a2 : AInv ex_a2.
  Proof. apply ainv_b_sound. vm_compute. reflexivity. Qed.
  Example ex_addr_counts : count_addrs ex_a1 = 0%nat /\ count_addrs ex_a2 = 3%nat /\ count_addrs ex_a3 = 6%nat.
  Proof. vm_compute. repeat split; reflexivity. Qed.

  (* a third backup in which two changed small files share one combined block ([8;9;3]:
     "/b" is its bytes 2..3) and a large file is reused from the basis *)
  Definition ex3_cfg : cfg := {| c_meph := 10; c_mbs := 4; c_sfc := 2; c_owner := false |}.
  Definition ex3_src : list sitem :=
    [ {| si_e := mk_s [47] KDir 0 1000000000; si_data := [] |};
      {| si_e := mk_s [47;97] KFile 2 2000000000; si_data := [8;9] |};
      {| si_e := mk_s [47;98] KFile 1 2000000000; si_data := [3] |};
      {| si_e := mk_s [47;99] KFile 6 1000000000; si_data := [1;2;3;4;5;6] |} ].
  Definition backup3 := backup_prog ex_pre ex3_cfg ex3_src.
  Example ex_combined :
    get (final backup3 ex_a3 []) (PBlock [8;9;3]) = Some (Good (PlBlock [8;9;3]))
    /\ existsb (fun e => list_eqb addr_eqb (e_addrs e) [{| a_hash := [8;9;3]; a_start := 2; a_len := 1 |}])
         (match get (final backup3 ex_a3 []) (PHunk 2 0) with Some (Good (PlHunk es)) => es | _ => [] end) = true
    /\ ainv_b (final backup3 ex_a3 []) = true
    /\ count_addrs (final backup3 ex_a3 []) = 10%nat.
  Proof. vm_compute. repeat split; reflexivity. Qed.

  (* the checker at every state of runs with faults: a crash that leaves a zero-length index
     hunk, an I/O error on a block write (SafeP.SafeExamples), a failing then crashing run *)
  Definition ex_phi_mixed := repeat NoFault 20 ++ [Fail EPermissionDenied; NoFault; CrashEmpty].
  Example ex_faulty_runs_checked :
    forallb ainv_b (run_states ex_pre (backup 7) ex_a2 ex_phi_crash) = true
    /\ forallb ainv_b (run_states ex_pre (backup 7) ex_a2 ex_phi_fail) = true
    /\ forallb ainv_b (run_states ex_pre (backup 7) ex_a2 ex_phi_mixed) = true
    /\ forallb ainv_b (run_states ex_pre backup3 ex_a3 (repeat NoFault 19 ++ [Fail EOther])) = true
    /\ length (run_states ex_pre (backup 7) ex_a2 ex_phi_mixed) = 23%nat
    /\ snd (run ex_pre (backup 7) ex_a2 ex_phi_mixed) = Crashed
    /\ get (final (backup 7) ex_a2 ex_phi_mixed) (PTail 1) = Some Empty
    /\ nth_error (trace (backup 7) ex_a2 ex_phi_mixed) 20
       = Some (OpWrite (PBlock [5;7]) (PlBlock [5;7]) CreateNew, RErr EPermissionDenied)
    /\ nth_error (trace backup3 ex_a3 (repeat NoFault 19 ++ [Fail EOther])) 19
       = Some (OpWrite (PBlock [8;9;3]) (PlBlock [8;9;3]) CreateNew, RErr EOther).
  Proof. vm_compute. repeat split; reflexivity. Qed.

  (* a backup killed while writing a block leaves a zero-length block file: the state keeps
     the invariant ([BlocksWF] allows the leftover), the next backup does not deduplicate
     against it (it is listed with length 0) and completes it *)
  Example ex_leftover_block :
    get ex_c1 (PBlock [1;2]) = Some Empty
    /\ ainv_b ex_c1 = true
    /\ forallb ainv_b (run_states ex_pre (backup 6) ex_c1 []) = true
    /\ get (final (backup 6) ex_c1 []) (PBlock [1;2]) = Some (Good (PlBlock [1;2]))
    /\ count_addrs (final (backup 6) ex_c1 []) = 3%nat.
  Proof. vm_compute. repeat split; reflexivity. Qed.

  (* the same as instances of the theorem *)
  Example ex_crash_thm :
    Forall (fun a => RefInt a /\ BlocksWF a) (run_states ex_pre (backup 7) ex_a2 ex_phi_crash)
    /\ RefInt (final (backup 7) ex_a2 ex_phi_crash) /\ BlocksWF (final (backup 7) ex_a2 ex_phi_crash).
  Proof. destruct ex_ainv_a2 as (H1 & H2 & H3). apply backup_refint; assumption. Qed.
  Example ex_fail_thm :
    Forall AInv (run_states ex_pre (backup 7) ex_a2 ex_phi_fail) /\ AInv (final (backup 7) ex_a2 ex_phi_fail).
  Proof. apply backup_ainv. exact ex_ainv_a2. Qed.

  (* [RefInt] is not trivially true: losing a block, or a block one byte short, breaks it *)
  Definition ex_lost : arch := fst (exec ex_pre ex_a2 (OpRemoveFile (PBlock [5;6])) NoFault).
  Definition ex_es01 : list entry :=
    Eval vm_compute in match get ex_a2 (PHunk 0 1) with Some (Good (PlHunk es)) => es | _ => [] end.
  Example ex_lost_breaks : ~ RefInt ex_lost.
  Proof. apply (refint_broken _ 0 1 ex_es01); vm_compute; reflexivity. Qed.
  Example ex_too_short_not_ok :
    block_ok ex_a2 [5;6] /\ ~ addr_ok ex_a2 {| a_hash := [5;6]; a_start := 1; a_len := 2 |}.
  Proof.
    split; [vm_compute; reflexivity|]. intros H. apply addr_ok_b_iff in H. vm_compute in H. discriminate H.
  Qed.

  (* restore on a state with referential integrity: every file gets its content *)
  Example ex_restore_all_read :
    Forall (fun f => match f with RFile e o => o <> None end)
      (match snd (run ex_pre (restore_prog Latest keep_all) ex_a3 []) with
       | Done r => r_files r | _ => [RFile (meta_from false (mk_s [] KFile 0 0)) None] end)
    /\ (match snd (run ex_pre (restore_prog Latest keep_all) ex_a3 []) with
        | Done r => length (r_files r) | _ => 0%nat end) = 3%nat.
  Proof. vm_compute. split; [|reflexivity]. repeat constructor; discriminate. Qed.
End RefIntExamples.

(* ------------------------------------------------------------------------- *)
(** * 12. The hypothesis [FilesND] cannot be dropped                          *)
(* ------------------------------------------------------------------------- *)

(* The statement asked for,
     forall pre c src a0 phi, BlocksWF a0 -> RefInt a0 ->
       Forall (fun a => RefInt a /\ BlocksWF a) (run_states pre (backup_prog pre c src) a0 phi)
       /\ RefInt (final state) /\ BlocksWF (final state),
   is FALSE of the model as it stands, for a reason that has nothing to do with the Rust
   code: [arch] is an association LIST, and a list in which a path occurs twice (which no
   sequence of operations can produce from the empty store: [any_run_FilesND]) is listed
   element by element but read through its first element.  With a zero-length and a good
   element for the same block path, the listing reports the block present, [get] says it is
   empty, the backup deduplicates against it and writes an index entry for it. *)
Module Refuted.
  Import SafeExamples.
  Definition a_dup : arch :=
    {| dirs := dirs ex_a1 ++ [DBlockSub 0];
       files := files ex_a1 ++ [(PBlock [1;2;3;4], Empty); (PBlock [1;2;3;4], Good (PlBlock [1;2;3;4]))] |}.
  Definition bad_es : list entry :=
    Eval vm_compute in
      match get (final (backup 6) a_dup []) (PHunk 0 1) with Some (Good (PlHunk es)) => es | _ => [] end.

  Theorem backup_refint_without_FilesND_refuted :
    exists pre c src a0 phi,
      BlocksWF a0 /\ RefInt a0
      /\ ~ RefInt (snd (fst (run pre (backup_prog pre c src) a0 phi))).
  Proof.
    exists ex_pre, ex_cfg, (ex_src 6), a_dup, [].
    split; [apply blockswf_b_sound; vm_compute; reflexivity|].
    split; [apply refint_b_sound; vm_compute; reflexivity|].
    apply (refint_broken _ 0 1 bad_es); vm_compute; reflexivity.
  Qed.
End Refuted.

Print Assumptions safe_sound.
Print Assumptions backup_safe.
Print Assumptions backup_ainv.
Print Assumptions backup_refint.
Print Assumptions any_run_FilesND.
Print Assumptions restore_reads_ok.
Print Assumptions restore_entries_ok.
Print Assumptions ainv_b_sound.
Print Assumptions Refuted.backup_refint_without_FilesND_refuted.
