(* Strings as lists of UTF-8 bytes; byte-wise order; splitting and joining.
   Model file: executable definitions only, no proofs. *)
From Coq Require Export List NArith Bool.
Export ListNotations.
Open Scope N_scope.

Definition str := list N.                       (* UTF-8 bytes, each < 256 *)

Definition SLASH : N := 47.
Definition DOT   : N := 46.

(* Rust's `str::cmp`: byte-wise lexicographic, a proper prefix is smaller. *)
Fixpoint str_cmp (a b : str) : comparison :=
  match a, b with
  | [], [] => Eq
  | [], _ :: _ => Lt
  | _ :: _, [] => Gt
  | x :: a', y :: b' =>
      match N.compare x y with Eq => str_cmp a' b' | c => c end
  end.

Fixpoint str_eqb (a b : str) : bool :=
  match a, b with
  | [], [] => true
  | x :: a', y :: b' => N.eqb x y && str_eqb a' b'
  | _, _ => false
  end.

(* `s.split(sep)`: never empty; `"".split('/')` yields [""]. *)
Fixpoint split_on (sep : N) (s : str) : list str :=
  match s with
  | [] => [[]]
  | c :: s' =>
      if N.eqb c sep then [] :: split_on sep s'
      else match split_on sep s' with
           | [] => [[c]]                         (* unreachable *)
           | w :: ws => (c :: w) :: ws
           end
  end.

Fixpoint join (sep : N) (l : list str) : str :=
  match l with
  | [] => []
  | [w] => w
  | w :: ws => w ++ sep :: join sep ws
  end.

Fixpoint starts_with (s p : str) {struct p} : bool :=       (* s.starts_with(p) *)
  match p, s with
  | [], _ => true
  | _ :: _, [] => false
  | y :: p', x :: s' => N.eqb x y && starts_with s' p'
  end.

Definition ends_with_byte (s : str) (c : N) : bool :=
  match rev s with x :: _ => N.eqb x c | [] => false end.

Fixpoint mem_byte (c : N) (s : str) : bool :=
  match s with [] => false | x :: s' => N.eqb x c || mem_byte c s' end.

(* UTF-8: a byte is a continuation byte iff its top two bits are 10. *)
Definition is_cont (b : N) : bool := (128 <=? b) && (b <? 192).

(* `s.chars().nth(k)` reduced to what conserve uses of it: the lead byte of
   the k-th character (exact for valid UTF-8). *)
Fixpoint nth_char_lead (s : str) (k : nat) : option N :=
  match s with
  | [] => None
  | b :: s' =>
      if is_cont b then nth_char_lead s' k
      else match k with O => Some b | S k' => nth_char_lead s' k' end
  end.

Definition opt_N_eqb (o : option N) (c : N) : bool :=
  match o with Some x => N.eqb x c | None => false end.

Definition cmp_code (c : comparison) : N :=
  match c with Lt => 0 | Eq => 1 | Gt => 2 end.
Definition bool_code (b : bool) : N := if b then 1 else 0.
