(* Generic facts about comparison functions and their lexicographic lifting. *)
From Coq Require Import List Bool.
Import ListNotations.

Record CmpOrder {A} (cmp : A -> A -> comparison) : Prop := {
  co_eq    : forall a b, cmp a b = Eq <-> a = b;
  co_anti  : forall a b, cmp b a = CompOpp (cmp a b);
  co_trans : forall a b c, cmp a b = Lt -> cmp b c = Lt -> cmp a c = Lt
}.

Section Derived.
  Context {A} (cmp : A -> A -> comparison) (O : CmpOrder cmp).

  Lemma co_refl a : cmp a a = Eq.
  Proof. apply (co_eq cmp O). reflexivity. Qed.

  Lemma co_gt_lt a b : cmp a b = Gt <-> cmp b a = Lt.
  Proof. rewrite (co_anti cmp O a b). destruct (cmp a b); cbn; split; congruence. Qed.

  Lemma co_lt_irrefl a : cmp a a <> Lt.
  Proof. rewrite co_refl. discriminate. Qed.

  Lemma co_total a b : cmp a b = Lt \/ a = b \/ cmp b a = Lt.
  Proof.
    destruct (cmp a b) eqn:E.
    - right; left. apply (co_eq cmp O). exact E.
    - left; reflexivity.
    - right; right. apply co_gt_lt. exact E.
  Qed.

  Definition leq a b := cmp a b <> Gt.

  Lemma co_le_lt_trans a b c : cmp a b <> Gt -> cmp b c = Lt -> cmp a c = Lt.
  Proof.
    intros H1 H2. destruct (cmp a b) eqn:E.
    - apply (co_eq cmp O) in E. subst. exact H2.
    - eapply (co_trans cmp O); eauto.
    - congruence.
  Qed.

  Lemma co_lt_le_trans a b c : cmp a b = Lt -> cmp b c <> Gt -> cmp a c = Lt.
  Proof.
    intros H1 H2. destruct (cmp b c) eqn:E.
    - apply (co_eq cmp O) in E. subst. exact H1.
    - eapply (co_trans cmp O); eauto.
    - congruence.
  Qed.

  Lemma co_le_trans a b c : cmp a b <> Gt -> cmp b c <> Gt -> cmp a c <> Gt.
  Proof.
    intros H1 H2. destruct (cmp a b) eqn:E.
    - apply (co_eq cmp O) in E. subst. exact H2.
    - assert (cmp a c = Lt) by (eapply co_lt_le_trans; eauto). congruence.
    - congruence.
  Qed.
End Derived.

(* Lexicographic lifting: a proper prefix is smaller. *)
Section Lex.
  Context {A} (cmp : A -> A -> comparison).

  Fixpoint lexc (l m : list A) : comparison :=
    match l, m with
    | [], [] => Eq
    | [], _ :: _ => Lt
    | _ :: _, [] => Gt
    | x :: l', y :: m' => match cmp x y with Eq => lexc l' m' | c => c end
    end.

  Context (O : CmpOrder cmp).

  Lemma lexc_eq l : forall m, lexc l m = Eq <-> l = m.
  Proof.
    induction l as [|x l IH]; intros [|y m]; cbn; try (split; congruence).
    destruct (cmp x y) eqn:E.
      + apply (co_eq cmp O) in E. subst. rewrite IH. split; congruence.
      + split; [discriminate|]. intros H; inversion H; subst.
        rewrite (co_refl cmp O) in E. discriminate.
      + split; [discriminate|]. intros H; inversion H; subst.
        rewrite (co_refl cmp O) in E. discriminate.
  Qed.

  Lemma lexc_anti l : forall m, lexc m l = CompOpp (lexc l m).
  Proof.
    induction l as [|x l IH]; intros [|y m]; cbn; try reflexivity.
    rewrite (co_anti cmp O x y). destruct (cmp x y); cbn; auto.
  Qed.

  Lemma lexc_trans l : forall m n, lexc l m = Lt -> lexc m n = Lt -> lexc l n = Lt.
  Proof.
    induction l as [|x l IH]; intros [|y m] [|z n]; cbn; try congruence.
    destruct (cmp x y) eqn:E1; try discriminate.
    - apply (co_eq cmp O) in E1. subst y.
      destruct (cmp x z); try congruence. apply IH.
    - destruct (cmp y z) eqn:E2; try discriminate.
      + apply (co_eq cmp O) in E2. subst z. rewrite E1. reflexivity.
      + rewrite (co_trans cmp O _ _ _ E1 E2). reflexivity.
  Qed.

  Lemma lexc_order : CmpOrder lexc.
  Proof. constructor; [apply lexc_eq | intros; apply lexc_anti | intros a b c; apply lexc_trans]. Qed.

  (* prefix as a proposition *)
  Definition is_prefix (p l : list A) : Prop := exists r, l = p ++ r.

  Lemma is_prefix_cons x p l : is_prefix (x :: p) l <-> exists l', l = x :: l' /\ is_prefix p l'.
  Proof.
    split.
    - intros [r ->]. exists (p ++ r). split; [reflexivity | exists r; reflexivity].
    - intros [l' [-> [r ->]]]. exists r. reflexivity.
  Qed.

  (* lists having a fixed prefix form an interval of the lexicographic order *)
  Lemma lexc_prefix_convex p : forall a b c,
      is_prefix p a -> is_prefix p c -> lexc a b <> Gt -> lexc b c <> Gt -> is_prefix p b.
  Proof.
    induction p as [|x p IH]; intros a b c Ha Hc Hab Hbc.
    - exists b. reflexivity.
    - apply is_prefix_cons in Ha. destruct Ha as [a' [-> Ha]].
      apply is_prefix_cons in Hc. destruct Hc as [c' [-> Hc]].
      destruct b as [|y b]; cbn in *; [congruence|].
      destruct (cmp x y) eqn:E1; try congruence.
      + apply (co_eq cmp O) in E1. subst y.
        rewrite (co_refl cmp O) in Hbc.
        apply is_prefix_cons. exists b. split; [reflexivity|].
        exact (IH a' b c' Ha Hc Hab Hbc).
      + destruct (cmp y x) eqn:E2; try congruence.
        * apply (co_eq cmp O) in E2. subst y. rewrite (co_refl cmp O) in E1. discriminate.
        * assert (cmp x x = Lt) by (eapply (co_trans cmp O); eauto).
          rewrite (co_refl cmp O) in H. discriminate.
  Qed.
End Lex.
