(* Proofs about Base/Str.v *)
From Coq Require Import Lia.
From CV Require Import Base.Str Base.Order.

Lemma str_cmp_eq a : forall b, str_cmp a b = Eq <-> a = b.
Proof.
  induction a as [|x a IH]; intros [|y b]; cbn; try (split; congruence).
  destruct (N.compare x y) eqn:E.
    + apply N.compare_eq_iff in E. subst. rewrite IH. split; congruence.
    + split; [discriminate|]. intros H; inversion H; subst.
      rewrite N.compare_refl in E. discriminate.
    + split; [discriminate|]. intros H; inversion H; subst.
      rewrite N.compare_refl in E. discriminate.
Qed.

Lemma str_cmp_anti a : forall b, str_cmp b a = CompOpp (str_cmp a b).
Proof.
  induction a as [|x a IH]; intros [|y b]; cbn; try reflexivity.
  rewrite (N.compare_antisym y x). destruct (N.compare y x); cbn; auto.
Qed.

Lemma str_cmp_trans a : forall b c, str_cmp a b = Lt -> str_cmp b c = Lt -> str_cmp a c = Lt.
Proof.
  induction a as [|x a IH]; intros [|y b] [|z c]; cbn; try congruence.
  destruct (N.compare x y) eqn:E1; try discriminate.
  - apply N.compare_eq_iff in E1. subst y.
    destruct (N.compare x z); try congruence. apply IH.
  - destruct (N.compare y z) eqn:E2; try discriminate.
    + apply N.compare_eq_iff in E2. subst z. rewrite E1. reflexivity.
    + rewrite N.compare_lt_iff in *. assert (x < z) by lia.
      apply N.compare_lt_iff in H. rewrite H. reflexivity.
Qed.

Lemma str_order : CmpOrder str_cmp.
Proof. constructor; [apply str_cmp_eq | intros; apply str_cmp_anti | intros a b c; apply str_cmp_trans]. Qed.

Lemma str_eqb_eq a : forall b, str_eqb a b = true <-> a = b.
Proof.
  induction a as [|x a IH]; intros [|y b]; cbn; try (split; congruence).
  rewrite andb_true_iff, N.eqb_eq, IH. split; [intros [-> ->]; reflexivity | intros H; inversion H; auto].
Qed.

Lemma str_eqb_refl a : str_eqb a a = true.
Proof. apply str_eqb_eq. reflexivity. Qed.

Lemma mem_byte_In c s : mem_byte c s = true <-> In c s.
Proof.
  induction s as [|x s IH]; cbn; [split; [discriminate | tauto]|].
  rewrite orb_true_iff, N.eqb_eq, IH. tauto.
Qed.

Lemma mem_byte_false c s : mem_byte c s = false <-> ~ In c s.
Proof. rewrite <- mem_byte_In. destruct (mem_byte c s); split; congruence. Qed.

(* ---- split / join ---- *)
Lemma split_on_nonempty sep s : split_on sep s <> [].
Proof.
  induction s as [|c s IH]; cbn; [discriminate|].
  destruct (N.eqb c sep); [discriminate|].
  destruct (split_on sep s); [contradiction | discriminate].
Qed.

Lemma join_cons2 sep w v ws : join sep (w :: v :: ws) = w ++ sep :: join sep (v :: ws).
Proof. reflexivity. Qed.

Lemma join_split sep s : join sep (split_on sep s) = s.
Proof.
  induction s as [|c s IH]; [reflexivity|].
  cbn [split_on].
  destruct (split_on sep s) as [|w ws] eqn:S; [exfalso; eapply split_on_nonempty; eauto|].
  destruct (N.eqb c sep) eqn:E.
  - apply N.eqb_eq in E. subst c. rewrite join_cons2, IH. reflexivity.
  - destruct ws as [|v ws].
    + cbn in *. rewrite IH. reflexivity.
    + rewrite join_cons2 in *. rewrite <- IH. reflexivity.
Qed.

Lemma split_on_inj sep a b : split_on sep a = split_on sep b -> a = b.
Proof. intros H. rewrite <- (join_split sep a), <- (join_split sep b), H. reflexivity. Qed.

Lemma split_on_nosep sep w : ~ In sep w -> split_on sep w = [w].
Proof.
  induction w as [|c w IH]; cbn; intros H; [reflexivity|].
  destruct (N.eqb c sep) eqn:E; [apply N.eqb_eq in E; subst; tauto|].
  rewrite IH by tauto. reflexivity.
Qed.

Lemma split_on_app_sep sep w s :
  ~ In sep w -> split_on sep (w ++ sep :: s) = w :: split_on sep s.
Proof.
  induction w as [|c w IH]; cbn; intros H.
  - rewrite N.eqb_refl. reflexivity.
  - destruct (N.eqb c sep) eqn:E; [apply N.eqb_eq in E; subst; tauto|].
    rewrite IH by tauto. reflexivity.
Qed.

Lemma split_join sep l :
  l <> [] -> Forall (fun w => ~ In sep w) l -> split_on sep (join sep l) = l.
Proof.
  induction l as [|w l IH]; [congruence|]. intros _ H.
  inversion H as [|? ? Hw Hl]; subst.
  destruct l as [|v l].
  - cbn. apply split_on_nosep. exact Hw.
  - rewrite join_cons2. rewrite split_on_app_sep by exact Hw.
    f_equal. apply IH; [discriminate | exact Hl].
Qed.

Lemma split_on_parts_nosep sep s : Forall (fun w => ~ In sep w) (split_on sep s).
Proof.
  induction s as [|c s IH]; cbn; [repeat constructor; tauto|].
  destruct (N.eqb c sep) eqn:E.
  - constructor; [tauto | exact IH].
  - destruct (split_on sep s) as [|w ws]; [repeat constructor; cbn; intros [H|[]]; subst; rewrite N.eqb_refl in E; discriminate|].
    inversion IH; subst. constructor; [|assumption].
    cbn. intros [H|H]; [subst; rewrite N.eqb_refl in E; discriminate | tauto].
Qed.

Lemma starts_with_app s p : starts_with s p = true <-> exists r, s = p ++ r.
Proof.
  revert s. induction p as [|y p IH]; intros s; cbn.
  - split; [intros _; exists s; reflexivity | reflexivity].
  - destruct s as [|x s]; [split; [discriminate | intros [r H]; discriminate]|].
    rewrite andb_true_iff, N.eqb_eq, IH. split.
    + intros [-> [r ->]]. exists r. reflexivity.
    + intros [r H]. inversion H; subst. split; [reflexivity | exists r; reflexivity].
Qed.

Lemma ends_with_byte_app s c : ends_with_byte s c = true <-> exists r, s = r ++ [c].
Proof.
  unfold ends_with_byte. split.
  - destruct (rev s) as [|x t] eqn:E; [discriminate|]. intros H. apply N.eqb_eq in H. subst x.
    exists (rev t). rewrite <- (rev_involutive s), E. reflexivity.
  - intros [r ->]. rewrite rev_app_distr. cbn. apply N.eqb_refl.
Qed.
