(* C02, the composition over histories (definitions: History.v).

   A.  [RInv] (= [E2E.Ready] without "no GC_LOCK file") is an invariant of EVERY operation
       under EVERY fault list, at every intermediate state:
         [backup_rinv_all], [backup_ready_all] (a backup never touches GC_LOCK: [Ready] itself
         is kept by backups under all faults), [delete_rinv_all] (all faults), [delete_ready]
         (a delete that meets no fault also releases the lock: [Ready] is kept);
         [delete_ready_all_refuted]: a killed delete leaves GC_LOCK behind.
   B.  What restoring a COMPLETE band returns depends only on that band's own files and on
       the blocks its entries reference ([restore_same_band]); hence a delete of other
       versions, under every fault list, at every intermediate state, leaves the restore of a
       kept complete version unchanged ([delete_restore_stable]).
   C.  A backup that runs to its end and reports success -- under ANY fault list -- has
       written a band that restores to exactly its source ([backup_completed_restores_exact]:
       [E2EP.backup_then_restore_exact] without "no fault").
   D.  Histories ([history_restores_exact], [history_restores_exact_ff],
       [latest_complete_after_history]). *)
From Coq Require Import Lia Sorted Permutation.
From CV Require Import Base.Str Base.StrP Base.Order Apath ApathP Entry Stitch StitchInst StitchP Tree TreeP Codec CodecP
  Store StitchProg Backup Ops Delete Read SafeP Inv RefIntP FrameP Valid ValidP Truth TruthP DeleteP Conf ConfP
  Healthy HealthyP E2E E2EP History.
Local Open Scope N_scope.

Local Notation Done := Store.Done.

(* ------------------------------------------------------------------------- *)
(** * 0. Small facts                                                           *)
(* ------------------------------------------------------------------------- *)

Lemma Ready_RInv pre a : Ready pre a <-> RInv pre a /\ get a PLock = None.
Proof.
  unfold Ready, Startable, RInv. split.
  - intros ((H1 & H2 & H3 & H4) & H5 & H6 & H7). auto 10.
  - intros ((H1 & H3 & H4 & H5 & H6 & H7) & H2). auto 10.
Qed.

Lemma RInv_WFidx pre a : RInv pre a -> WFidx a.
Proof.
  intros (_ & _ & [HF HD] & NDd & (_ & _ & NDf) & _).
  split; [exact NDd|]. split; [exact NDf|]. split; [|split].
  - intros n h Hne. destruct (get a (PHunk n h)) as [x|] eqn:G; [|congruence]. exact (HF _ _ G).
  - intros n s Hd. apply (HD (DHunkSub n s) (DIndex n)); [apply has_dir_In; exact Hd | reflexivity].
  - intros n. split; intros Hne.
    + destruct (get a (PHead n)) as [x|] eqn:G; [|congruence]. exact (HF _ _ G).
    + destruct (get a (PTail n)) as [x|] eqn:G; [|congruence]. exact (HF _ _ G).
Qed.

Lemma RInv_root pre a : RInv pre a -> has_dir a DRoot = true.
Proof.
  intros (_ & Hb & [_ HD] & _). apply (HD DBlocks DRoot); [apply has_dir_In; exact Hb | reflexivity].
Qed.

Lemma rinv_b_sound pre a : rinv_b pre a = true -> RInv pre a.
Proof.
  unfold rinv_b. rewrite !andb_true_iff. intros [[[[[H1 H2] H3] H4] H5] H6].
  split; [|split; [exact H2|split; [apply wfparents_b_sound; exact H3|split;
    [apply nodup_dirs_sound; exact H4|split; [apply ainv_b_sound; exact H5 | apply conf_b_sound; exact H6]]]]].
  destruct (get a PHeader) as [[[| | | |]| |]|]; try discriminate. reflexivity.
Qed.

Lemma In_all_states pre {R} (P : arch -> Prop) (p : prog R) a phi :
  Forall P (run_states pre p a phi) -> P (final2 pre p a phi) -> Forall P (all_states pre p a phi).
Proof.
  intros H1 H2. unfold all_states. apply Forall_app. split; [exact H1|]. constructor; [exact H2 | constructor].
Qed.

Lemma all_states_final pre {R} (p : prog R) a phi : In (final2 pre p a phi) (all_states pre p a phi).
Proof. unfold all_states. apply in_or_app. right. left. reflexivity. Qed.

(* ------------------------------------------------------------------------- *)
(** * A1. Backups keep [RInv], and never touch GC_LOCK                         *)
(* ------------------------------------------------------------------------- *)

(* an add-only operation that is not a write of GC_LOCK *)
Definition nolock (o : op) : Prop :=
  add_only o /\ match o with OpWrite PLock _ _ => False | _ => True end.

Lemma body_nolock b o : body_op b o -> nolock o.
Proof.
  intros H. split; [apply (body_add b); exact H|].
  destruct o as [f|f p m|d|d|f|f|d]; try exact I. destruct f; try exact I.
  destruct p, m; cbn in H; contradiction.
Qed.

Lemma reads_nolock o : reads_only o -> nolock o.
Proof. intros H. split; [apply reads_add; exact H|]. destruct o; cbn in H; try contradiction; exact I. Qed.

Section BackupLock.
  Variable pre : bytes -> N.

  Theorem backup_emits_nolock : forall c src, emits_only nolock (backup_prog pre c src).
  Proof.
    intros c src. unfold backup_prog, open_archive.
    repeat (match goal with
            | |- emits_only _ (Ret _) => apply eo_ret
            | |- emits_only _ (Do _ _) => apply eo_do; [split; cbn; auto; fail | intros ?]
            | |- emits_only _ (match ?x with _ => _ end) => destruct x eqn:?
            end).
    apply list_blocks_eo; [apply reads_nolock|]. intros [ex|]; [|constructor].
    eapply eo_mono; [|apply merge_loop_eo; reflexivity]. intros o Ho. eapply body_nolock. exact Ho.
  Qed.

  Lemma exec_nolock_lock a o flt : nolock o -> get (fst (exec pre a o flt)) PLock = get a PLock.
  Proof.
    intros [Ha Hl].
    assert (Hok : get (fst (exec_ok pre a o)) PLock = get a PLock).
    { destruct o as [f|f p m|d|d|f|f|d]; cbn in Ha; try contradiction; cbn [exec_ok].
      - destruct (get a f); reflexivity.
      - destruct (has_dir a (parent_f pre f)); [|reflexivity].
        assert (Hs : get {| dirs := dirs a; files := set_file f (Good p) (files a) |} PLock = get a PLock).
        { unfold get. cbn [files]. rewrite lookup_set_file.
          destruct (fpath_eqb_spec PLock f) as [<-|_]; [contradiction | reflexivity]. }
        destruct (get a f) as [[q| |]|]; destruct m; cbn [fst]; auto.
      - destruct (has_dir a d); reflexivity.
      - destruct (has_dir a d); [reflexivity|].
        destruct (parent_d d) as [q|]; [destruct (has_dir a q)|]; reflexivity.
      - destruct (get a f); reflexivity. }
    destruct flt; cbn [exec fst]; auto.
  Qed.

  Lemma exec_empty_nolock_lock a o : nolock o -> get (exec_empty pre a o) PLock = get a PLock.
  Proof.
    intros [_ Hl]. destruct o as [f|f p m|d|d|f|f|d]; cbn [exec_empty]; auto.
    destruct (has_dir a (parent_f pre f)); [|reflexivity]. destruct (get a f); [reflexivity|].
    unfold get. cbn [files]. rewrite lookup_set_file.
    destruct (fpath_eqb_spec PLock f) as [<-|_]; [contradiction | reflexivity].
  Qed.

  (** A backup never creates, changes or removes GC_LOCK: whatever the faults, at every state
      of the run the lock file is what it was. *)
  Theorem backup_lock_same : forall c src a0 phi,
    Forall (fun a => get a PLock = get a0 PLock) (all_states pre (backup_prog pre c src) a0 phi).
  Proof.
    intros c src a0 phi.
    assert (H : Forall (fun a => get a PLock = get a0 PLock) (run_states pre (backup_prog pre c src) a0 phi)
                /\ get (snd (fst (run pre (backup_prog pre c src) a0 phi))) PLock = get a0 PLock).
    { apply (run_invariant pre nolock (fun a => get a PLock = get a0 PLock)).
      - intros a o f Ho Ha. rewrite exec_nolock_lock by exact Ho. exact Ha.
      - intros a o Ho Ha. rewrite exec_empty_nolock_lock by exact Ho. exact Ha.
      - apply backup_emits_nolock.
      - reflexivity. }
    destruct H as [H1 H2]. apply In_all_states; assumption.
  Qed.

  (** BACKUPS KEEP [RInv]: from a state satisfying it, a backup of any sorted, valid,
      well-formed source under any configuration and ANY fault list (storage failures, a kill
      anywhere, a torn write) passes only through states satisfying it. *)
  Theorem backup_rinv_all : forall c src a0 phi,
    RInv pre a0 -> SrcSorted src -> SrcValid src -> SrcWF src ->
    Forall (RInv pre) (all_states pre (backup_prog pre c src) a0 phi).
  Proof.
    intros c src a0 phi (Hh & Hb & HWF & NDd & HA & HCo) Hs Hv Hw.
    destruct (backup_conf_ainv pre c src a0 phi Hs Hv Hw HCo HA HWF) as [C1 (C2 & C3 & C4)].
    destruct (any_run_NoDup_dirs pre (backup_prog pre c src) a0 phi NDd) as [N1 N2].
    destruct (backup_write_once pre c src a0 phi) as [O1 O2].
    assert (Hold : forall a, Old a0 a -> get a PHeader = Some (Good PlJson) /\ has_dir a DBlocks = true).
    { intros a [HOd HOf]. split; [apply HOf; [exact Hh | discriminate] | apply HOd; apply has_dir_In; exact Hb]. }
    apply In_all_states.
    - rewrite Forall_forall in *. intros a Hin.
      destruct (C1 a Hin) as (X1 & X2 & X3). destruct (Hold a (O1 a Hin)) as [Y1 Y2].
      exact (conj Y1 (conj Y2 (conj X3 (conj (N1 a Hin) (conj X2 X1))))).
    - destruct (Hold _ O2) as [Y1 Y2]. unfold final2.
      exact (conj Y1 (conj Y2 (conj C4 (conj N2 (conj C3 C2))))).
  Qed.

  (** ... and [Ready] itself (with "no GC_LOCK file"): all faults, every state. *)
  Theorem backup_ready_all : forall c src a0 phi,
    Ready pre a0 -> SrcSorted src -> SrcValid src -> SrcWF src ->
    Forall (Ready pre) (all_states pre (backup_prog pre c src) a0 phi).
  Proof.
    intros c src a0 phi HR Hs Hv Hw. apply Ready_RInv in HR. destruct HR as [HI Hl].
    pose proof (backup_rinv_all c src a0 phi HI Hs Hv Hw) as H1.
    pose proof (backup_lock_same c src a0 phi) as H2.
    rewrite Forall_forall in *. intros a Hin. apply Ready_RInv. split; [auto|].
    rewrite (H2 a Hin). exact Hl.
  Qed.
End BackupLock.

(* ------------------------------------------------------------------------- *)
(** * A2. Deletes keep [RInv]; a delete that meets no fault releases the lock  *)
(* ------------------------------------------------------------------------- *)

Lemma ConfBand_ext (a a' : arch) b :
  (forall h, get a' (PHunk b h) = get a (PHunk b h)) -> get a' (PTail b) = get a (PTail b) ->
  ConfBand a b -> ConfBand a' b.
Proof.
  intros EH ET ((C1 & C2) & (S1 & S2) & W & T).
  split; [split|split; [split|split]].
  - intros h Hne. rewrite EH in Hne. destruct (C1 h Hne) as [es [G Hn]]. exists es. rewrite EH. auto.
  - intros h x G. rewrite EH in G. exact (C2 h x G).
  - intros h es G. rewrite EH in G. exact (S1 h es G).
  - intros h h' es es' e e' L G G'. rewrite EH in G, G'. exact (S2 h h' es es' e e' L G G').
  - intros h es G. rewrite EH in G. exact (W h es G).
  - intros n G h. rewrite ET in G. rewrite !EH. exact (T n G h).
Qed.

Lemma ConfBand_none (a : arch) b :
  (forall h, get a (PHunk b h) = None) -> get a (PTail b) = None -> ConfBand a b.
Proof.
  intros EH ET. split; [split|split; [split|split]].
  - intros h Hne. rewrite EH in Hne. congruence.
  - intros h x G. rewrite EH in G. discriminate.
  - intros h es G. rewrite EH in G. discriminate.
  - intros h h' es es' e e' _ G. rewrite EH in G. discriminate.
  - intros h es G. rewrite EH in G. discriminate.
  - intros n G. rewrite ET in G. discriminate.
Qed.

Section DeleteRInv.
  Variable pre : bytes -> N.

  (* from the invariant [HealthyP.DI] of the states a delete passes through *)
  Lemma DI_RInv ids a0 a :
    RInv pre a0 -> DI ids a0 a -> WFparents pre a -> NoDup (dirs a) -> FilesND a -> RInv pre a.
  Proof.
    intros (Hh0 & Hb0 & HWF0 & NDd0 & (RI0 & BW0 & NDf0) & HCo0)
           ((S1 & S2) & (R1 & R2 & R3) & HK & HI & HD) HWP ND NF.
    assert (Hband : forall b f x, DeleteP.band_file b f -> get a f = Some x -> has_dir a (DBand b) = true).
    { intros b f x Hf G. destruct HWP as [HF HDp]. pose proof (HF _ _ G) as H1.
      destruct Hf as [->|[->|[h ->]]]; cbn [parent_f] in H1; auto.
      apply has_dir_In in H1. pose proof (HDp _ (DIndex b) H1 eq_refl) as H2.
      apply has_dir_In in H2. exact (HDp _ (DBand b) H2 eq_refl). }
    split; [exact R3|]. split; [exact R2|]. split; [exact HWP|]. split; [exact ND|]. split; [split; [|split]|].
    - (* referential integrity *)
      intros b h es G.
      assert (G0 : get a0 (PHunk b h) = Some (Good (PlHunk es))).
      { destruct (S1 _ _ G) as [E|E]; [discriminate | exact E]. }
      assert (Hb : has_dir a (DBand b) = true) by (apply (Hband b _ _ (or_intror (or_intror (ex_intro _ h eq_refl))) G)).
      pose proof (RI0 b h es G0) as HE.
      rewrite Forall_forall in *. intros e He. specialize (HE e He). unfold entry_ok in *.
      rewrite Forall_forall in *. intros ad Had. destruct (HE ad Had) as [Hbk Hlen]. split; [|exact Hlen].
      unfold block_ok in *. destruct HD as [HD|HD]; [rewrite HD; exact Hbk|].
      assert (Hn : ~ In b ids) by (intros Hin; rewrite (HD b Hin) in Hb; discriminate).
      destruct (HK b (S2 _ Hb) Hn) as [_ HKb]. rewrite HKb; [exact Hbk|].
      exists h, es, e, ad. auto.
    - intros c x G. destruct (S1 _ _ G) as [E|E]; [discriminate|]. exact (BW0 c x E).
    - exact NF.
    - (* conformance, band by band *)
      intros b. destruct (has_dir a (DBand b)) eqn:Hb.
      + destruct (HI b Hb) as (_ & E2 & _). apply (ConfBand_ext a0 a b).
        * intros h. apply E2. right. right. eauto.
        * apply E2. right. left. reflexivity.
        * apply HCo0.
      + destruct (WFparents_NoOrphans pre a HWP b Hb) as [H1 H2]. apply ConfBand_none; assumption.
  Qed.

  Lemma RInv_WFhunks a : RInv pre a -> WFhunks a.
  Proof.
    intros (_ & _ & [HF _] & _) b h Hg. destruct (get a (PHunk b h)) as [x|] eqn:G; [|congruence]. apply (HF _ _ G).
  Qed.

  (* the invariant [DI] at every state of a delete, under every fault list *)
  Lemma delete_DI_all ids dry brk hint a0 phi :
    RInv pre a0 ->
    Forall (DI ids a0) (all_states pre (delete_prog ids dry brk hint) a0 phi).
  Proof.
    intros HI0. pose proof (RInv_WFhunks a0 HI0) as HWF. pose proof (RInv_root pre a0 HI0) as Hroot.
    destruct HI0 as (Hh0 & Hb0 & _).
    assert (HD0 : DI ids a0 a0) by (apply DI_start; repeat split; assumption).
    assert (Hphi : Forall (fun _ : fault => True) phi) by (apply Forall_forall; auto).
    destruct (wp_sound pre (fun _ => True) (DI ids a0) (fun _ _ => True)
                (delete_prog ids dry brk hint) a0 phi I Hphi HD0
                (d_prog_wp pre ids a0 HWF dry brk hint HD0)) as (D1 & D2 & _).
    apply In_all_states; assumption.
  Qed.

  (** DELETES (AND GC) KEEP [RInv]: for every set of band ids, dry-run or not, breaking the
      lock or not, every iteration order and EVERY fault list, every state the archive
      passes through and the final state satisfy it. *)
  Theorem delete_rinv_all : forall ids dry brk hint a0 phi,
    RInv pre a0 ->
    Forall (RInv pre) (all_states pre (delete_prog ids dry brk hint) a0 phi).
  Proof.
    intros ids dry brk hint a0 phi HI0.
    pose proof (delete_DI_all ids dry brk hint a0 phi HI0) as HD.
    pose proof HI0 as (_ & _ & WP0 & ND0 & (_ & _ & NF0) & _).
    destruct (any_run_WFparents pre (delete_prog ids dry brk hint) a0 phi WP0) as [W1 W2].
    destruct (any_run_NoDup_dirs pre (delete_prog ids dry brk hint) a0 phi ND0) as [N1 N2].
    destruct (any_run_FilesND pre (delete_prog ids dry brk hint) a0 phi NF0) as [F1 F2].
    pose proof (In_all_states pre _ _ _ _ W1 W2) as W.
    pose proof (In_all_states pre _ _ _ _ N1 N2) as Nn.
    pose proof (In_all_states pre _ _ _ _ F1 F2) as Fn.
    rewrite Forall_forall in *. intros a Hin. apply (DI_RInv ids a0 a HI0); auto.
  Qed.

  (* ---- the lock, without faults ---- *)
  Definition unlocks (p : prog dres) : Prop := forall a, get (fst (fin pre p a)) PLock = None.

  Lemma exec_ok_noacq_unlocked a o :
    ~ is_acq o -> get a PLock = None -> get (fst (exec_ok pre a o)) PLock = None.
  Proof.
    intros Hacq Hl. destruct o as [f|f p m|d|d|f|f|d].
    - cbn [exec_ok]. destruct (get a f); exact Hl.
    - cbn [exec_ok]. destruct (has_dir a (parent_f pre f)); [|exact Hl].
      assert (Hs : get {| dirs := dirs a; files := set_file f (Good p) (files a) |} PLock = None).
      { unfold get. cbn [files]. rewrite lookup_set_file.
        destruct (fpath_eqb_spec PLock f) as [<-|_]; [exfalso; apply Hacq; exact I | exact Hl]. }
      destruct (get a f) as [[q| |]|]; destruct m; cbn [fst]; auto.
    - cbn [exec_ok]. destruct (has_dir a d); exact Hl.
    - cbn [exec_ok]. destruct (has_dir a d); [exact Hl|].
      destruct (parent_d d) as [q|]; [destruct (has_dir a q)|]; exact Hl.
    - cbn [exec_ok]. destruct (get a f); exact Hl.
    - rewrite exec_ok_rmfile. destruct (get a f); [|exact Hl]. cbn [fst]. rewrite get_rm_file.
      destruct (fpath_eqb PLock f); [reflexivity | exact Hl].
    - rewrite exec_ok_rmdir. destruct (has_dir a d); [|exact Hl]. cbn [fst]. rewrite get_rm_dir.
      destruct (file_under pre d PLock); [reflexivity | exact Hl].
  Qed.

  Lemma noacq_keeps_unlocked (p : prog dres) :
    emits_only (fun o => ~ is_acq o) p -> forall a, get a PLock = None -> get (fst (fin pre p a)) PLock = None.
  Proof.
    intros H. induction H as [r| |o k Ho _ IH]; intros a Hl; try exact Hl.
    rewrite fin_Do. apply IH. apply exec_ok_noacq_unlocked; assumption.
  Qed.

  Lemma releases_unlocks (p : prog dres) :
    releases p -> emits_only (fun o => ~ is_acq o) p -> unlocks p.
  Proof.
    intros H. induction H as [k|o k _ IH]; intros Heo a; rewrite fin_Do.
    - pose proof (eo_inv _ _ Heo) as [_ Hk]. apply noacq_keeps_unlocked; [apply Hk|].
      rewrite exec_ok_rmfile. destruct (get a PLock) eqn:G; [|exact G]. cbn [fst].
      rewrite get_rm_file. reflexivity.
    - pose proof (eo_inv _ _ Heo) as [_ Hk]. apply IH. apply Hk.
  Qed.

  Lemma body_unlocked ids dry hint a :
    get a PLock = None -> get (fst (fin pre (body_p ids dry hint) a)) PLock = None.
  Proof.
    intros Hl. unfold body_p, acquire. rewrite fin_list. unfold ls.
    destruct (has_dir a DRoot) eqn:Hroot; [|exact Hl]. cbv zeta.
    set (last := max_id (band_ids (children_dirs a DRoot))).
    assert (Hlock : get (fst (fin pre (Do (OpMeta PLock) (fun r2 =>
              match r2 with
              | RErr ENotFound =>
                  Do (OpWrite PLock PlJson CreateNew)
                     (fun r3 => if is_ok r3 then after_acq ids dry hint last else Ret dfail)
              | _ => Ret dfail
              end)) a)) PLock = None).
    { rewrite fin_meta. unfold mt. rewrite Hl. rewrite fin_Do.
      cbn [exec_ok parent_f]. rewrite Hroot, Hl. cbn [fst snd is_ok].
      apply (releases_unlocks _ (after_acq_rl ids dry hint last) (after_acq_eo ids dry hint last)). }
    destruct last as [b|]; [|exact Hlock].
    rewrite fin_meta. destruct (mt a (PTail b)) as [| | | |[|]]; try exact Hl. exact Hlock.
  Qed.

  (** A delete (or gc) that meets no fault leaves no GC_LOCK behind, if there was none. *)
  Theorem delete_ff_unlocked : forall ids dry brk hint a0,
    get a0 PLock = None -> get (final2 pre (delete_prog ids dry brk hint) a0 []) PLock = None.
  Proof.
    intros ids dry brk hint a0 Hl.
    change (final2 pre (delete_prog ids dry brk hint) a0 []) with (fst (fin pre (delete_prog ids dry brk hint) a0)).
    rewrite delete_prog_eq, fin_read.
    destruct (rd a0 PHeader) as [| |[[| | | |]| |]| |]; try exact Hl.
    destruct brk; [|apply body_unlocked; exact Hl].
    rewrite fin_meta. unfold mt. rewrite Hl. apply body_unlocked. exact Hl.
  Qed.

  (** DELETES KEEP [Ready] when they meet no fault ... *)
  Theorem delete_ready : forall ids dry brk hint a0,
    Ready pre a0 -> Ready pre (final2 pre (delete_prog ids dry brk hint) a0 []).
  Proof.
    intros ids dry brk hint a0 HR. apply Ready_RInv in HR. destruct HR as [HI Hl]. apply Ready_RInv. split.
    - pose proof (delete_rinv_all ids dry brk hint a0 [] HI) as H. rewrite Forall_forall in H.
      apply H. apply all_states_final.
    - apply delete_ff_unlocked. exact Hl.
  Qed.

  (** ... and, under ANY faults, everything of [Ready] but "there is no GC_LOCK file". *)
  Corollary delete_ready_but_lock : forall ids dry brk hint a0 phi,
    Ready pre a0 -> Forall (RInv pre) (all_states pre (delete_prog ids dry brk hint) a0 phi).
  Proof. intros ids dry brk hint a0 phi HR. apply delete_rinv_all. apply Ready_RInv in HR. apply HR. Qed.

  (** Precisely: after a delete under any faults the archive is [Ready] again exactly when no
      GC_LOCK file is left. *)
  Corollary delete_ready_iff : forall ids dry brk hint a0 phi,
    Ready pre a0 ->
    (Ready pre (final2 pre (delete_prog ids dry brk hint) a0 phi)
     <-> get (final2 pre (delete_prog ids dry brk hint) a0 phi) PLock = None).
  Proof.
    intros ids dry brk hint a0 phi HR. rewrite Ready_RInv.
    pose proof (delete_ready_but_lock ids dry brk hint a0 phi HR) as H. rewrite Forall_forall in H.
    specialize (H _ (all_states_final pre _ a0 phi)). tauto.
  Qed.
End DeleteRInv.

(* ------------------------------------------------------------------------- *)
(** * B. Restoring a complete band reads that band and its blocks only         *)
(* ------------------------------------------------------------------------- *)

(* what makes directory listings determined by what exists: no directory and no path
   twice, every index hunk in an existing sub-directory *)
Definition LWF (a : arch) : Prop := NoDup (dirs a) /\ FilesND a /\ WFhunks a.

Lemma RInv_LWF pre a : RInv pre a -> LWF a.
Proof.
  intros HI. pose proof (RInv_WFhunks pre a HI) as HW.
  destruct HI as (_ & _ & _ & ND & (_ & _ & NF) & _). split; [exact ND|]. split; [exact NF | exact HW].
Qed.

Lemma drop_le_incl x (es : list entry) : incl (drop_le str apath_cmp entry e_apath x es) es.
Proof.
  induction es as [|e es IH]; cbn [drop_le]; [apply incl_refl|].
  destruct (kleb str apath_cmp (e_apath e) x); [apply incl_tl; exact IH | apply incl_refl].
Qed.

Lemma hunk_step_incl es after out after' :
  phstep (Some es) after = (Some out, after') -> incl out es.
Proof.
  unfold hunk_step. destruct after as [x|].
  - destruct (last_key str entry e_apath es) as [l|].
    + destruct (kleb str apath_cmp l x); [discriminate|].
      destruct (first_key str entry e_apath es) as [f|].
      * destruct (kltb str apath_cmp x f); intros E; inversion E; subst; [apply incl_refl | apply drop_le_incl].
      * intros E; inversion E; subst. apply drop_le_incl.
    + intros E; inversion E; subst. apply drop_le_incl.
  - destruct es; intros E; inversion E; subst. apply incl_refl.
Qed.

Lemma forallb_ext_in' {A} (f g : A -> bool) l : (forall x, In x l -> f x = g x) -> forallb f l = forallb g l.
Proof.
  induction l as [|x l IH]; intros H; cbn [forallb]; [reflexivity|].
  rewrite (H x (or_introl eq_refl)), IH; [reflexivity|]. intros y Hy. apply H. right. exact Hy.
Qed.

Section SameBand.
  Variable pre : bytes -> N.
  Variable keep : entry -> bool.

  Lemma hunks_listed_iff a b h : LWF a -> In h (hunks_listed pre a b) <-> get a (PHunk b h) <> None.
  Proof.
    intros (_ & _ & HW). split; [apply hunks_listed_exist|].
    intros Hg. apply hunk_file_listed; [exact Hg|]. apply has_dir_In. apply HW. exact Hg.
  Qed.

  Lemma hunks_listed_same a0 a b :
    LWF a0 -> LWF a -> (forall h, get a (PHunk b h) = get a0 (PHunk b h)) ->
    hunks_listed pre a b = hunks_listed pre a0 b.
  Proof.
    intros L0 L EH. apply sorted_lt_ext.
    - apply hunks_listed_sorted; apply L.
    - apply hunks_listed_sorted; apply L0.
    - intros h. rewrite (hunks_listed_iff a b h L), (hunks_listed_iff a0 b h L0), EH. reflexivity.
  Qed.

  Lemma hl_pure_same a0 a n hs :
    (forall h, get a (PHunk (N.of_nat n) h) = get a0 (PHunk (N.of_nat n) h)) ->
    forall after last acc merr,
      hl_pure keep a n hs after last acc merr = hl_pure keep a0 n hs after last acc merr.
  Proof.
    intros EH. induction hs as [|h hs IH]; intros after last acc merr; cbn [hl_pure]; [reflexivity|].
    unfold rd. rewrite EH.
    destruct (get a0 (PHunk (N.of_nat n) h)) as [[[| | |es|]| |]|]; auto.
    destruct (phstep (Some es) after) as [[out|] after']; auto.
  Qed.

  (* the entries collected come from the accumulator or from good hunks of the band *)
  Lemma hl_pure_from a n hs : forall after last acc merr e,
    In e (snd (fst (hl_pure keep a n hs after last acc merr))) ->
    In e acc \/ exists h es, In h hs /\ get a (PHunk (N.of_nat n) h) = Some (Good (PlHunk es)) /\ In e es.
  Proof.
    induction hs as [|h hs IH]; intros after last acc merr e; cbn [hl_pure]; [cbn [fst snd]; auto|].
    assert (Hrest : forall after' last' merr',
      In e (snd (fst (hl_pure keep a n hs after' last' acc merr'))) ->
      In e acc \/ exists h0 es, In h0 (h :: hs) /\ get a (PHunk (N.of_nat n) h0) = Some (Good (PlHunk es)) /\ In e es).
    { intros after' last' merr' H. destruct (IH _ _ _ _ _ H) as [H1|(h0 & es & H1 & H2 & H3)]; [left; exact H1|].
      right. exists h0, es. split; [right; exact H1 | auto]. }
    unfold rd. destruct (get a (PHunk (N.of_nat n) h)) as [[[| | |es|]| |]|] eqn:G; try apply Hrest.
    - destruct (phstep (Some es) after) as [[out|] after'] eqn:Es; [|apply Hrest].
      intros H. destruct (IH _ _ _ _ _ H) as [H1|(h0 & es0 & H1 & H2 & H3)].
      + apply in_app_or in H1. destruct H1 as [H1|H1]; [left; exact H1|].
        right. exists h, es. split; [left; reflexivity|]. split; [exact G|].
        apply filter_In in H1. apply (hunk_step_incl _ _ _ _ Es). apply H1.
      + right. exists h0, es0. split; [right; exact H1 | auto].
    - cbn [fst snd]. auto.
  Qed.

  Variables (a0 a : arch) (b : N).
  Hypothesis L0 : LWF a0.
  Hypothesis L1 : LWF a.
  Hypothesis SB : band_files_same a0 a b.

  Let EHd : get a (PHead b) = get a0 (PHead b).
  Proof. apply SB. left. reflexivity. Qed.
  Let ETl : get a (PTail b) = get a0 (PTail b).
  Proof. apply SB. right. left. reflexivity. Qed.
  Let EHk : forall h, get a (PHunk b h) = get a0 (PHunk b h).
  Proof. intros h. apply SB. right. right. eauto. Qed.
  Let EIx : has_dir a (DIndex b) = has_dir a0 (DIndex b).
  Proof. apply SB. apply dir_under_band. auto. Qed.

  Lemma ob_pure_same last acc merr :
    ob_pure pre keep a (N.to_nat b) last acc merr = ob_pure pre keep a0 (N.to_nat b) last acc merr.
  Proof.
    unfold ob_pure, rd, ls, tail_count, rd. rewrite !N2Nat.id. rewrite EHd, EIx, ETl.
    rewrite (hunks_listed_same a0 a b L0 L1 EHk).
    destruct (head_status _); try reflexivity. destruct (has_dir a0 (DIndex b)); [|reflexivity].
    apply hl_pure_same. rewrite N2Nat.id. exact EHk.
  Qed.

  Lemma closed_same : closed a b = closed a0 b.
  Proof. unfold closed, mt. rewrite ETl. reflexivity. Qed.

  Hypothesis Hcl : closed a0 b = true.

  (** the stitched reading of a closed band is that band's own index *)
  Lemma stitch_pure_same : stitch_pure pre keep a (N.to_nat b) = stitch_pure pre keep a0 (N.to_nat b).
  Proof.
    unfold stitch_pure. rewrite ob_pure_same. rewrite !N2Nat.id, closed_same, Hcl.
    destruct (ob_pure pre keep a0 (N.to_nat b) None [] 0) as [[l ac] me]. reflexivity.
  Qed.

  Lemma stitch_pure_closed_from e :
    In e (snd (fst (stitch_pure pre keep a0 (N.to_nat b)))) ->
    exists h es, get a0 (PHunk b h) = Some (Good (PlHunk es)) /\ In e es.
  Proof.
    unfold stitch_pure. rewrite N2Nat.id, Hcl.
    destruct (ob_pure pre keep a0 (N.to_nat b) None [] 0) as [[l ac] me] eqn:E. cbn [fst snd].
    assert (Eac : ac = snd (fst (ob_pure pre keep a0 (N.to_nat b) None [] 0))) by (rewrite E; reflexivity).
    rewrite Eac. clear E Eac. unfold ob_pure.
    destruct (head_status _); cbn [fst snd]; try contradiction.
    destruct (ls pre a0 (DIndex (N.of_nat (N.to_nat b)))); cbn [fst snd]; try contradiction.
    intros H. apply hl_pure_from in H. destruct H as [[]|(h & es & _ & G & He)].
    rewrite N2Nat.id in G. eauto.
  Qed.

  Hypothesis Hh0 : get a0 PHeader = Some (Good PlJson).
  Hypothesis Hh1 : get a PHeader = Some (Good PlJson).
  Hypothesis Hb0 : has_dir a0 DBlocks = true.
  Hypothesis Hb1 : has_dir a DBlocks = true.
  Hypothesis Hop : opens_b a0 b = true.
  Hypothesis Hblocks : forall c, referenced_by a0 b c -> get a (PBlock c) = get a0 (PBlock c).

  Lemma readable_same e :
    In e (snd (fst (stitch_pure pre keep a0 (N.to_nat b)))) -> readable_b a e = readable_b a0 e.
  Proof.
    intros He. destruct (stitch_pure_closed_from e He) as (h & es & G & Hin).
    unfold readable_b. apply forallb_ext_in'. intros ad Had. unfold addr_ok_b.
    rewrite (Hblocks (a_hash ad)); [reflexivity|]. exists h, es, e, ad. auto.
  Qed.

  (** RESTORE READS THE BAND AND ITS BLOCKS ONLY: two states that agree on the files and
      directories of a band whose tail is there (not zero-length) and whose head opens, and on
      every block the band's index refers to, restore that band to the same result: the same
      entries, the same contents, the same error count. *)
  Theorem restore_same_band : restore_of pre keep a b = restore_of pre keep a0 b.
  Proof.
    assert (Hop1 : opens_b a b = true) by (unfold opens_b, rd in *; rewrite EHd; exact Hop).
    destruct (restore_accounts pre a b keep Hh1 Hop1 (proj1 (has_dir_In _ _) Hb1)) as (tr & r & E & R1 & R2 & R3).
    destruct (restore_accounts pre a0 b keep Hh0 Hop (proj1 (has_dir_In _ _) Hb0)) as (tr0 & r0 & E0 & Q1 & Q2 & Q3).
    unfold restore_of. rewrite E, E0. cbn [snd]. f_equal.
    rewrite stitch_pure_same in R2, R3.
    destruct r as [ok fs me], r0 as [ok0 fs0 me0]. cbn [r_ok r_files r_merr] in *. subst.
    f_equal.
    - apply map_ext_in. intros e He. unfold restored_in. rewrite (readable_same e He). reflexivity.
    - f_equal. f_equal. f_equal. apply filter_ext_in. intros e He. unfold not_restored.
      rewrite (readable_same e He). reflexivity.
  Qed.
End SameBand.

Lemma complete_opens_closed a b : complete a b -> opens_b a b = true /\ closed a b = true.
Proof.
  unfold complete, head_opens, tail_closed, opens_b, closed, rd, mt. intros [H1 H2]. split.
  - destruct (get a (PHead b)) as [x|]; [|discriminate]. destruct (head_status (RData x)); auto; discriminate.
  - destruct (get a (PTail b)) as [x|]; [|discriminate]. cbn [meta_is_closed]. rewrite H2. reflexivity.
Qed.

Lemma complete_same a0 a b : band_files_same a0 a b -> complete a0 b -> complete a b.
Proof.
  intros (_ & E & _). unfold complete, head_opens, tail_closed.
  rewrite (E (PHead b)) by (left; reflexivity). rewrite (E (PTail b)) by (right; left; reflexivity). auto.
Qed.

Section DeleteStable.
  Variable pre : bytes -> N.

  (** DELETING OTHER VERSIONS DOES NOT CHANGE WHAT A KEPT COMPLETE VERSION RESTORES TO: for every
      fault list of the delete (failures, a kill anywhere), at every state the archive passes
      through and at the end, band [b] is still complete and restores to exactly what it
      restored to before: the same entries, the same contents, the same error count. *)
  Theorem delete_restore_stable : forall ids dry brk hint keep a0 b phi,
    RInv pre a0 -> complete a0 b -> ~ In b ids ->
    Forall (fun a => restore_of pre keep a b = restore_of pre keep a0 b /\ complete a b)
           (all_states pre (delete_prog ids dry brk hint) a0 phi).
  Proof.
    intros ids dry brk hint keep a0 b phi HI0 Hc Hn.
    pose proof (delete_rinv_all pre ids dry brk hint a0 phi HI0) as HR.
    destruct (delete_keeps pre ids dry brk hint a0 phi (RInv_WFhunks pre a0 HI0)) as [K1 K2].
    pose proof (In_all_states pre _ _ _ _ K1 K2) as HK.
    pose proof (complete_has_dir a0 b (WFidx_bands a0 (RInv_WFidx pre a0 HI0)) (proj1 Hc)) as Hb.
    destruct (complete_opens_closed a0 b Hc) as [Hop Hcl].
    rewrite Forall_forall in *. intros a Hin.
    destruct (HK a Hin b Hb Hn) as [SB Hbl]. pose proof (HR a Hin) as HIa. split.
    - apply (restore_same_band pre keep a0 a b (RInv_LWF pre a0 HI0) (RInv_LWF pre a HIa) SB Hcl);
        try assumption; try apply HI0; apply HIa.
    - apply (complete_same a0 a b SB Hc).
  Qed.
End DeleteStable.

(* ------------------------------------------------------------------------- *)
(** * C. A backup that reports success, under ANY faults, restores exactly     *)
(* ------------------------------------------------------------------------- *)

Section DoneHead.
  Variable pre : bytes -> N.
  Notation FT := (fun _ : fault => True).
  Notation IT := (fun _ : arch => True).
  Notation wpT := (DeleteP.wp pre FT IT).

  (* a property of the state that add-only operations keep holds at the end of every
     add-only program *)
  Lemma add_only_wp {R} (P : arch -> Prop) (Q : arch -> R -> Prop) (p : prog R) :
    (forall a a', Old a a' -> P a -> P a') -> (forall a r, P a -> Q a r) ->
    emits_only add_only p -> forall a, P a -> wpT Q p a.
  Proof.
    intros HP HQ H. induction H as [r| |o k Ho _ IH]; intros a Ha; cbn [DeleteP.wp]; auto.
    split; [exact I|]. intros f _. split; [exact I|]. apply IH.
    apply (HP a); [apply exec_add_Old; exact Ho | exact Ha].
  Qed.

  Definition HeadOK (id : N) (a : arch) : Prop :=
    get a (PHead id) = Some (Good (PlHead HvOk)) /\ has_dir a (DIndex id) = true.

  Lemma HeadOK_Old id a a' : Old a a' -> HeadOK id a -> HeadOK id a'.
  Proof.
    intros [HOd HOf] [H1 H2]. split; [apply HOf; [exact H1 | discriminate] | apply HOd; apply has_dir_In; exact H2].
  Qed.

  Lemma backup_head_wp c src a0 :
    wpT (fun a r => b_ok r = true -> HeadOK (new_band a0) a) (backup_prog pre c src) a0.
  Proof.
    assert (Hf0 : forall a, wpT (fun a r => b_ok r = true -> HeadOK (new_band a0) a) (Ret fail0) a).
    { intros a. cbn [DeleteP.wp]. intros H. cbn in H. discriminate H. }
    unfold backup_prog, open_archive.
    (* the header *)
    cbn [DeleteP.wp]. split; [exact I|]. intros f0 _. split; [exact I|].
    rewrite (exec_read_same pre a0 (OpRead PHeader) f0 I).
    destruct (snd (exec pre a0 (OpRead PHeader) f0)) as [| |[[| | | |]| |]| |]; try apply Hf0.
    (* the lock *)
    cbn [DeleteP.wp]. split; [exact I|]. intros f1 _. split; [exact I|].
    rewrite (exec_read_same pre a0 (OpMeta PLock) f1 I).
    destruct (snd (exec pre a0 (OpMeta PLock) f1)) as [|[| | |]| | |]; try apply Hf0.
    (* the two listings of the root *)
    cbn [DeleteP.wp]. split; [exact I|]. intros f2 _. split; [exact I|].
    rewrite (exec_read_same pre a0 (OpList DRoot) f2 I).
    destruct (snd (exec pre a0 (OpList DRoot) f2)) as [| | |ds1 fs1|] eqn:E1; try apply Hf0.
    cbv zeta.
    cbn [DeleteP.wp]. split; [exact I|]. intros f3 _. split; [exact I|].
    rewrite (exec_read_same pre a0 (OpList DRoot) f3 I).
    destruct (snd (exec pre a0 (OpList DRoot) f3)) as [| | |ds2 fs2|] eqn:E2; try apply Hf0.
    destruct (exec_list_reply pre a0 DRoot f3 ds2 fs2 E2) as (-> & _ & _).
    cbv zeta.
    change (match max_id (band_ids (children_dirs a0 DRoot)) with Some m => m + 1 | None => 0 end)
      with (new_band a0).
    set (id := new_band a0).
    (* the band directory, the index directory *)
    cbn [DeleteP.wp]. split; [exact I|]. intros f4 _. split; [exact I|].
    destruct (is_ok (snd (exec pre a0 (OpMkdir (DBand id)) f4))); [|apply Hf0].
    set (a4 := fst (exec pre a0 (OpMkdir (DBand id)) f4)).
    cbn [DeleteP.wp]. split; [exact I|]. intros f5 _. split; [exact I|].
    pose proof (exec_mkdir_ok pre a4 (DIndex id) f5) as Hidx.
    destruct (is_ok (snd (exec pre a4 (OpMkdir (DIndex id)) f5))); [|apply Hf0].
    specialize (Hidx eq_refl).
    set (a5 := fst (exec pre a4 (OpMkdir (DIndex id)) f5)) in *.
    (* the band header *)
    cbn [DeleteP.wp]. split; [exact I|]. intros f6 _. split; [exact I|].
    pose proof (exec_create_ok' pre a5 (PHead id) (PlHead HvOk) f6) as Hhd.
    pose proof (exec_add_Old pre a5 (OpWrite (PHead id) (PlHead HvOk) CreateNew) f6 I) as HO6.
    destruct (snd (exec pre a5 (OpWrite (PHead id) (PlHead HvOk) CreateNew) f6)) eqn:E6; cbn [is_ok]; try apply Hf0.
    destruct (Hhd eq_refl) as [_ Hhd'].
    set (a6 := fst (exec pre a5 (OpWrite (PHead id) (PlHead HvOk) CreateNew) f6)) in *.
    assert (H6 : HeadOK id a6).
    { split; [exact Hhd'|]. apply (proj1 HO6). apply has_dir_In. exact Hidx. }
    (* everything after it is add-only *)
    apply (add_only_wp (HeadOK id)); [apply HeadOK_Old | auto | | exact H6].
    repeat eo_step.
    apply list_blocks_add. intros [ex|]; [|constructor]. apply merge_loop_add.
  Qed.

  (** a backup that returns success has written the header of its band and created its
      index directory, whatever faults it met *)
  Theorem backup_done_head : forall c src a0 phi r,
    snd (run pre (backup_prog pre c src) a0 phi) = Done r -> b_ok r = true ->
    get (final2 pre (backup_prog pre c src) a0 phi) (PHead (new_band a0)) = Some (Good (PlHead HvOk))
    /\ has_dir (final2 pre (backup_prog pre c src) a0 phi) (DIndex (new_band a0)) = true.
  Proof.
    intros c src a0 phi r Hr Hok.
    assert (Hphi : Forall (fun _ : fault => True) phi) by (apply Forall_forall; auto).
    destruct (wp_sound pre FT IT _ (backup_prog pre c src) a0 phi I Hphi I (backup_head_wp c src a0))
      as (_ & _ & HQ).
    exact (HQ r Hr Hok).
  Qed.
End DoneHead.

(* what the state after a successful backup looks like, and how the new band reads:
   [E2EP.After] for an arbitrary fault list *)
Section AfterPhi.
  Variable pre : bytes -> N.
  Variables (c : cfg) (src : list sitem) (a0 a1 : arch) (phi : list fault) (r : bres).
  Hypothesis HR : RInv pre a0.
  Hypothesis Hs : SrcSorted src.
  Hypothesis Hv : SrcValid src.
  Hypothesis Hw : SrcWF src.
  Hypothesis Hc : cfg_ok c.
  Hypothesis Ea1 : final2 pre (backup_prog pre c src) a0 phi = a1.
  Hypothesis Er : snd (run pre (backup_prog pre c src) a0 phi) = Done r.
  Hypothesis Rok : b_ok r = true.
  Hypothesis Rerr : b_errors r = 0.

  Let b := new_band a0.
  Let Hh : get a0 PHeader = Some (Good PlJson) := proj1 HR.
  Let Hb : has_dir a0 DBlocks = true := proj1 (proj2 HR).
  Let HWF : WFparents pre a0 := proj1 (proj2 (proj2 HR)).
  Let NDd : NoDup (dirs a0) := proj1 (proj2 (proj2 (proj2 HR))).
  Let HA : AInv a0 := proj1 (proj2 (proj2 (proj2 (proj2 HR)))).
  Let HCo : Conf a0 := proj2 (proj2 (proj2 (proj2 (proj2 HR)))).
  Let HOK : SrcOK src := SrcSorted_SrcOK src Hs Hw.
  Let HDW : DirsWF pre a0 := WFparents_DirsWF pre a0 HWF.

  Lemma aphi_invariants :
    Conf a1 /\ AInv a1 /\ WFparents pre a1 /\ NoDup (dirs a1) /\ Old a0 a1 /\ NewFromSrc a0 c src a1.
  Proof.
    destruct (backup_conf_ainv pre c src a0 phi Hs Hv Hw HCo HA HWF) as (_ & HCo1 & HA1 & HWF1).
    destruct (backup_conf_full pre c src a0 phi Hs Hv Hw HCo (WFparents_NoOrphans pre a0 HWF)) as (_ & _ & HNew).
    destruct (any_run_NoDup_dirs pre (backup_prog pre c src) a0 phi NDd) as (_ & NDd1).
    destruct (backup_write_once pre c src a0 phi) as (_ & HOld).
    unfold final2 in Ea1. rewrite Ea1 in *. auto 10.
  Qed.

  Lemma aphi_header : get a1 PHeader = Some (Good PlJson) /\ has_dir a1 DBlocks = true.
  Proof.
    destruct aphi_invariants as (_ & _ & _ & _ & [HOd HOf] & _). split.
    - apply HOf; [exact Hh | discriminate].
    - apply HOd. apply has_dir_In. exact Hb.
  Qed.

  Lemma aphi_head : get a1 (PHead b) = Some (Good (PlHead HvOk)) /\ has_dir a1 (DIndex b) = true.
  Proof. rewrite <- Ea1. apply (backup_done_head pre c src a0 phi r Er Rok). Qed.

  Lemma aphi_new_band :
    exists n,
      get a1 (PTail b) = Some (Good (PlTail (Some n)))
      /\ (forall h, get a1 (PHunk b h) <> None -> h < n)
      /\ (forall h, h < n -> exists es, get a1 (PHunk b h) = Some (Good (PlHunk es)))
      /\ map e_apath (rec_upto a1 b (N.to_nat n)) = map spath (known_items src).
  Proof.
    destruct aphi_invariants as (HCo1 & _).
    destruct (backup_success_complete_wf pre c src a0 phi r HDW Er Rok Rerr) as [HComp _].
    unfold final2 in Ea1. rewrite Ea1 in HComp. fold b in HComp. destruct HComp as (n & Htail & Hhunks & Hperm).
    destruct (HCo1 b) as (_ & HSo & _ & HTT).
    exists n. split; [exact Htail|]. split; [|split].
    - intros h Hne. destruct (N.lt_ge_cases h n) as [L|L]; [exact L|].
      exfalso. apply Hne. apply (proj2 (HTT n Htail h) L).
    - intros h L. apply (proj1 (HTT n Htail h) L).
    - apply sorted_perm_eq; [| |exact Hperm].
      + apply SS_map. exact (rec_upto_sorted a1 b HSo (N.to_nat n)).
      + unfold kpaths. apply (SS_map_filter plt spath). exact Hs.
  Qed.

  Lemma aphi_entry_restored n it e :
    In it (known_items src) -> In e (rec_upto a1 b n) -> spath it = e_apath e ->
    item_restored c a0 it (restored_in a1 e) /\ not_restored a1 e = false.
  Proof.
    intros Hit He Hpath.
    destruct aphi_invariants as (HCo1 & HA1 & _ & _ & HOld & HNew).
    apply filter_In in Hit. destruct Hit as [Hin Hk].
    apply rec_upto_In in He. destruct He as (i & es & Hi & G & Hine).
    assert (HRec : Recorded a1 b e) by (exists (N.of_nat i), es; auto).
    destruct (new_band_fresh pre a0 HWF) as (Hfresh & _).
    pose proof (HNew b (N.of_nat i) es Hfresh G) as HFS. rewrite Forall_forall in HFS.
    destruct (HFS e Hine) as (it' & Hin' & Hmeta & _).
    assert (Hm : meta_of c it' e) by exact Hmeta.
    assert (Eit : it' = it).
    { apply (NoDup_map_unique (fun it => s_apath (si_e it)) src it' it (proj2 HOK) Hin' Hin).
      rewrite <- (meta_of_apath c it' e Hm). symmetry. exact Hpath. }
    subst it'.
    pose proof (meta_of_kind c it e Hm) as Hkind.
    assert (Hok : entry_ok a1 e).
    { pose proof (proj1 HA1 _ _ _ G) as F. rewrite Forall_forall in F. apply F. exact Hine. }
    unfold item_restored, restored_in, not_restored.
    destruct (s_kind (si_e it)) eqn:Ek; rewrite Hkind; try discriminate Hk.
    - rewrite (entry_ok_readable_b a1 e Hok), (entry_ok_read_content a1 e Hok). split; [|reflexivity].
      destruct (backup_recorded_truthful pre c src a0 phi HA HDW HOK Hc a1 (or_intror (eq_sym Ea1)) e HRec Hkind)
        as (it2 & Hin2 & Hp2 & Hk2 & Hm2 & Hne & Hcase).
      assert (Eit : it2 = it).
      { apply (NoDup_map_unique (fun it => s_apath (si_e it)) src it2 it (proj2 HOK) Hin2 Hin).
        rewrite Hp2. symmetry. exact Hpath. }
      subst it2.
      destruct Hcase as [HF | (be & Hib & Hpb & Hu & Hadd)].
      + exists e, (si_data it). split; [rewrite HF; reflexivity|]. split; [exact Hm | left; reflexivity].
      + pose proof Hib as (b' & h' & es' & _ & G' & Hinb).
        pose proof (proj1 HA _ _ _ G') as F. rewrite Forall_forall in F.
        pose proof (entry_ok_content _ _ (F _ Hinb)) as Hne'.
        destruct (content_of a0 be) as [d|] eqn:Ed; [|contradiction].
        pose proof (same_addrs_same_content a0 a1 e be d HOld Hadd Ed) as Ec.
        exists e, d. split; [rewrite Ec; reflexivity|]. split; [exact Hm|].
        right. exists be. split; [split; [exact Hib | split; [exact Hpb | exact Hu]]|]. split; [exact Hadd | exact Ed].
    - split; [|reflexivity]. exists e, []. split; [reflexivity|]. split; [exact Hm | reflexivity].
    - split; [|reflexivity]. exists e, []. split; [reflexivity|]. split; [exact Hm | reflexivity].
  Qed.

  Lemma aphi_complete : complete a1 b.
  Proof.
    destruct aphi_head as [Hd _]. destruct aphi_new_band as (n & Ht & _).
    unfold complete, head_opens, tail_closed. rewrite Hd, Ht. split; reflexivity.
  Qed.

  Lemma aphi_restore :
    exists tr' rr,
      run pre (restore_prog (Specified b) keep_all) a1 [] = (tr', a1, Done rr)
      /\ r_ok rr = true /\ r_merr rr = 0
      /\ Forall2 (item_restored c a0) (known_items src) (r_files rr).
  Proof.
    destruct aphi_invariants as (HCo1 & HA1 & HWF1 & NDd1 & HOld & HNew).
    destruct aphi_header as [Hh1 Hb1]. destruct aphi_head as [Hhead1 Hidx1].
    destruct aphi_new_band as (n & Htail & Hlt & Hgood & Hpaths).
    assert (Hopen : opens_b a1 b = true) by (unfold opens_b, rd; rewrite Hhead1; reflexivity).
    destruct (stitch_pure_closed_band pre a1 keep_all NDd1 (proj2 (proj2 HA1)) (proj1 HWF1) b n
                Hopen Hidx1 Htail Hlt Hgood) as [last Est].
    destruct (restore_accounts pre a1 b keep_all Hh1 Hopen (proj1 (has_dir_In _ _) Hb1))
      as (tr' & rr & Erun & R1 & R2 & R3).
    rewrite Est in R2, R3. cbn [fst snd] in R2, R3. rewrite filter_keep_all in R2, R3.
    exists tr', rr. split; [exact Erun|]. split; [exact R1|].
    set (L := rec_upto a1 b (N.to_nat n)) in *.
    assert (Hall : forall it e, In it (known_items src) -> In e L -> spath it = e_apath e ->
                     item_restored c a0 it (restored_in a1 e) /\ not_restored a1 e = false)
      by (intros it e; apply aphi_entry_restored).
    split.
    - rewrite R3. rewrite filter_none; [reflexivity|].
      intros e He.
      assert (Hp : In (e_apath e) (map spath (known_items src))) by (rewrite <- Hpaths; apply in_map; exact He).
      apply in_map_iff in Hp. destruct Hp as [it [Ep Hit]].
      exact (proj2 (Hall it e Hit He Ep)).
    - rewrite R2. apply (Forall2_same_keys e_apath spath); [symmetry; exact Hpaths|].
      intros it e Hit He Ep. exact (proj1 (Hall it e Hit He Ep)).
  Qed.
End AfterPhi.

(** C01 WITHOUT "NO FAULT".  From a state satisfying [RInv], a backup of a sorted, valid,
    well-formed source under a configuration with max_block_size >= 1 that -- whatever storage
    failures it met -- ran to its end and reported success, no error, and band [b]: then [b]
    is the band id the backup was bound to use, [b] is complete in the state reached, and
    restoring [b] from that state, no fault, reports no error and returns, in source order,
    exactly one restored file per recorded source item ([E2E.item_restored]). *)
Theorem backup_completed_restores_exact : forall pre c src a0 phi b,
  RInv pre a0 -> SrcSorted src -> SrcValid src -> SrcWF src -> cfg_ok c ->
  backup_completed pre c src a0 phi b ->
  let a1 := final2 pre (backup_prog pre c src) a0 phi in
  b = new_band a0 /\ complete a1 b
  /\ exists tr rr,
       run pre (restore_prog (Specified b) keep_all) a1 [] = (tr, a1, Done rr)
       /\ r_ok rr = true /\ r_merr rr = 0
       /\ Forall2 (item_restored c a0) (known_items src) (r_files rr).
Proof.
  intros pre c src a0 phi b HR Hs Hv Hw Hc (r & Er & Rok & Rerr & Rband) a1.
  pose proof HR as (_ & _ & HWF & _).
  destruct (backup_success_complete_wf pre c src a0 phi r (WFparents_DirsWF pre a0 HWF) Er Rok Rerr) as [_ Eb].
  assert (b = new_band a0) by congruence. subst b.
  split; [reflexivity|]. split.
  - apply (aphi_complete pre c src a0 a1 phi r HR Hs Hv Hw eq_refl Er Rok Rerr).
  - apply (aphi_restore pre c src a0 a1 phi r HR Hs Hv Hw Hc eq_refl Er Rok Rerr).
Qed.

(* ------------------------------------------------------------------------- *)
(** * D. Histories                                                             *)
(* ------------------------------------------------------------------------- *)

Lemma complete_Old a a' b : Old a a' -> complete a b -> complete a' b.
Proof.
  intros [_ HOf]. unfold complete, head_opens, tail_closed. intros [H1 H2].
  destruct (get a (PHead b)) as [x|] eqn:G1; [|discriminate].
  destruct (get a (PTail b)) as [y|] eqn:G2; [|discriminate].
  assert (Hx : x <> Empty) by (intros ->; cbn in H1; discriminate).
  assert (Hy : y <> Empty) by (intros ->; cbn in H2; discriminate).
  rewrite (HOf _ _ G1 Hx), (HOf _ _ G2 Hy). auto.
Qed.

Section Histories.
  Variable pre : bytes -> N.

  Lemma run_hop2_in_states a o : In (run_hop2 pre a o) (hop2_states pre a o).
  Proof. destruct o; apply all_states_final. Qed.

  Lemma history_states2_start a l : In a (history_states2 pre a l).
  Proof. destruct l; left; reflexivity. Qed.

  Lemma history_states2_last l : forall a, In (run_history2 pre a l) (history_states2 pre a l).
  Proof.
    induction l as [|o l IH]; intros a; cbn [history_states2 run_history2 fold_left]; [left; reflexivity|].
    right. apply in_or_app. right. apply IH.
  Qed.

  Lemma run_history2_app a l1 l2 : run_history2 pre a (l1 ++ l2) = run_history2 pre (run_history2 pre a l1) l2.
  Proof. unfold run_history2. apply fold_left_app. Qed.

  (* ---- the invariants along a history ---- *)
  Lemma hop2_rinv a o : RInv pre a -> hop2_src_ok o -> Forall (RInv pre) (hop2_states pre a o).
  Proof.
    intros HI Ho. destruct o as [c src phi|ids dry brk hint phi]; cbn [hop2_states].
    - destruct Ho as (Hs & Hv & Hw). apply backup_rinv_all; assumption.
    - apply delete_rinv_all. exact HI.
  Qed.

  (** EVERY STATE OF EVERY HISTORY SATISFIES [RInv]: backups of sorted, valid, well-formed
      sources, deletes and gcs, each under its own arbitrary fault list. *)
  Theorem history_rinv : forall l a,
    RInv pre a -> Forall hop2_src_ok l -> Forall (RInv pre) (history_states2 pre a l).
  Proof.
    induction l as [|o l IH]; intros a HI Hl; cbn [history_states2].
    - constructor; [exact HI | constructor].
    - inversion Hl as [|? ? Ho Hl']; subst. pose proof (hop2_rinv a o HI Ho) as Hst.
      constructor; [exact HI|]. apply Forall_app. split; [exact Hst|].
      apply IH; [|exact Hl']. rewrite Forall_forall in Hst. apply Hst. apply run_hop2_in_states.
  Qed.

  Lemma hop2_ready a o : Ready pre a -> hop2_src_ok o -> hop2_unlocking o -> Ready pre (run_hop2 pre a o).
  Proof.
    intros HR Ho Hu. destruct o as [c src phi|ids dry brk hint phi]; cbn [run_hop2].
    - destruct Ho as (Hs & Hv & Hw). pose proof (backup_ready_all pre c src a phi HR Hs Hv Hw) as H.
      rewrite Forall_forall in H. apply H. apply all_states_final.
    - cbn [hop2_unlocking] in Hu. subst phi. apply delete_ready. exact HR.
  Qed.

  (** [Ready] (with "no GC_LOCK file") after every history whose deletes meet no fault
      (its backups: any faults). *)
  Theorem history_ready : forall l a,
    Ready pre a -> Forall hop2_src_ok l -> Forall hop2_unlocking l -> Ready pre (run_history2 pre a l).
  Proof.
    induction l as [|o l IH]; intros a HR Hl Hu; cbn [run_history2 fold_left]; [exact HR|].
    inversion Hl; inversion Hu; subst. apply IH; auto. apply hop2_ready; assumption.
  Qed.

  (* ---- one step does not change what a kept complete band restores to ---- *)
  Lemma hop2_stable keep a o b :
    RInv pre a -> complete a b -> hop2_src_ok o -> hop2_keeps b o ->
    Forall (fun a' => restore_of pre keep a' b = restore_of pre keep a b /\ complete a' b) (hop2_states pre a o).
  Proof.
    intros HI Hc Ho Hk. destruct o as [c src phi|ids dry brk hint phi]; cbn [hop2_states].
    - pose proof HI as (Hh & Hb & _ & _ & HA & _).
      apply Forall_forall. intros a' Hin.
      assert (Hin' : In a' (backup_states pre c src a phi)) by exact Hin.
      split.
      + apply (complete_band_restore_stable pre c src keep a b Hh Hb (RInv_WFidx pre a HI) HA Hc phi a' Hin').
      + apply (complete_Old a a' b); [|exact Hc]. apply (backup_states_old pre c src a phi a' Hin').
    - cbn [hop2_keeps] in Hk. apply delete_restore_stable; assumption.
  Qed.

  (** A KEPT COMPLETE VERSION RESTORES THE SAME ALONG EVERY HISTORY: at every state (every
      intermediate state of every step included) of every history none of whose deletes names
      [b], band [b] is complete and restores to what it restored to at the start. *)
  Theorem history_stable : forall keep b l a,
    RInv pre a -> complete a b -> Forall hop2_src_ok l -> Forall (hop2_keeps b) l ->
    Forall (fun a' => restore_of pre keep a' b = restore_of pre keep a b /\ complete a' b)
           (history_states2 pre a l).
  Proof.
    intros keep b. induction l as [|o l IH]; intros a HI Hc Hl Hk; cbn [history_states2].
    - constructor; [auto | constructor].
    - inversion Hl as [|? ? Ho Hl']; inversion Hk as [|? ? Hko Hk']; subst.
      pose proof (hop2_stable keep a o b HI Hc Ho Hko) as Hst.
      pose proof (hop2_rinv a o HI Ho) as Hri.
      constructor; [auto|]. apply Forall_app. split; [exact Hst|].
      rewrite Forall_forall in Hst, Hri.
      destruct (Hst _ (run_hop2_in_states a o)) as [E1 C1].
      pose proof (IH (run_hop2 pre a o) (Hri _ (run_hop2_in_states a o)) C1 Hl' Hk') as H.
      rewrite Forall_forall in *. intros a' Hin. destruct (H a' Hin) as [E2 C2].
      split; [rewrite E2; exact E1 | exact C2].
  Qed.

  Lemma restore_of_run keep a b rr :
    restore_of pre keep a b = Done rr ->
    exists tr, run pre (restore_prog (Specified b) keep) a [] = (tr, a, Done rr).
  Proof.
    unfold restore_of. intros E.
    destruct (restore_state_unchanged pre (Specified b) keep a []) as [_ Ea].
    destruct (run pre (restore_prog (Specified b) keep) a []) as [[tr af] out]. cbn [fst snd] in *. subst.
    exists tr. reflexivity.
  Qed.

  (** C02, THE COMPOSITION.  Start from any state satisfying [RInv] (the state after [init]
      does).  Run ANY history [l1]; then a backup of [src] that -- under its own arbitrary
      faults [phi] -- runs to its end and reports success, no error, band [b]; then ANY history
      [l2] none of whose deletes names [b].  Every step of [l1] and [l2] is a backup (of a
      sorted, valid, well-formed source) or a delete / gc under an ARBITRARY fault list:
      storage failures, kills at any point, torn writes; a later backup may be interrupted,
      a later delete may be killed and leave its lock behind.  Then at EVERY state the archive
      passes through after that backup -- intermediate states of later steps included -- and
      in particular at the end, band [b] is complete, and restoring it, no fault, reports no
      error and returns, in source order, exactly one restored file per recorded item of
      [src], with that item's metadata and the bytes read from it (or, for a file whose
      addresses were reused from the previous version because kind, mtime and size were
      unchanged, what that entry restored to when the backup started): [E2E.item_restored]
      relative to [a_before], the state in which that backup started.
      No hypothesis on band ids is needed: a later backup cannot write into [b] while [b]
      exists, and [b] exists as long as no delete names it. *)
  Theorem history_restores_exact : forall l1 c src phi l2 a0 b,
    RInv pre a0 ->
    Forall hop2_src_ok (l1 ++ H2Backup c src phi :: l2) -> cfg_ok c ->
    let a_before := run_history2 pre a0 l1 in
    backup_completed pre c src a_before phi b ->
    Forall (hop2_keeps b) l2 ->
    forall a, In a (history_states2 pre (run_hop2 pre a_before (H2Backup c src phi)) l2) ->
      complete a b
      /\ exists tr rr,
           run pre (restore_prog (Specified b) keep_all) a [] = (tr, a, Done rr)
           /\ r_ok rr = true /\ r_merr rr = 0
           /\ Forall2 (item_restored c a_before) (known_items src) (r_files rr).
  Proof.
    intros l1 c src phi l2 a0 b HI0 Hl Hc a_before Hdone Hk a Hin.
    apply Forall_app in Hl. destruct Hl as [Hl1 Hl2]. inversion Hl2 as [|? ? Ho Hl2']; subst.
    assert (HIb : RInv pre a_before).
    { pose proof (history_rinv l1 a0 HI0 Hl1) as H. rewrite Forall_forall in H. apply H. apply history_states2_last. }
    destruct Ho as (Hs & Hv & Hw).
    destruct (backup_completed_restores_exact pre c src a_before phi b HIb Hs Hv Hw Hc Hdone)
      as (Eb & Hcomp & tr1 & rr & Erun & R1 & R2 & R3).
    set (a1 := run_hop2 pre a_before (H2Backup c src phi)) in *.
    assert (HI1 : RInv pre a1).
    { pose proof (backup_rinv_all pre c src a_before phi HIb Hs Hv Hw) as H. rewrite Forall_forall in H.
      apply H. apply all_states_final. }
    pose proof (history_stable keep_all b l2 a1 HI1 Hcomp Hl2' Hk) as Hst.
    rewrite Forall_forall in Hst. destruct (Hst a Hin) as [E C]. split; [exact C|].
    assert (E1 : restore_of pre keep_all a1 b = Done rr).
    { unfold restore_of. change a1 with (final2 pre (backup_prog pre c src) a_before phi). rewrite Erun. reflexivity. }
    rewrite E1 in E. destruct (restore_of_run keep_all a b rr E) as [tr Er].
    exists tr, rr. auto.
  Qed.

  (** ... in particular in the final state of the whole history. *)
  Corollary history_restores_exact_final : forall l1 c src phi l2 a0 b,
    RInv pre a0 ->
    Forall hop2_src_ok (l1 ++ H2Backup c src phi :: l2) -> cfg_ok c ->
    let a_before := run_history2 pre a0 l1 in
    let a_end := run_history2 pre a0 (l1 ++ H2Backup c src phi :: l2) in
    backup_completed pre c src a_before phi b ->
    Forall (hop2_keeps b) l2 ->
    complete a_end b
    /\ exists tr rr,
         run pre (restore_prog (Specified b) keep_all) a_end [] = (tr, a_end, Done rr)
         /\ r_ok rr = true /\ r_merr rr = 0
         /\ Forall2 (item_restored c a_before) (known_items src) (r_files rr).
  Proof.
    intros l1 c src phi l2 a0 b HI0 Hl Hc a_before a_end Hdone Hk.
    apply (history_restores_exact l1 c src phi l2 a0 b HI0 Hl Hc Hdone Hk).
    unfold a_end. rewrite run_history2_app. cbn [run_history2 fold_left]. apply history_states2_last.
  Qed.

  (** THE SPECIAL CASE WITHOUT SUCCESS HYPOTHESIS.  From a [Ready] state (after [init]), after
      any history [l1] whose backups run under ARBITRARY faults (completed, failed or killed
      anywhere) and whose deletes / gcs meet no fault, a backup that meets no fault DOES
      complete, into band [new_band a_before]; and after any later history [l2] (arbitrary
      faults in backups AND deletes) that does not delete that band, it restores exactly. *)
  Theorem history_restores_exact_ff : forall l1 c src l2 a0,
    Ready pre a0 ->
    Forall hop2_src_ok (l1 ++ H2Backup c src [] :: l2) -> cfg_ok c ->
    Forall hop2_unlocking l1 ->
    let a_before := run_history2 pre a0 l1 in
    let a_end := run_history2 pre a0 (l1 ++ H2Backup c src [] :: l2) in
    let b := new_band a_before in
    Forall (hop2_keeps b) l2 ->
    backup_completed pre c src a_before [] b
    /\ complete a_end b
    /\ exists tr rr,
         run pre (restore_prog (Specified b) keep_all) a_end [] = (tr, a_end, Done rr)
         /\ r_ok rr = true /\ r_merr rr = 0
         /\ Forall2 (item_restored c a_before) (known_items src) (r_files rr).
  Proof.
    intros l1 c src l2 a0 HR0 Hl Hc Hu a_before a_end b Hk.
    assert (Hl1 : Forall hop2_src_ok l1) by (apply Forall_app in Hl; apply Hl).
    pose proof (history_ready l1 a0 HR0 Hl1 Hu) as HRb. fold a_before in HRb.
    destruct (backup_succeeds pre c src a_before (proj1 HRb)) as (tr & a1 & r & E & Rok & Rerr & Rband & _).
    assert (Hdone : backup_completed pre c src a_before [] b).
    { exists r. rewrite E. auto. }
    split; [exact Hdone|].
    apply (history_restores_exact_final l1 c src [] l2 a0 b (proj1 (proj1 (Ready_RInv pre a0) HR0)) Hl Hc Hdone Hk).
  Qed.

  (** "LATEST COMPLETE" SELECTS IT.  In a state satisfying [RInv] in which band [b] is
      complete and is the newest band directory, [resolve LatestClosed] yields [b]. *)
  Theorem latest_complete_is_newest_complete : forall a b {R} (k : option N -> prog R),
    RInv pre a -> complete a b ->
    (forall b', has_dir a (DBand b') = true -> b' <= b) ->
    evals pre a (resolve LatestClosed k) (k (Some b)).
  Proof.
    intros a b R k HI Hc Hnew.
    destruct (latest_closed_is_newest pre a k (RInv_root pre a HI)) as (o & Hev & Ho).
    pose proof (complete_has_dir a b (WFidx_bands a (RInv_WFidx pre a HI)) (proj1 Hc)) as Hb.
    assert (Hoc : open_closed a b = true) by (unfold open_closed; destruct Hc as [-> ->]; reflexivity).
    destruct o as [b'|].
    - destruct Ho as (Hb' & _ & Hmax). assert (b' = b) by (pose proof (Hmax b Hb Hoc); pose proof (Hnew b' Hb'); lia).
      subst b'. exact Hev.
    - rewrite (Ho b Hb) in Hoc. discriminate.
  Qed.

  (** After such a history: [LatestClosed] resolves to the newest band that opens and has a
      non-empty tail ([FrameP.latest_closed_is_newest], any state); and if the completed
      backup's band [b] is still the newest band directory at the end, it resolves to [b]. *)
  Corollary latest_complete_after_history : forall l1 c src phi l2 a0 b,
    RInv pre a0 ->
    Forall hop2_src_ok (l1 ++ H2Backup c src phi :: l2) -> cfg_ok c ->
    let a_before := run_history2 pre a0 l1 in
    let a_end := run_history2 pre a0 (l1 ++ H2Backup c src phi :: l2) in
    backup_completed pre c src a_before phi b ->
    Forall (hop2_keeps b) l2 ->
    (forall b', has_dir a_end (DBand b') = true -> b' <= b) ->
    latest_closed_of pre a_end = Done (Some b).
  Proof.
    intros l1 c src phi l2 a0 b HI0 Hl Hc a_before a_end Hdone Hk Hnew.
    destruct (history_restores_exact_final l1 c src phi l2 a0 b HI0 Hl Hc Hdone Hk) as [Hcomp _].
    fold a_end in Hcomp.
    assert (HIe : RInv pre a_end).
    { pose proof (history_rinv _ a0 HI0 Hl) as H. rewrite Forall_forall in H. apply H. apply history_states2_last. }
    pose proof (latest_complete_is_newest_complete a_end b (fun o => Ret o) HIe Hcomp Hnew) as Hev.
    destruct (evals_run_ret pre a_end _ _ Hev) as [tr E]. unfold latest_closed_of. rewrite E. reflexivity.
  Qed.
End Histories.

(* ------------------------------------------------------------------------- *)
(** * E. Checkers, the start state                                             *)
(* ------------------------------------------------------------------------- *)

Lemma backup_completed_b_sound pre c src a phi b :
  backup_completed_b pre c src a phi b = true -> backup_completed pre c src a phi b.
Proof.
  unfold backup_completed_b, backup_completed.
  destruct (snd (run pre (backup_prog pre c src) a phi)) as [r| |]; try discriminate.
  rewrite !andb_true_iff. intros [[H1 H2] H3]. exists r. split; [reflexivity|]. split; [exact H1|].
  split; [apply N.eqb_eq; exact H2|]. destruct (b_band r) as [b'|]; [|discriminate].
  apply N.eqb_eq in H3. subst. reflexivity.
Qed.

(** the archive a fault-free [init] creates satisfies [Ready] (hence [RInv]) *)
Theorem init_ready : forall pre, Ready pre (init_state pre).
Proof. intros pre. rewrite init_state_eq. apply ready_b_sound. vm_compute. reflexivity. Qed.

Theorem init_rinv : forall pre, RInv pre (init_state pre).
Proof. intros pre. apply (Ready_RInv pre (init_state pre)). apply init_ready. Qed.

(** The same for the histories of an archive: those that start with a fault-free [init]. *)
Corollary history_restores_exact_from_init : forall pre l1 c src phi l2 b,
  Forall hop2_src_ok (l1 ++ H2Backup c src phi :: l2) -> cfg_ok c ->
  let a_before := run_history2 pre (init_state pre) l1 in
  let a_end := run_history2 pre (init_state pre) (l1 ++ H2Backup c src phi :: l2) in
  backup_completed pre c src a_before phi b ->
  Forall (hop2_keeps b) l2 ->
  complete a_end b
  /\ exists tr rr,
       run pre (restore_prog (Specified b) keep_all) a_end [] = (tr, a_end, Done rr)
       /\ r_ok rr = true /\ r_merr rr = 0
       /\ Forall2 (item_restored c a_before) (known_items src) (r_files rr).
Proof. intros pre l1 c src phi l2 b. apply history_restores_exact_final. apply init_rinv. Qed.

(* ------------------------------------------------------------------------- *)
(** * F. Examples (non-vacuity) and the refutation, by computation             *)
(* ------------------------------------------------------------------------- *)
Module HistoryExamples.
  Import SafeExamples.

  Example hx_src_ok x : x = 6 \/ x = 7 \/ x = 8 \/ x = 9 ->
    SrcSorted (ex_src x) /\ SrcValid (ex_src x) /\ SrcWF (ex_src x).
  Proof.
    intros [-> | [-> | [-> | ->]]];
      (split; [apply srcsorted_b_sound | split; [apply srcvalid_b_sound | apply srcwf_b_sound]]);
      vm_compute; reflexivity.
  Qed.
  Example hx_cfg_ok : cfg_ok ex_cfg.
  Proof. unfold cfg_ok. cbn. lia. Qed.

  (* A history from [init]:
       b0000 completes; b0001 is killed in the write of its first index hunk (a zero-length
       hunk file is left);
     THE backup: b0002, which meets a storage failure on its 23rd operation (reading an index
       hunk of the basis) and still completes without an error;
     then: b0001 is deleted; a delete of b0000 is KILLED after it removed the band, before it
       removed the unreferenced block and the lock (GC_LOCK is left behind); a backup is
       refused (lock); a gc with --break-lock collects the block; a backup into b0003 is
       killed leaving a zero-length file. *)
  Definition hx_a0 : arch := init_state ex_pre.
  Definition hx_l1 : list hop2 :=
    [H2Backup ex_cfg (ex_src 6) []; H2Backup ex_cfg (ex_src 7) ex_phi_crash].
  Definition hx_phi : list fault := repeat NoFault 22 ++ [Fail EOther].
  Definition hx_l2 : list hop2 :=
    [H2Delete [1] false false [] [];
     H2Delete [0] false false [] (repeat NoFault 17 ++ [Crash]);
     H2Backup ex_cfg (ex_src 9) [];
     H2Delete [] false true [] [];
     H2Backup ex_cfg (ex_src 9) (repeat NoFault 20 ++ [CrashEmpty])].
  Definition hx_before : arch := run_history2 ex_pre hx_a0 hx_l1.
  Definition hx_end : arch := run_history2 ex_pre hx_a0 (hx_l1 ++ H2Backup ex_cfg (ex_src 8) hx_phi :: hx_l2).

  (* the hypotheses of [history_restores_exact] hold *)
  Example hx_hyps :
    RInv ex_pre hx_a0
    /\ Forall hop2_src_ok (hx_l1 ++ H2Backup ex_cfg (ex_src 8) hx_phi :: hx_l2)
    /\ backup_completed ex_pre ex_cfg (ex_src 8) (run_history2 ex_pre hx_a0 hx_l1) hx_phi 2
    /\ Forall (hop2_keeps 2) hx_l2.
  Proof.
    split; [apply init_rinv|]. split; [|split].
    - unfold hx_l1, hx_l2. cbn [app].
      repeat (apply Forall_cons; [first [exact I | apply hx_src_ok; auto 6]|]). apply Forall_nil.
    - apply backup_completed_b_sound. vm_compute. reflexivity.
    - unfold hx_l2. repeat (apply Forall_cons; [cbn; intuition discriminate|]). apply Forall_nil.
  Qed.

  (* what happened, computed: the faulty backup completed; at the end b0000 and b0001 are gone,
     b0003 is there, incomplete, with a zero-length block file; the block only b0000 referenced is gone; in
     between a GC_LOCK was left behind and a backup refused *)
  Example hx_computed :
    backup_completed_b ex_pre ex_cfg (ex_src 8) hx_before hx_phi 2 = true
    /\ nth_error (fst (fst (run ex_pre (backup 8) hx_before hx_phi))) 22
       = Some (OpRead (PHunk 0 0), RErr EOther)
    /\ map fst (files hx_end)
       = [PHeader; PBlock [1;2]; PBlock [1;2;3;4]; PHead 2; PHunk 2 0; PBlock [5;8]; PHunk 2 1; PTail 2;
          PHead 3; PHunk 3 0; PBlock [5;9]]
    /\ get hx_end (PBlock [5;9]) = Some Empty
    /\ (let a_locked := run_history2 ex_pre hx_a0 (hx_l1 ++ H2Backup ex_cfg (ex_src 8) hx_phi :: firstn 2 hx_l2) in
        get a_locked PLock = Some (Good PlJson)
        /\ run_hop2 ex_pre a_locked (H2Backup ex_cfg (ex_src 9) []) = a_locked)
    /\ rinv_b ex_pre hx_end = true
    /\ restores_exactly_b ex_pre ex_cfg (ex_src 8) hx_end 2 = true
    /\ latest_closed_of ex_pre hx_end = Done (Some 2).
  Proof. vm_compute. repeat split; reflexivity. Qed.

  (* the same as an instance of the theorem *)
  Example hx_thm :
    complete hx_end 2
    /\ exists tr rr,
         run ex_pre (restore_prog (Specified 2) keep_all) hx_end [] = (tr, hx_end, Done rr)
         /\ r_ok rr = true /\ r_merr rr = 0
         /\ Forall2 (item_restored ex_cfg hx_before) (known_items (ex_src 8)) (r_files rr).
  Proof.
    destruct hx_hyps as (H1 & H2 & H3 & H4).
    exact (history_restores_exact_final ex_pre hx_l1 ex_cfg (ex_src 8) hx_phi hx_l2 hx_a0 2 H1 H2 hx_cfg_ok H3 H4).
  Qed.

  (* the fault-free special case: no success hypothesis *)
  Example hx_ff_thm :
    let l1 := [H2Backup ex_cfg (ex_src 6) []; H2Delete [] false false [] [];
               H2Backup ex_cfg (ex_src 7) ex_phi_crash] in
    let l2 := [H2Delete [1] false false [] [];
               H2Delete [0] false false [] (repeat NoFault 17 ++ [Crash]); H2Backup ex_cfg (ex_src 9) []] in
    let a_before := run_history2 ex_pre hx_a0 l1 in
    let a_end := run_history2 ex_pre hx_a0 (l1 ++ H2Backup ex_cfg (ex_src 8) [] :: l2) in
    new_band a_before = 2
    /\ get a_end PLock <> None
    /\ exists tr rr,
         run ex_pre (restore_prog (Specified (new_band a_before)) keep_all) a_end [] = (tr, a_end, Done rr)
         /\ r_ok rr = true /\ r_merr rr = 0
         /\ Forall2 (item_restored ex_cfg a_before) (known_items (ex_src 8)) (r_files rr).
  Proof.
    intros l1 l2 a_before a_end.
    assert (E : new_band a_before = 2) by (vm_compute; reflexivity).
    split; [exact E|]. split; [vm_compute; discriminate|].
    apply (history_restores_exact_ff ex_pre l1 ex_cfg (ex_src 8) l2 hx_a0).
    - apply init_ready.
    - unfold l1, l2. cbn [app].
      repeat (apply Forall_cons; [first [exact I | apply hx_src_ok; auto 6]|]). apply Forall_nil.
    - exact hx_cfg_ok.
    - unfold l1. repeat (apply Forall_cons; [first [exact I | reflexivity]|]). apply Forall_nil.
    - fold a_before. rewrite E. unfold l2. repeat (apply Forall_cons; [cbn; intuition discriminate|]). apply Forall_nil.
  Qed.

  (* the faulty backup alone: [backup_completed_restores_exact] *)
  Example hx_backup_thm :
    let a1 := final2 ex_pre (backup 8) hx_before hx_phi in
    complete a1 2
    /\ exists tr rr,
         run ex_pre (restore_prog (Specified 2) keep_all) a1 [] = (tr, a1, Done rr)
         /\ r_ok rr = true /\ r_merr rr = 0
         /\ Forall2 (item_restored ex_cfg hx_before) (known_items (ex_src 8)) (r_files rr).
  Proof.
    destruct hx_hyps as (H1 & H2 & H3 & H4). destruct (hx_src_ok 8) as (Hs & Hv & Hw); [auto|].
    assert (HIb : RInv ex_pre hx_before) by (apply rinv_b_sound; vm_compute; reflexivity).
    exact (proj2 (backup_completed_restores_exact ex_pre ex_cfg (ex_src 8) hx_before hx_phi 2 HIb Hs Hv Hw hx_cfg_ok H3)).
  Qed.

  (* "latest complete": as long as b0002 is the newest band directory it is what LatestClosed
     selects (here after the first four steps of [hx_l2]: GC_LOCK left behind, broken, gc) *)
  Example hx_latest_thm :
    latest_closed_of ex_pre
      (run_history2 ex_pre hx_a0 (hx_l1 ++ H2Backup ex_cfg (ex_src 8) hx_phi :: firstn 4 hx_l2)) = Done (Some 2).
  Proof.
    destruct hx_hyps as (H1 & H2 & H3 & H4).
    apply (latest_complete_after_history ex_pre hx_l1 ex_cfg (ex_src 8) hx_phi (firstn 4 hx_l2) hx_a0 2 H1).
    - unfold hx_l1, hx_l2. cbn [app firstn].
      repeat (apply Forall_cons; [first [exact I | apply hx_src_ok; auto 6]|]). apply Forall_nil.
    - exact hx_cfg_ok.
    - exact H3.
    - unfold hx_l2. cbn [firstn]. repeat (apply Forall_cons; [cbn; intuition discriminate|]). apply Forall_nil.
    - match goal with |- forall b', has_dir ?a _ = true -> _ =>
        assert (E : newest_b a 2 = true) by (vm_compute; reflexivity);
        exact (proj2 (newest_b_sound a 2 E))
      end.
  Qed.

  (* [delete_restore_stable], [backup_ready_all], [delete_ready] on these states *)
  Example hx_delete_stable_thm :
    let a := run_history2 ex_pre hx_a0 (hx_l1 ++ [H2Backup ex_cfg (ex_src 8) hx_phi; H2Delete [1] false false [] []]) in
    Forall (fun a' => restore_of ex_pre keep_all a' 2 = restore_of ex_pre keep_all a 2 /\ complete a' 2)
           (all_states ex_pre (delete_prog [0] false false []) a (repeat NoFault 17 ++ [Crash])).
  Proof.
    intros a. apply delete_restore_stable.
    - apply rinv_b_sound. vm_compute. reflexivity.
    - split; vm_compute; reflexivity.
    - cbn. intuition discriminate.
  Qed.

  Example hx_backup_ready_thm :
    Forall (Ready ex_pre) (all_states ex_pre (backup 7) ex_a2 ex_phi_crash).
  Proof.
    destruct (hx_src_ok 7) as (Hs & Hv & Hw); [auto|].
    apply backup_ready_all; [apply ready_b_sound; vm_compute; reflexivity | assumption..].
  Qed.

  Example hx_delete_ready_thm : Ready ex_pre (final2 ex_pre (delete_prog [0] false false []) ex_a3 []).
  Proof. apply delete_ready. apply E2EExamples.ex_ready_a3. Qed.

  (** THE STATEMENT "a delete keeps [Ready] under every fault list" IS FALSE:
        forall pre ids dry brk hint a0 phi, Ready pre a0 ->
          Ready pre (final2 pre (delete_prog ids dry brk hint) a0 phi).
      A delete killed between taking and releasing GC_LOCK leaves the lock file behind (the
      next backup then refuses, as it must: C06).  What IS kept under every fault list is
      [RInv] = [Ready] without "no GC_LOCK file" ([delete_rinv_all], [delete_ready_but_lock]);
      and [Ready] is kept when the delete meets no fault ([delete_ready]). *)
  Theorem delete_ready_all_refuted :
    exists pre ids dry brk hint a0 phi,
      Ready pre a0 /\ ~ Ready pre (final2 pre (delete_prog ids dry brk hint) a0 phi).
  Proof.
    exists ex_pre, [0], false, false, [], ex_a3, (repeat NoFault 17 ++ [Crash]).
    split; [apply E2EExamples.ex_ready_a3|].
    assert (E : get (final2 ex_pre (delete_prog [0] false false []) ex_a3 (repeat NoFault 17 ++ [Crash])) PLock
                = Some (Good PlJson)) by (vm_compute; reflexivity).
    intros HR. pose proof (proj1 (proj2 (proj1 HR))) as Hl. clear HR. rewrite E in Hl. discriminate Hl.
  Qed.
End HistoryExamples.

(* ------------------------------------------------------------------------- *)
(** * The main statements                                                      *)
(* ------------------------------------------------------------------------- *)
Print Assumptions backup_lock_same.
Print Assumptions backup_rinv_all.
Print Assumptions backup_ready_all.
Print Assumptions delete_rinv_all.
Print Assumptions delete_ff_unlocked.
Print Assumptions delete_ready.
Print Assumptions delete_ready_but_lock.
Print Assumptions delete_ready_iff.
Print Assumptions restore_same_band.
Print Assumptions delete_restore_stable.
Print Assumptions backup_done_head.
Print Assumptions backup_completed_restores_exact.
Print Assumptions history_rinv.
Print Assumptions history_ready.
Print Assumptions history_stable.
Print Assumptions history_restores_exact.
Print Assumptions history_restores_exact_final.
Print Assumptions history_restores_exact_ff.
Print Assumptions latest_complete_is_newest_complete.
Print Assumptions latest_complete_after_history.
Print Assumptions init_ready.
Print Assumptions history_restores_exact_from_init.
Print Assumptions HistoryExamples.hx_backup_thm.
Print Assumptions HistoryExamples.hx_latest_thm.
Print Assumptions HistoryExamples.hx_thm.
Print Assumptions HistoryExamples.hx_ff_thm.
Print Assumptions HistoryExamples.delete_ready_all_refuted.
